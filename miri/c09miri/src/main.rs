//! argv: <n> <threads> <draws> <steps>   where <steps> = fault lists per step, e.g. "1,3;;0" (three steps)
//! Prints one line per finding (`FINDING clause=.. key=.. msg=..`), then `DIGEST <hex>` and exits 1 if any finding.

#[path = "../../../sim/c09common/common.rs"]
mod common;

use std::sync::atomic::Ordering;

use common::{check_step, interleaving_digest, Ev, Ind, Maker, Pop, StepFacts};
use ec_core::generation::Generation;

fn yield_hook() {
    std::thread::yield_now();
}

fn worker_id() -> u64 {
    // stable small integer per OS thread within this process
    use std::sync::atomic::AtomicU64;
    static NEXT: AtomicU64 = AtomicU64::new(1);
    thread_local! { static ID: u64 = NEXT.fetch_add(1, Ordering::SeqCst); }
    ID.with(|x| *x)
}

fn main() {
    let args: Vec<String> = std::env::args().skip(1).collect();
    let n: usize = args.first().and_then(|s| s.parse().ok()).unwrap_or(4);
    let threads: usize = args.get(1).and_then(|s| s.parse().ok()).unwrap_or(2);
    let draws: usize = args.get(2).and_then(|s| s.parse().ok()).unwrap_or(1);
    let steps: Vec<Vec<usize>> = args
        .get(3)
        .map(|s| s.split(';').map(|f| f.split(',').filter_map(|x| x.parse().ok()).collect()).collect())
        .unwrap_or_else(|| vec![vec![]]);

    let pool = rayon::ThreadPoolBuilder::new().num_threads(threads.max(1)).build().expect("pool");
    let maker = Maker::new(draws, 1000, yield_hook, worker_id);
    let pop: Pop = (0..n as u64).map(|i| Ind { serial: i, made_from: 0 }).collect();
    let mut generation = Generation::new(maker.clone(), pop);
    let mut previous_words: Vec<u64> = Vec::new();
    let mut digest = 0u64;
    let mut findings = 0usize;
    let mut overlapped = false;
    let mut faults_fired = 0usize;
    let mut never_attempted = 0usize;
    for (step, faults) in steps.iter().enumerate() {
        let pre: Pop = generation.population().clone();
        let pre_addr = std::ptr::from_ref(generation.population()) as usize;
        maker.begin_step(faults);
        let result = if threads == 0 { generation.serial_next() } else { pool.install(|| generation.par_next()) };
        let log: Vec<Ev> = maker.take_log();
        let facts = StepFacts {
            which: if threads == 0 { "serial_next(miri)" } else { "par_next(miri, real rayon)" },
            step,
            pre: &pre,
            pre_addr,
            post: generation.population(),
            result: &result,
            log: &log,
            injected: faults,
            in_flight_after: maker.st.in_flight.load(Ordering::SeqCst),
            previous_words: &previous_words,
        };
        let (fs, words) = check_step(&facts);
        for f in fs {
            findings += 1;
            println!("FINDING clause={} key={} msg={}", f.clause, f.key, f.message.replace('\n', " "));
        }
        previous_words = words;
        digest = digest.rotate_left(7) ^ interleaving_digest(&log);
        overlapped |= maker.st.max_in_flight.load(Ordering::SeqCst) >= 2;
        let entered = log.iter().filter(|e| matches!(e, Ev::Enter { .. })).count();
        faults_fired += log.iter().filter(|e| matches!(e, Ev::Exit { ok: false, .. })).count();
        if result.is_err() {
            never_attempted += n - entered.min(n);
        }
    }
    println!(
        "DIGEST {digest:016x} overlapped={} faults_fired={faults_fired} never_attempted={never_attempted} findings={findings}",
        u8::from(overlapped)
    );
    if findings > 0 {
        std::process::exit(1);
    }
}
