//! C09, shuttle leg (engine E4): the UNCHANGED `ec_core::generation` compiled
//! against the rayon stand-in, every `par_next` executed under a seeded shuttle
//! scheduler (random or PCT), with child-maker failures injected at enumerated
//! positions. One scenario = one schedule = one integer.

#[path = "../../c09common/common.rs"]
mod common;

use std::sync::{Arc, Mutex as StdMutex};

use common::{check_step, interleaving_digest, Ev, Finding, Ind, Maker, Pop, StepFacts};
use ec_core::generation::Generation;
use rayon::ShimConfig;
use serde::{Deserialize, Serialize};
use shuttle::scheduler::{PctScheduler, RandomScheduler};
use simcore::{main_for, mix, Check, Obs, Tier, Violation, Xo};

#[derive(Serialize, Deserialize, Clone, Debug, PartialEq)]
enum Sched {
    Random,
    Pct(usize),
}

#[derive(Serialize, Deserialize, Clone, Debug)]
struct Sc {
    n: usize,
    /// per step: the child-maker arrival indices that fail
    steps: Vec<Vec<usize>>,
    workers: usize,
    splits: Vec<u16>,
    draws: usize,
    sched: Sched,
    sched_seed: u64,
}

#[derive(Default)]
struct RunOut {
    findings: Vec<Finding>,
    digest: u64,
    max_in_flight: usize,
    calls: usize,
    faults_fired: usize,
    steps_failed: usize,
    never_attempted: usize,
    jobs: usize,
    inits: usize,
    two_failed_in_one_step: bool,
}

fn yield_hook() {
    shuttle::thread::sleep(std::time::Duration::ZERO);
}

fn worker_id() -> u64 {
    simcore::fnv1a(format!("{:?}", shuttle::thread::current().id()).as_bytes())
}

fn body(sc: &Sc) -> RunOut {
    let mut out = RunOut::default();
    let maker = Maker::new(sc.draws, 1000, yield_hook, worker_id);
    let pop: Pop = (0..sc.n as u64).map(|i| Ind { serial: i, made_from: 0 }).collect();
    let mut generation = Generation::new(maker.clone(), pop);
    let mut previous_words: Vec<u64> = Vec::new();
    let mut digest = 0u64;
    for (step, faults) in sc.steps.iter().enumerate() {
        rayon::configure(ShimConfig { workers: sc.workers, splits: sc.splits.clone() });
        let pre: Pop = generation.population().clone();
        let pre_addr = std::ptr::from_ref(generation.population()) as usize;
        maker.begin_step(faults);
        let result = generation.par_next();
        let log: Vec<Ev> = maker.take_log();
        let stats = rayon::take_stats();
        let in_flight = maker.st.in_flight.load(shuttle::sync::atomic::Ordering::SeqCst);
        let facts = StepFacts {
            which: "par_next",
            step,
            pre: &pre,
            pre_addr,
            post: generation.population(),
            result: &result,
            log: &log,
            injected: faults,
            in_flight_after: in_flight,
            previous_words: &previous_words,
        };
        let (findings, words) = check_step(&facts);
        out.findings.extend(findings);
        // I6 (liveness/recovery) is the next, fault-free step of the scenario:
        // it is checked by the same invariants on the untouched population
        previous_words = words;
        digest = mix(digest, interleaving_digest(&log));
        out.max_in_flight = out.max_in_flight.max(maker.st.max_in_flight.load(shuttle::sync::atomic::Ordering::SeqCst));
        let entered = log.iter().filter(|e| matches!(e, Ev::Enter { .. })).count();
        let failed = log.iter().filter(|e| matches!(e, Ev::Exit { ok: false, .. })).count();
        out.calls += entered;
        out.faults_fired += failed;
        out.two_failed_in_one_step |= failed >= 2;
        if result.is_err() {
            out.steps_failed += 1;
            out.never_attempted += sc.n - entered.min(sc.n);
        }
        out.jobs += stats.jobs;
        out.inits += stats.inits;
        // rayon's map_init contract, as modelled: one init per job that ran
        if stats.inits > stats.jobs {
            out.findings.push(Finding {
                clause: "harness-self-check",
                key: "shim:init-count".into(),
                message: format!("shim ran {} inits for {} jobs", stats.inits, stats.jobs),
            });
        }
    }
    out.digest = digest;
    out
}

struct C09Shuttle;

fn run_under_shuttle(sc: &Sc) -> Result<RunOut, String> {
    let slot: Arc<StdMutex<Option<RunOut>>> = Arc::new(StdMutex::new(None));
    let slot2 = slot.clone();
    let sc2 = sc.clone();
    let mut config = shuttle::Config::new();
    config.failure_persistence = shuttle::FailurePersistence::None;
    config.silence_warnings = true;
    let f = move || {
        let out = body(&sc2);
        *slot2.lock().unwrap() = Some(out);
    };
    let r = simcore::catch(|| match sc.sched {
        Sched::Random => {
            shuttle::Runner::new(RandomScheduler::new_from_seed(sc.sched_seed, 1), config).run(f);
        }
        Sched::Pct(d) => {
            shuttle::Runner::new(PctScheduler::new_from_seed(sc.sched_seed, d.max(1), 1), config).run(f);
        }
    });
    match r {
        Err(p) => Err(p.message),
        Ok(()) => slot.lock().unwrap().take().ok_or_else(|| "the execution produced no result".to_string()),
    }
}

impl Check for C09Shuttle {
    type Scenario = Sc;

    fn id(&self) -> &'static str {
        "C09"
    }

    fn leg(&self) -> &'static str {
        "shuttle"
    }

    /// `rand::rng()` is deliberately not replaced (live randomness is what the property is
    /// about), so messages that quote the words drawn differ between processes: a replay
    /// reproduces when the same finding recurs, not when the message is byte-identical.
    fn nondeterminism_is_finding(&self) -> bool {
        true
    }

    fn declared_probes(&self) -> Vec<&'static str> {
        vec![
            "fault.child-fail",
            "fault.schedule",
            "probe.children-never-attempted-after-an-error",
            "probe.empty-population",
            "probe.jobs",
            "probe.map_init-calls",
            "probe.steps-that-returned-an-error",
            "probe.two-children-failed-in-one-generation",
            "probe.two-or-more-makers-overlapped-in-time",
        ]
    }

    fn rule(&self) -> String {
        "shuttle leg: Generation<Vec<Ind>, Maker>::par_next (unchanged generation.rs compiled against the rayon stand-in) for populations \
         0..=8, 1-3 steps, child-maker failures at enumerated arrival positions (none / one at each position / two / all) followed by a \
         fault-free recovery step, W = 1..=4 workers, 1..=n jobs with seeded split points, 1-3 draws per child; one seeded shuttle \
         schedule (random or PCT depth 1-3) per scenario; invariants I1-I6. Non-trivial iff >= 2 workers overlapped in time (max \
         in-flight child-maker calls >= 2) or a fault fired; distinct = distinct interleaving digests (worker, call, event sequence)"
            .into()
    }

    fn runs(&self, tier: Tier) -> u64 {
        match tier {
            Tier::Quick => 30_000,
            Tier::Thorough => 3_000_000,
        }
    }

    fn chunk(&self) -> u64 {
        16
    }

    fn generate(&self, g: &mut Xo, _tier: Tier, run: u64) -> Sc {
        let n = match g.below(60) {
            0..=6 => 0,
            7..=13 => 1,
            14 => *g.pick(&[33usize, 65, 70]),
            15 if g.chance(1, 3) => g.log_uniform(9, 300),
            _ => g.urange(0, 8),
        };
        // fault plans: enumerated by run index so that every position occurs
        let plan = |g: &mut Xo, k: u64| -> Vec<usize> {
            if n == 0 {
                return Vec::new();
            }
            match k % 6 {
                0 | 1 => Vec::new(),
                2 => vec![(k / 6) as usize % n],
                3 => {
                    let a = g.usize_below(n);
                    let b = g.usize_below(n);
                    if a == b { vec![a] } else { vec![a, b] }
                }
                4 => (0..n).collect(),
                _ => (0..n).filter(|_| g.chance(1, 3)).collect(),
            }
        };
        let mut steps = Vec::new();
        let first = plan(g, run);
        let failed_first = !first.is_empty();
        steps.push(first);
        if failed_first || g.coin() {
            steps.push(Vec::new()); // recovery / second generation
        }
        if g.chance(1, 4) {
            let p = plan(g, run / 7);
            let f = !p.is_empty();
            steps.push(p);
            if f {
                steps.push(Vec::new());
            }
        }
        let jobs = g.urange(1, n.clamp(1, 12));
        let mut splits: Vec<u16> = (1..jobs).map(|_| g.range(1, 1023) as u16).collect();
        splits.sort_unstable();
        Sc {
            n,
            steps,
            workers: g.urange(1, 4),
            splits,
            draws: g.urange(1, 3),
            sched: if g.chance(2, 3) { Sched::Random } else { Sched::Pct(g.urange(1, 3)) },
            sched_seed: g.next_u64(),
        }
    }

    fn execute(&self, sc: &Sc, obs: &mut Obs) -> Vec<Violation> {
        let mut v = Vec::new();
        match run_under_shuttle(sc) {
            Err(msg) => v.push(Violation::new(
                "never-panics-or-deadlocks",
                "par_next:panic-or-deadlock".to_string(),
                format!("the execution under the shuttle scheduler panicked / deadlocked: {msg}"),
            )),
            Ok(out) => {
                obs.count("steps", out.calls as u64);
                obs.count("fault.child-fail", out.faults_fired as u64);
                obs.count("fault.schedule", 1);
                obs.count("probe.steps-that-returned-an-error", out.steps_failed as u64);
                obs.count("probe.children-never-attempted-after-an-error", out.never_attempted as u64);
                obs.count("probe.jobs", out.jobs as u64);
                obs.count("probe.map_init-calls", out.inits as u64);
                if out.two_failed_in_one_step {
                    obs.hit("probe.two-children-failed-in-one-generation");
                }
                if out.max_in_flight >= 2 {
                    obs.hit("probe.two-or-more-makers-overlapped-in-time");
                }
                if sc.n == 0 {
                    obs.hit("probe.empty-population");
                }
                if out.max_in_flight >= 2 || out.faults_fired > 0 {
                    obs.nontrivial(out.digest);
                }
                obs.event(out.digest);
                for f in out.findings {
                    v.push(Violation::new(f.clause, f.key, f.message));
                }
            }
        }
        v
    }

    fn shrink(&self, sc: &Sc) -> Vec<Sc> {
        let mut out = Vec::new();
        // fewer children, fewer steps, fewer faults, fewer workers/jobs; the
        // schedule is re-searched with a few seeds for each smaller configuration
        let seeds = |s: &Sc| -> Vec<Sc> {
            (0..6u64).map(|k| Sc { sched_seed: if k == 0 { s.sched_seed } else { k }, ..s.clone() }).collect()
        };
        if sc.n > 0 {
            let n = sc.n - 1;
            let steps = sc.steps.iter().map(|f| f.iter().copied().filter(|k| *k < n).collect()).collect();
            out.extend(seeds(&Sc { n, steps, ..sc.clone() }));
        }
        if sc.steps.len() > 1 {
            for i in 0..sc.steps.len() {
                let mut s = sc.steps.clone();
                s.remove(i);
                out.extend(seeds(&Sc { steps: s, ..sc.clone() }));
            }
        }
        for (i, f) in sc.steps.iter().enumerate() {
            for j in 0..f.len() {
                let mut s = sc.steps.clone();
                s[i].remove(j);
                out.extend(seeds(&Sc { steps: s, ..sc.clone() }));
            }
        }
        if sc.workers > 1 {
            out.extend(seeds(&Sc { workers: sc.workers - 1, ..sc.clone() }));
        }
        if !sc.splits.is_empty() {
            let mut s = sc.splits.clone();
            s.pop();
            out.extend(seeds(&Sc { splits: s, ..sc.clone() }));
        }
        if sc.draws > 1 {
            out.extend(seeds(&Sc { draws: 1, ..sc.clone() }));
        }
        if sc.sched != Sched::Random {
            out.extend(seeds(&Sc { sched: Sched::Random, ..sc.clone() }));
        }
        out
    }

    fn assumptions(&self) -> Vec<String> {
        vec![
            "the rayon stand-in models rayon's documented behaviour (map_init: one init per split; Result collection: first stored error wins, others stop early); the Miri leg runs the real rayon".into(),
            "shuttle is sequentially consistent; weak-memory behaviour inside rayon is not explored (generation.rs shares nothing mutable between workers)".into(),
            "rand::rng() is not replaced: only the equality pattern of the words it produces is observed".into(),
        ]
    }

    fn real_components(&self) -> Vec<&'static str> {
        vec!["ec-core generation.rs (unchanged source, shadow manifest)", "ec-core operator traits", "rand::rng() / ThreadRng"]
    }

    fn stub_components(&self) -> Vec<&'static str> {
        vec!["rayon (stand-in on shuttle threads, sim/rayon-shim)", "instrumented child maker", "shuttle scheduler instead of OS threads"]
    }
}

fn main() {
    main_for(C09Shuttle);
}
