//! Shared between the three legs of C09 (serial/real-rayon, shuttle, Miri):
//! the instrumented child maker, the event log and the invariants I1–I6
//! (DESIGN §5 C09). Included with `#[path]`; the including crate selects the
//! synchronisation primitives with the `shuttle` cfg feature.

#[cfg(feature = "shuttle")]
use shuttle::sync::{
    atomic::{AtomicU64, AtomicUsize, Ordering},
    Arc, Mutex,
};
#[cfg(not(feature = "shuttle"))]
use std::sync::{
    atomic::{AtomicU64, AtomicUsize, Ordering},
    Arc, Mutex,
};

use ec_core::operator::{composable::Composable, Operator};
use rand::Rng;

#[derive(Clone, Debug, PartialEq, Eq)]
pub struct Ind {
    pub serial: u64,
    /// fingerprint of the population the maker was shown when it made this child
    pub made_from: u64,
}

pub type Pop = Vec<Ind>;

/// Fingerprint of a population: every member for populations of up to 4096, beyond that the length, the first
/// and last 64 members and every (len / 1024)-th member (the maker computes it twice per call, so a complete
/// pass would be quadratic in the population size).
pub fn fingerprint(pop: &Pop) -> u64 {
    let mut h: u64 = 0x9E37_79B9_7F4A_7C15 ^ pop.len() as u64;
    let mut eat = |i: &Ind| h = (h ^ i.serial).wrapping_mul(0x0000_0100_0000_01B3).rotate_left(13) ^ i.made_from;
    if pop.len() <= 4096 {
        pop.iter().for_each(&mut eat);
    } else {
        pop[..64].iter().for_each(&mut eat);
        pop.iter().step_by(pop.len() / 1024).for_each(&mut eat);
        pop[pop.len() - 64..].iter().for_each(&mut eat);
    }
    h
}

#[derive(Clone, Debug, PartialEq, Eq)]
pub enum Ev {
    Enter { call: usize, worker: u64, addr: usize, len: usize, fp: u64 },
    Draw { call: usize, word: u64 },
    Exit { call: usize, addr: usize, fp: u64, ok: bool, serial: u64 },
}

/// A fault-plan entry `PANIC_BASE + k` makes the k-th call of the step panic (user code that unwinds through the
/// generation step) instead of returning an error.
pub const PANIC_BASE: usize = 1 << 40;

#[derive(Debug, Clone, PartialEq, Eq)]
pub struct Injected {
    pub call: usize,
}

impl std::fmt::Display for Injected {
    fn fmt(&self, f: &mut std::fmt::Formatter<'_>) -> std::fmt::Result {
        write!(f, "injected child-maker failure at call {}", self.call)
    }
}

impl std::error::Error for Injected {}

pub struct MakerState {
    pub log: Mutex<Vec<Ev>>,
    pub next_serial: AtomicU64,
    pub calls: AtomicUsize,
    pub in_flight: AtomicUsize,
    pub max_in_flight: AtomicUsize,
    /// arrival indices (within the current step) at which the maker fails
    pub fail_at: Mutex<Vec<usize>>,
    pub draws_per_call: usize,
    pub yield_hook: fn(),
    pub worker_id: fn() -> u64,
}

#[derive(Clone)]
pub struct Maker {
    pub st: Arc<MakerState>,
}

impl Maker {
    pub fn new(draws_per_call: usize, first_serial: u64, yield_hook: fn(), worker_id: fn() -> u64) -> Self {
        Self {
            st: Arc::new(MakerState {
                log: Mutex::new(Vec::new()),
                next_serial: AtomicU64::new(first_serial),
                calls: AtomicUsize::new(0),
                in_flight: AtomicUsize::new(0),
                max_in_flight: AtomicUsize::new(0),
                fail_at: Mutex::new(Vec::new()),
                draws_per_call,
                yield_hook,
                worker_id,
            }),
        }
    }

    /// Arm the fault plan for the next step and clear the per-step state.
    pub fn begin_step(&self, fail_at: &[usize]) {
        *self.st.fail_at.lock().unwrap() = fail_at.to_vec();
        self.st.calls.store(0, Ordering::SeqCst);
        self.st.log.lock().unwrap().clear();
        self.st.max_in_flight.store(0, Ordering::SeqCst);
    }

    pub fn take_log(&self) -> Vec<Ev> {
        self.st.log.lock().unwrap().clone()
    }
}

impl Composable for Maker {}

impl<'a> Operator<&'a Pop> for Maker {
    type Output = Ind;
    type Error = Injected;

    fn apply<R: Rng + ?Sized>(&self, pop: &'a Pop, rng: &mut R) -> Result<Ind, Injected> {
        let st = &*self.st;
        let call = st.calls.fetch_add(1, Ordering::SeqCst);
        let now = st.in_flight.fetch_add(1, Ordering::SeqCst) + 1;
        st.max_in_flight.fetch_max(now, Ordering::SeqCst);
        let addr = std::ptr::from_ref(pop) as usize;
        let fp = fingerprint(pop);
        st.log.lock().unwrap().push(Ev::Enter { call, worker: (st.worker_id)(), addr, len: pop.len(), fp });
        (st.yield_hook)();
        for _ in 0..st.draws_per_call {
            let word = rng.next_u64();
            st.log.lock().unwrap().push(Ev::Draw { call, word });
            (st.yield_hook)();
        }
        let boom = st.fail_at.lock().unwrap().contains(&(call + PANIC_BASE));
        let fail = boom || st.fail_at.lock().unwrap().contains(&call);
        let serial = if fail { 0 } else { st.next_serial.fetch_add(1, Ordering::SeqCst) };
        let fp2 = fingerprint(pop);
        st.log.lock().unwrap().push(Ev::Exit { call, addr, fp: fp2, ok: !fail, serial });
        st.in_flight.fetch_sub(1, Ordering::SeqCst);
        if boom {
            panic!("injected child-maker panic at call {call}");
        }
        if fail {
            Err(Injected { call })
        } else {
            Ok(Ind { serial, made_from: fp })
        }
    }
}

#[derive(Debug, Clone)]
pub struct Finding {
    pub clause: &'static str,
    pub key: String,
    pub message: String,
}

pub struct StepFacts<'a> {
    pub which: &'a str,
    pub step: usize,
    pub pre: &'a Pop,
    pub pre_addr: usize,
    pub post: &'a Pop,
    pub result: &'a Result<(), Injected>,
    pub log: &'a [Ev],
    pub injected: &'a [usize],
    pub in_flight_after: usize,
    pub previous_words: &'a [u64],
}

/// I1–I5 for one step. Returns the words drawn in this step as well.
pub fn check_step(f: &StepFacts<'_>) -> (Vec<Finding>, Vec<u64>) {
    let mut out = Vec::new();
    let which = f.which;
    let n = f.pre.len();
    let pre_fp = fingerprint(f.pre);
    let mut words = Vec::new();
    let mut ok_serials: Vec<u64> = Vec::new();
    let mut failed_calls: Vec<usize> = Vec::new();
    let mut entered = 0usize;
    for e in f.log {
        match e {
            Ev::Enter { call, addr, len, fp, .. } => {
                entered += 1;
                // (the address is recorded but not demanded: showing the maker an equal copy of
                // the previous population would satisfy the statement just as well)
                let _ = addr;
                if *fp != pre_fp || *len != n {
                    out.push(Finding {
                        clause: "children-made-from-the-previous-unmodified-population",
                        key: format!("{which}:maker-saw-different-population"),
                        message: format!(
                            "step {}: child-maker call {call} was shown a population of {len} with fingerprint {fp:#x}; the previous population has {n} members and fingerprint {pre_fp:#x}",
                            f.step
                        ),
                    });
                }
            }
            Ev::Exit { call, addr, fp, ok, serial } => {
                let _ = addr;
                if *fp != pre_fp {
                    out.push(Finding {
                        clause: "children-made-from-the-previous-unmodified-population",
                        key: format!("{which}:population-changed-while-making-children"),
                        message: format!("step {}: while child-maker call {call} ran, the population it was shown changed", f.step),
                    });
                }
                if *ok {
                    ok_serials.push(*serial);
                } else {
                    failed_calls.push(*call);
                }
            }
            Ev::Draw { word, .. } => words.push(*word),
        }
    }
    // I5: at most n calls, nothing still running
    if entered > n {
        out.push(Finding {
            clause: "as-many-children-as-individuals",
            key: format!("{which}:too-many-maker-calls"),
            message: format!("step {}: the child maker was called {entered} times for a population of {n}", f.step),
        });
    }
    if f.in_flight_after != 0 {
        out.push(Finding {
            clause: "step-is-complete-when-it-returns",
            key: format!("{which}:maker-still-running-after-return"),
            message: format!("step {}: {} child-maker call(s) were still running when the step returned", f.step, f.in_flight_after),
        });
    }
    // I3: live randomness
    {
        let mut sorted = words.clone();
        sorted.sort_unstable();
        let dup_within = sorted.windows(2).any(|w| w[0] == w[1]);
        let dup_prev = {
            let mut prev = f.previous_words.to_vec();
            prev.sort_unstable();
            sorted.iter().any(|w| prev.binary_search(w).is_ok())
        };
        if dup_within || dup_prev {
            out.push(Finding {
                clause: "each-child-made-with-its-own-live-randomness",
                key: format!("{which}:correlated-randomness"),
                message: format!(
                    "step {}: random words handed to the child maker repeat ({}): {:x?}",
                    f.step,
                    if dup_within { "within the step" } else { "from the previous step" },
                    &words[..words.len().min(12)]
                ),
            });
        }
    }
    let mut pre_serials: Vec<u64> = f.pre.iter().map(|i| i.serial).collect();
    let mut post_serials: Vec<u64> = f.post.iter().map(|i| i.serial).collect();
    match f.result {
        Ok(()) => {
            // I4: a failed call must fail the step
            if !failed_calls.is_empty() {
                out.push(Finding {
                    clause: "child-failure-is-returned",
                    key: format!("{which}:failure-swallowed"),
                    message: format!("step {}: child-maker call(s) {failed_calls:?} failed but the step returned Ok", f.step),
                });
            }
            // I1: exactly the children made in this step
            if f.post.len() != n {
                out.push(Finding {
                    clause: "as-many-children-as-individuals",
                    key: format!("{which}:population-size-changed"),
                    message: format!("step {}: population of {n} was replaced by {} individuals", f.step, f.post.len()),
                });
            }
            ok_serials.sort_unstable();
            post_serials.sort_unstable();
            if ok_serials != post_serials && failed_calls.is_empty() {
                let carried: Vec<u64> = post_serials.iter().copied().filter(|s| pre_serials.contains(s)).collect();
                out.push(Finding {
                    clause: "population-replaced-by-the-new-children",
                    key: format!("{which}:new-population-is-not-the-children"),
                    message: format!(
                        "step {}: new population serials {post_serials:?} != serials of the children made in this step {ok_serials:?} (carried over from the old population: {carried:?})",
                        f.step
                    ),
                });
            }
            if let Some(bad) = f.post.iter().find(|i| i.made_from != pre_fp) {
                out.push(Finding {
                    clause: "children-made-from-the-previous-unmodified-population",
                    key: format!("{which}:child-made-from-other-population"),
                    message: format!("step {}: child {} was made from a population with fingerprint {:#x}, not the previous one", f.step, bad.serial, bad.made_from),
                });
            }
        }
        Err(e) => {
            if !f.injected.contains(&e.call) || !failed_calls.contains(&e.call) {
                out.push(Finding {
                    clause: "child-failure-is-returned",
                    key: format!("{which}:wrong-error"),
                    message: format!("step {}: returned {e:?}, injected failures {:?}, calls that actually failed {failed_calls:?}", f.step, f.injected),
                });
            }
            // I4: the population is left exactly as it was (same serials, same order)
            pre_serials = f.pre.iter().map(|i| i.serial).collect();
            let post_in_order: Vec<u64> = f.post.iter().map(|i| i.serial).collect();
            if post_in_order != pre_serials || f.post != f.pre {
                out.push(Finding {
                    clause: "failed-step-leaves-population-untouched",
                    key: format!("{which}:population-changed-by-failed-step"),
                    message: format!("step {}: the step failed with {e:?} but the population changed from serials {pre_serials:?} to {post_in_order:?}", f.step),
                });
            }
        }
    }
    (out, words)
}

/// Order-sensitive digest of a step's event sequence (worker, call, kind):
/// two runs with the same digest took the same interleaving.
pub fn interleaving_digest(log: &[Ev]) -> u64 {
    let mut h = 0xcbf2_9ce4_8422_2325u64;
    let mut workers: Vec<u64> = Vec::new();
    for e in log {
        let (a, b, c) = match e {
            Ev::Enter { call, worker, .. } => {
                let w = workers.iter().position(|x| x == worker).unwrap_or_else(|| {
                    workers.push(*worker);
                    workers.len() - 1
                });
                (1u64, *call as u64, w as u64)
            }
            Ev::Draw { call, .. } => (2, *call as u64, 0),
            Ev::Exit { call, ok, .. } => (3, *call as u64, u64::from(*ok)),
        };
        for x in [a, b, c] {
            h = (h ^ x).wrapping_mul(0x0000_0100_0000_01B3);
        }
    }
    h
}
