//! Generic driver: seeded parallel runs, merge by index, minimise, replay,
//! known findings, evidence. One binary per property calls `main_for`.

use std::{
    cell::RefCell,
    collections::{BTreeMap, BTreeSet},
    fmt::Debug,
    io::Write as _,
    panic::{catch_unwind, AssertUnwindSafe},
    path::{Path, PathBuf},
    sync::{
        atomic::{AtomicBool, AtomicU64, Ordering},
        Mutex,
    },
    time::Instant,
};

use serde::{de::DeserializeOwned, Deserialize, Serialize};
use serde_json::{json, Value};

use crate::{
    rng::{fnv1a, mix, Xo},
    simrng::Starvation,
};

pub const DEFAULT_SEED: u64 = 20_260_927;

#[derive(Clone, Copy, Debug, PartialEq, Eq)]
pub enum Tier {
    Quick,
    Thorough,
}

impl Tier {
    pub fn name(self) -> &'static str {
        match self {
            Tier::Quick => "quick",
            Tier::Thorough => "thorough",
        }
    }
}

#[derive(Clone, Debug, Serialize, Deserialize, PartialEq, Eq)]
pub struct Violation {
    /// which clause of the property statement failed
    pub clause: String,
    /// stable identity of the finding (clause + call site / instruction /
    /// input class); used for minimisation and known-findings matching
    pub key: String,
    pub message: String,
}

impl Violation {
    pub fn new(clause: &str, key: impl Into<String>, message: impl Into<String>) -> Self {
        Self { clause: clause.to_string(), key: key.into(), message: message.into() }
    }
}

/// Per-worker observation accumulator.
#[derive(Default, Debug)]
pub struct Obs {
    pub counters: BTreeMap<&'static str, u64>,
    pub dyn_counters: BTreeMap<String, u64>,
    /// Set by `execute` when the run is non-trivial by the check's rule.
    pub fingerprint: Option<u64>,
    /// rolling digest of events (determinism audit)
    pub digest: u64,
    /// true while `--audit` runs: parts of a check that observe real OS
    /// threads (whose interleaving the harness does not decide) contribute
    /// only their verdicts, not their schedule-dependent counters
    pub audit: bool,
}

impl Obs {
    #[inline]
    pub fn count(&mut self, key: &'static str, n: u64) {
        *self.counters.entry(key).or_insert(0) += n;
    }

    #[inline]
    pub fn hit(&mut self, key: &'static str) {
        self.count(key, 1);
    }

    pub fn count_dyn(&mut self, key: &str, n: u64) {
        if let Some(v) = self.dyn_counters.get_mut(key) {
            *v += n;
        } else {
            self.dyn_counters.insert(key.to_string(), n);
        }
    }

    #[inline]
    pub fn nontrivial(&mut self, fp: u64) {
        self.fingerprint = Some(fp);
    }

    #[inline]
    pub fn event(&mut self, x: u64) {
        self.digest = mix(self.digest, x);
    }
}

pub trait Check: Sync + Send {
    type Scenario: Serialize + DeserializeOwned + Clone + Send + Sync + Debug;

    fn id(&self) -> &'static str;
    /// "exploration" or "fault_enumeration"
    fn level(&self) -> &'static str {
        "exploration"
    }
    fn rule(&self) -> String;
    fn runs(&self, tier: Tier) -> u64;
    /// A scenario is a pure function of (generator, tier, run index).
    fn generate(&self, g: &mut Xo, tier: Tier, run: u64) -> Self::Scenario;
    /// Executing a scenario is a pure function of the scenario and the code.
    fn execute(&self, sc: &Self::Scenario, obs: &mut Obs) -> Vec<Violation>;
    fn shrink(&self, _sc: &Self::Scenario) -> Vec<Self::Scenario> {
        Vec::new()
    }
    fn assumptions(&self) -> Vec<String> {
        Vec::new()
    }
    fn real_components(&self) -> Vec<&'static str> {
        Vec::new()
    }
    fn stub_components(&self) -> Vec<&'static str> {
        Vec::new()
    }
    /// A property decided by several binaries ("legs"): tag in replay file
    /// names and in the evidence file name (`<id>.<tag>.json`, merged later).
    fn leg(&self) -> &'static str {
        ""
    }
    /// For properties whose violation *is* nondeterminism (C16, C09 live
    /// randomness): a finding whose replay does not reproduce byte-identically
    /// is still reported as a violation (with a note) instead of a harness error.
    fn nondeterminism_is_finding(&self) -> bool {
        false
    }
    /// Extra command-line modes of a check binary (e.g. the child side of a
    /// fresh-process comparison). Return Some(exit code) if handled.
    fn custom_command(&self, _args: &[String]) -> Option<i32> {
        None
    }
    /// How many consecutive run indices a worker takes at once. Checks whose
    /// runs are heavy (statistical experiments) use 1.
    fn chunk(&self) -> u64 {
        32
    }
    /// Real-time watchdog per run (seconds). It only exists to turn a genuine
    /// hang into a report: the bounded work of a run is far below it.
    fn watchdog_secs(&self) -> u64 {
        150
    }
    /// Is "a run did not return" a violation of this property? Every claimed property says that the
    /// operation under test RETURNS something (a state, a member, a genome, a collection, an error), and the
    /// harness' own loops are bounded (draw cap on the owned stream, step caps), so the default is yes.
    fn hang_is_violation(&self) -> bool {
        true
    }
    /// Reach probes this check is expected to hit (names without the `probe.` / `fault.` prefix as they appear in
    /// the counters, i.e. WITH the prefix): any that stays at zero is listed under `probes_at_zero`.
    fn declared_probes(&self) -> Vec<&'static str> {
        Vec::new()
    }
    /// additional coverage keys (e.g. `exhaustive`, stat budget)
    fn extra_coverage(&self, _tier: Tier, _counters: &BTreeMap<String, u64>) -> serde_json::Map<String, Value> {
        serde_json::Map::new()
    }
}

// ---------------------------------------------------------------------------
// panic capture

thread_local! {
    static LAST_PANIC: RefCell<String> = const { RefCell::new(String::new()) };
}

pub fn install_quiet_panic_hook() {
    std::panic::set_hook(Box::new(|info| {
        let loc = info
            .location()
            .map(|l| format!("{}:{}", l.file(), l.line()))
            .unwrap_or_default();
        let msg = if let Some(s) = info.payload().downcast_ref::<&str>() {
            (*s).to_string()
        } else if let Some(s) = info.payload().downcast_ref::<String>() {
            s.clone()
        } else if info.payload().downcast_ref::<Starvation>().is_some() {
            "rng starvation".to_string()
        } else {
            "<non-string panic payload>".to_string()
        };
        LAST_PANIC.with(|p| *p.borrow_mut() = format!("{msg} @ {loc}"));
    }));
}

#[derive(Debug, Clone)]
pub struct Panicked {
    pub message: String,
    /// source location with the line number stripped (stable across edits)
    pub site: String,
}

/// Run code under test; a panic becomes `Err(Panicked)`. A `Starvation`
/// payload is re-raised: it is a harness condition, not a finding.
pub fn catch<T>(f: impl FnOnce() -> T) -> Result<T, Panicked> {
    LAST_PANIC.with(|p| p.borrow_mut().clear());
    match catch_unwind(AssertUnwindSafe(f)) {
        Ok(v) => Ok(v),
        Err(payload) => {
            if payload.downcast_ref::<Starvation>().is_some() {
                std::panic::resume_unwind(payload);
            }
            let mut message = LAST_PANIC.with(|p| p.borrow().clone());
            if message.is_empty() {
                // the panic started on another thread (a pool worker) and was carried over: the hook's note is there,
                // the payload is here
                message = payload
                    .downcast_ref::<String>()
                    .cloned()
                    .or_else(|| payload.downcast_ref::<&str>().map(|s| (*s).to_string()))
                    .unwrap_or_default();
            }
            let site = message
                .rsplit_once(" @ ")
                .map(|(_, l)| l.rsplit_once(':').map_or(l, |(f, _)| f).to_string())
                .unwrap_or_default();
            let site = site
                .rsplit_once("packages/")
                .map_or(site.clone(), |(_, s)| s.to_string());
            Err(Panicked { message, site })
        }
    }
}

// ---------------------------------------------------------------------------

fn verif_root() -> PathBuf {
    PathBuf::from(std::env::var("VERIF_ROOT").unwrap_or_else(|_| "/verif".to_string()))
}

fn env_u64(name: &str) -> Option<u64> {
    std::env::var(name).ok().and_then(|s| s.trim().parse().ok())
}

#[derive(Serialize, Deserialize, Debug, Clone)]
struct KnownFinding {
    property: String,
    key: String,
    /// "known" (suppresses to KNOWN-FINDING) or "fixed" (suppresses nothing)
    status: String,
    what: String,
    #[serde(default)]
    commit: Option<String>,
}

#[derive(Serialize, Deserialize, Debug, Clone, Default)]
struct KnownFindings {
    #[serde(default)]
    findings: Vec<KnownFinding>,
}

fn load_known(root: &Path) -> KnownFindings {
    let p = root.join("known_findings.json");
    match std::fs::read_to_string(&p) {
        Ok(s) => serde_json::from_str(&s).unwrap_or_else(|e| {
            eprintln!("HARNESS-ERROR: cannot parse {}: {e}", p.display());
            std::process::exit(2);
        }),
        Err(_) => KnownFindings::default(),
    }
}

fn key_matches(pattern: &str, key: &str) -> bool {
    if let Some(prefix) = pattern.strip_suffix('*') {
        key.starts_with(prefix)
    } else {
        pattern == key
    }
}

#[derive(Serialize, Deserialize, Debug, Clone)]
pub struct ReplayFile {
    pub property: String,
    pub clause: String,
    pub key: String,
    pub message: String,
    pub verif_seed: u64,
    pub run: u64,
    pub tier: String,
    pub shrink_steps: u64,
    pub scenario: Value,
    /// Non-empty only for findings that depend on hidden state carried across calls (a cache, a
    /// thread-local, a static): the run indices to execute IN ORDER IN ONE FRESH THREAD; the last one is
    /// the run whose violation is reported. Scenarios are regenerated from (verif_seed, tier, run index).
    #[serde(default)]
    pub history: Vec<u64>,
    /// Some((hits, tries)): the code under test behaves NONDETERMINISTICALLY for this fixed scenario and
    /// stream — the violation was observed in the run and in `hits` of `tries` fresh-process replays.
    /// `--replay` then repeats the scenario (fresh threads) until it shows or 200 attempts are used up.
    #[serde(default)]
    pub intermittent: Option<(u32, u32)>,
}

fn msg_digest(v: &Violation) -> u64 {
    fnv1a(format!("{}|{}|{}", v.clause, v.key, v.message).as_bytes())
}

struct Found<S> {
    run: u64,
    scenario: S,
    violation: Violation,
    /// chunk starts the finding worker had processed so far (its call history), newest last
    chunks: Vec<u64>,
}

struct WorkerOut<S> {
    obs: Obs,
    fps: Vec<u64>,
    nontrivial: u64,
    samples: Vec<(u64, Value)>,
    found: BTreeMap<String, Found<S>>,
    violations_total: u64,
}

/// Fingerprints are kept for at most this many runs (memory bound); the rule
/// text in the evidence says so when the bound is hit.
const FP_RUN_CAP: u64 = 1 << 23;

pub fn main_for<C: Check>(check: C) -> ! {
    install_quiet_panic_hook();
    let args: Vec<String> = std::env::args().skip(1).collect();
    if let Some(code) = check.custom_command(&args) {
        std::process::exit(code);
    }
    let code = match args.first().map(String::as_str) {
        Some("--replay") => {
            let path = args.get(1).unwrap_or_else(|| {
                eprintln!("usage: --replay <path>");
                std::process::exit(2);
            });
            replay(&check, Path::new(path))
        }
        Some("--range") => {
            // child side of --locate-abort: run indices a..b sequentially
            let a: u64 = args.get(1).and_then(|s| s.parse().ok()).unwrap_or(0);
            let b: u64 = args.get(2).and_then(|s| s.parse().ok()).unwrap_or(0);
            let tier = tier_from_env(Tier::Quick);
            let seed = env_u64("VERIF_SEED").unwrap_or(DEFAULT_SEED);
            let mut obs = Obs::default();
            for i in a..b {
                let mut g = Xo::derive(seed, check.id(), 0, i);
                let sc = check.generate(&mut g, tier, i);
                let _ = catch_unwind(AssertUnwindSafe(|| check.execute(&sc, &mut obs)));
            }
            0
        }
        Some("--scenario") => {
            // child side of --locate-abort: print the scenario of one run index as JSON
            let i: u64 = args.get(1).and_then(|s| s.parse().ok()).unwrap_or(0);
            let tier = tier_from_env(Tier::Quick);
            let seed = env_u64("VERIF_SEED").unwrap_or(DEFAULT_SEED);
            let mut g = Xo::derive(seed, check.id(), 0, i);
            let sc = check.generate(&mut g, tier, i);
            println!("{}", serde_json::to_string(&sc).unwrap_or_default());
            0
        }
        Some("--locate-abort") => {
            let tier = match args.get(1).map(String::as_str) {
                Some("thorough") => Tier::Thorough,
                _ => Tier::Quick,
            };
            locate_abort(&check, tier)
        }
        Some("--audit") => {
            let n = args.get(1).and_then(|s| s.parse().ok()).unwrap_or(2000);
            audit(&check, n)
        }
        // an explicit argument wins; VERIF_TIER only decides when no tier is given
        Some("quick") => run_tier(&check, Tier::Quick),
        Some("thorough") => run_tier(&check, Tier::Thorough),
        None => run_tier(&check, tier_from_env(Tier::Quick)),
        Some(other) => {
            eprintln!("unknown argument {other}; expected quick|thorough|--replay <path>|--audit <n>");
            2
        }
    };
    std::process::exit(code);
}

fn tier_from_env(default: Tier) -> Tier {
    match std::env::var("VERIF_TIER").ok().as_deref() {
        Some("quick") => Tier::Quick,
        Some("thorough") => Tier::Thorough,
        _ => default,
    }
}

fn replay<C: Check>(check: &C, path: &Path) -> i32 {
    let text = match std::fs::read_to_string(path) {
        Ok(t) => t,
        Err(e) => {
            eprintln!("HARNESS-ERROR: cannot read {}: {e}", path.display());
            return 2;
        }
    };
    // (scenarios may be nested hundreds of levels deep — a left-nested chain of 500 weighted members, say —,
    // beyond serde_json's default recursion limit of 128)
    let parsed: Result<ReplayFile, serde_json::Error> = {
        let mut de = serde_json::Deserializer::from_str(&text);
        de.disable_recursion_limit();
        serde::Deserialize::deserialize(&mut de)
    };
    let rf: ReplayFile = match parsed {
        Ok(r) => r,
        Err(e) => {
            eprintln!("HARNESS-ERROR: cannot parse {}: {e}", path.display());
            return 2;
        }
    };
    if !rf.history.is_empty() {
        return replay_history(check, &rf, path);
    }
    let sc: C::Scenario = match serde_json::from_value(rf.scenario.clone()) {
        Ok(s) => s,
        Err(e) => {
            eprintln!("HARNESS-ERROR: scenario in {} does not deserialize: {e}", path.display());
            return 2;
        }
    };
    let mut obs = Obs::default();
    // (the replay of a recorded hang is watched the same way as a tier run: CPU time of the executing thread)
    let tid = AtomicU64::new(0);
    let tid = &tid;
    let watched = std::thread::scope(|s| {
        let t0 = Instant::now();
        let h = s.spawn(|| {
            tid.store(own_tid(), Ordering::Relaxed);
            execute_guarded(check, &sc, &mut obs)
        });
        let limit_ms = check.watchdog_secs().saturating_mul(1000);
        let mut base: Option<u64> = None;
        while !h.is_finished() {
            std::thread::sleep(std::time::Duration::from_millis(100));
            let cpu = thread_cpu_ms(tid.load(Ordering::Relaxed));
            if base.is_none() {
                base = cpu;
            }
            let wall = t0.elapsed().as_millis() as u64;
            let hang = match (base, cpu) {
                (Some(a), Some(b)) => b.saturating_sub(a) > limit_ms || wall > limit_ms.saturating_mul(WALL_FACTOR),
                _ => wall > limit_ms,
            };
            if hang {
                println!(
                    "REPLAY property={} clause=returns key=hang message=the recorded run did not return: more than {} s of CPU time, or blocked for more than {} s",
                    check.id(),
                    check.watchdog_secs(),
                    check.watchdog_secs().saturating_mul(WALL_FACTOR)
                );
                if check.hang_is_violation() {
                    println!("VIOLATION property={} replay={}", check.id(), path.display());
                    std::process::exit(1);
                }
                std::process::exit(2);
            }
        }
        h.join()
    });
    let mut vs = match watched {
        Ok(Guarded::Done(v)) => v,
        _ => {
            eprintln!("HARNESS-ERROR: replay panicked in the harness");
            return 2;
        }
    };
    if rf.intermittent.is_some() && !vs.iter().any(|v| v.key == rf.key) {
        // a recorded nondeterministic finding: repeat the same scenario in fresh threads
        for _ in 0..200 {
            let again = std::thread::scope(|s| {
                s.spawn(|| {
                    let mut obs = Obs::default();
                    catch_unwind(AssertUnwindSafe(|| check.execute(&sc, &mut obs))).unwrap_or_default()
                })
                .join()
                .unwrap_or_default()
            });
            if again.iter().any(|v| v.key == rf.key) {
                vs = again;
                break;
            }
        }
    }
    if vs.is_empty() {
        println!("REPLAY property={} result=holds file={}", check.id(), path.display());
        return 0;
    }
    for v in &vs {
        println!(
            "REPLAY property={} clause={} key={} digest={:016x} message={}",
            check.id(),
            v.clause,
            v.key,
            msg_digest(v),
            v.message
        );
    }
    let same = vs.iter().any(|v| v.key == rf.key);
    println!(
        "VIOLATION property={} replay={}{}",
        check.id(),
        path.display(),
        if same { "" } else { " (different key than recorded)" }
    );
    1
}

/// Execute the listed runs in order in ONE fresh thread (clean thread-local state; in a fresh process also
/// clean statics) and return the violations of the last one.
fn execute_history<C: Check>(check: &C, seed: u64, tier: Tier, runs: &[u64]) -> Option<Vec<Violation>> {
    std::thread::scope(|s| {
        s.spawn(|| {
            let mut last = Vec::new();
            for &i in runs {
                let mut obs = Obs::default();
                let r = catch_unwind(AssertUnwindSafe(|| {
                    let mut g = Xo::derive(seed, check.id(), 0, i);
                    check.generate(&mut g, tier, i)
                }));
                match r.map(|sc| execute_guarded(check, &sc, &mut obs)) {
                    Ok(Guarded::Done(vs)) => last = vs,
                    Ok(Guarded::StarvedAdversarial) => last = Vec::new(),
                    _ => return None,
                }
            }
            Some(last)
        })
        .join()
        .ok()
        .flatten()
    })
}

fn replay_history<C: Check>(check: &C, rf: &ReplayFile, path: &Path) -> i32 {
    let tier = if rf.tier == "thorough" { Tier::Thorough } else { Tier::Quick };
    let Some(vs) = execute_history(check, rf.verif_seed, tier, &rf.history) else {
        eprintln!("HARNESS-ERROR: history replay panicked in the harness");
        return 2;
    };
    let hits: Vec<&Violation> = vs.iter().filter(|v| v.key == rf.key).collect();
    if hits.is_empty() {
        println!(
            "REPLAY property={} result=holds file={} (history of {} runs)",
            check.id(),
            path.display(),
            rf.history.len()
        );
        return 0;
    }
    for v in &hits {
        println!(
            "REPLAY property={} clause={} key={} digest={:016x} history_runs={} message={}",
            check.id(),
            v.clause,
            v.key,
            msg_digest(v),
            rf.history.len(),
            v.message
        );
    }
    println!("VIOLATION property={} replay={}", check.id(), path.display());
    1
}

/// Does `runs` (executed in one fresh thread of a fresh process) end in a violation with this key?
fn history_reproduces(file: &Path, root: &Path, rf: &ReplayFile, runs: &[u64]) -> bool {
    let mut probe = rf.clone();
    probe.history = runs.to_vec();
    if std::fs::write(file, serde_json::to_string_pretty(&probe).unwrap_or_default()).is_err() {
        return false;
    }
    std::env::current_exe()
        .ok()
        .and_then(|exe| std::process::Command::new(exe).arg("--replay").arg(file).env("VERIF_ROOT", root).output().ok())
        .is_some_and(|o| String::from_utf8_lossy(&o.stdout).contains(&format!("key={} digest=", rf.key)))
}

/// A violation that does not reproduce from its scenario alone: look for the call history that produces it.
/// Candidates: the finding worker's own history (thread-local hidden state), then all runs up to the failing
/// one in index order (process-wide hidden state). The history is shortened (shortest reproducing suffix, then
/// dropping blocks) within a budget of child processes. Returns the minimised list of runs.
fn find_history(file: &Path, root: &Path, rf: &ReplayFile, chunks: &[u64], chunk: u64, total: u64) -> Option<Vec<u64>> {
    let run = rf.run;
    let mut own: Vec<u64> = chunks.iter().flat_map(|&c| c..(c + chunk).min(total)).collect();
    if let Some(pos) = own.iter().position(|&i| i == run) {
        own.truncate(pos + 1);
    } else {
        own.push(run);
    }
    let mut candidates: Vec<Vec<u64>> = vec![own];
    if run <= 400_000 {
        candidates.push((0..=run).collect());
    }
    for full in candidates {
        if full.len() > 2_000_000 || !history_reproduces(file, root, rf, &full) {
            continue;
        }
        // shortest reproducing suffix: doubling, then bisection
        let n = full.len();
        let mut hi = n; // known to reproduce with the last `hi` runs
        let mut k = 1usize;
        let mut lo = 0usize; // known not to reproduce with the last `lo` runs (0: untested convention)
        while k < n {
            if history_reproduces(file, root, rf, &full[n - k..]) {
                hi = k;
                break;
            }
            lo = k;
            k *= 2;
        }
        while hi - lo > 1 {
            let mid = lo + (hi - lo) / 2;
            if history_reproduces(file, root, rf, &full[n - mid..]) {
                hi = mid;
            } else {
                lo = mid;
            }
        }
        let mut cur: Vec<u64> = full[n - hi..].to_vec();
        // drop blocks of earlier runs while it still reproduces (the last run always stays)
        let mut budget = 60u32;
        let mut size = (cur.len() / 2).max(1);
        while size >= 1 && budget > 0 && cur.len() > 1 {
            let mut start = 0usize;
            let mut progressed = false;
            while start + 1 < cur.len() && budget > 0 {
                let end = (start + size).min(cur.len() - 1);
                let mut cand = cur[..start].to_vec();
                cand.extend_from_slice(&cur[end..]);
                budget -= 1;
                if cand.len() < cur.len() && history_reproduces(file, root, rf, &cand) {
                    cur = cand;
                    progressed = true;
                } else {
                    start += size;
                }
            }
            if size == 1 && !progressed {
                break;
            }
            size = (size / 2).max(1);
            if size == 1 && cur.len() > 400 {
                break;
            }
        }
        return Some(cur);
    }
    None
}

fn audit<C: Check>(check: &C, n: u64) -> i32 {
    let seed = env_u64("VERIF_SEED").unwrap_or(DEFAULT_SEED);
    let tier = tier_from_env(Tier::Quick);
    let threads = env_u64("VERIF_THREADS").unwrap_or(16).max(1) as usize;
    let total = n.min(check.runs(tier));
    // VERIF_AUDIT_EXTRA: further run indices (the rare, large scenarios that sit at particular indices of a tier)
    let extra: Vec<u64> = std::env::var("VERIF_AUDIT_EXTRA")
        .unwrap_or_default()
        .split(',')
        .filter_map(|t| t.trim().parse().ok())
        .filter(|i| *i >= total && *i < check.runs(tier))
        .collect();
    let work: Vec<u64> = (0..total).chain(extra).collect();
    let next = AtomicU64::new(0);
    let out: Mutex<Vec<(u64, u64)>> = Mutex::new(Vec::new());
    std::thread::scope(|s| {
        for _ in 0..threads {
            s.spawn(|| {
                let mut local = Vec::new();
                loop {
                    let k = next.fetch_add(1, Ordering::Relaxed);
                    let Some(&i) = work.get(k as usize) else { break };
                    let mut g = Xo::derive(seed, check.id(), 0, i);
                    let sc = check.generate(&mut g, tier, i);
                    let mut obs = Obs { audit: true, ..Obs::default() };
                    let vs = check.execute(&sc, &mut obs);
                    let mut d = fnv1a(serde_json::to_string(&sc).unwrap_or_default().as_bytes());
                    d = mix(d, obs.digest);
                    for (k, v) in &obs.counters {
                        d = mix(d, fnv1a(k.as_bytes()));
                        d = mix(d, *v);
                    }
                    for (k, v) in &obs.dyn_counters {
                        d = mix(d, fnv1a(k.as_bytes()));
                        d = mix(d, *v);
                    }
                    d = mix(d, obs.fingerprint.unwrap_or(1));
                    for v in &vs {
                        d = mix(d, msg_digest(v));
                    }
                    local.push((i, d));
                }
                out.lock().unwrap().extend(local);
            });
        }
    });
    let mut v = out.into_inner().unwrap();
    v.sort_unstable();
    let mut all = 0u64;
    let stdout = std::io::stdout();
    let mut w = std::io::BufWriter::new(stdout.lock());
    for (i, d) in &v {
        all = mix(all, *d);
        let _ = writeln!(w, "AUDIT run={i} digest={d:016x}");
    }
    let _ = writeln!(w, "AUDIT-TOTAL property={} seed={seed} runs={} digest={all:016x}", check.id(), v.len());
    0
}

fn run_tier<C: Check>(check: &C, tier: Tier) -> i32 {
    let root = verif_root();
    let seed = env_u64("VERIF_SEED").unwrap_or(DEFAULT_SEED);
    let threads = env_u64("VERIF_THREADS")
        .map(|t| t as usize)
        .unwrap_or_else(|| std::thread::available_parallelism().map_or(8, usize::from))
        .max(1);
    let total = env_u64("VERIF_RUNS").unwrap_or_else(|| check.runs(tier));
    let t0 = Instant::now();
    println!(
        "VERIF_SEED={seed} property={} tier={} runs={total} threads={threads}",
        check.id(),
        tier.name()
    );

    let next = AtomicU64::new(0);
    let harness_error: Mutex<Option<String>> = Mutex::new(None);
    let abort = AtomicBool::new(false);
    // once thousands of violation events were seen the verdict is settled: stop exploring (a failing tree can
    // make every run expensive, e.g. an operation that only stops at the draw cap)
    let viol_events = AtomicU64::new(0);
    let runs_done = AtomicU64::new(0);
    const STOP_AFTER_VIOLATION_EVENTS: u64 = 3000;
    let outs: Mutex<Vec<WorkerOut<C::Scenario>>> = Mutex::new(Vec::new());
    let chunk: u64 = check.chunk().max(1);
    // heartbeat per worker: (run index + 1, start in ms since t0, kernel thread id); 0 = idle
    let beats: Vec<(AtomicU64, AtomicU64, AtomicU64)> =
        (0..threads).map(|_| (AtomicU64::new(0), AtomicU64::new(0), AtomicU64::new(0))).collect();
    let done = AtomicBool::new(false);

    std::thread::scope(|s| {
        // watchdog
        // The limit is on the CPU time the worker thread spent in the run (a run that does not terminate keeps
        // consuming it; a run that is merely starved on an overloaded machine does not), with a much longer
        // wall-clock limit for runs that block without consuming CPU time. Where the kernel does not report
        // per-thread CPU time the wall clock decides alone.
        s.spawn(|| {
            let limit_ms = check.watchdog_secs().saturating_mul(1000);
            // per worker: (run index + 1 last seen, CPU ms of the worker thread when it was first seen)
            let mut seen: Vec<(u64, Option<u64>)> = vec![(0, None); beats.len()];
            while !done.load(Ordering::Relaxed) {
                std::thread::sleep(std::time::Duration::from_millis(200));
                let now = t0.elapsed().as_millis() as u64;
                for (wi, (run1, start, tid)) in beats.iter().enumerate() {
                    let r = run1.load(Ordering::Relaxed);
                    if r == 0 {
                        seen[wi] = (0, None);
                        continue;
                    }
                    let cpu_now = thread_cpu_ms(tid.load(Ordering::Relaxed));
                    if seen[wi].0 != r {
                        seen[wi] = (r, cpu_now);
                        continue;
                    }
                    let wall = now.saturating_sub(start.load(Ordering::Relaxed));
                    let hang = match (seen[wi].1, cpu_now) {
                        (Some(a), Some(b)) => b.saturating_sub(a) > limit_ms || wall > limit_ms.saturating_mul(WALL_FACTOR),
                        _ => wall > limit_ms,
                    };
                    if hang && run1.load(Ordering::Relaxed) == r {
                        report_hang(check, &root, seed, tier, r - 1);
                    }
                }
            }
        });
        let workers: Vec<_> = (0..threads).map(|wi| {
            let beats = &beats;
            let next = &next;
            let abort = &abort;
            let harness_error = &harness_error;
            let outs = &outs;
            let viol_events = &viol_events;
            let runs_done = &runs_done;
            s.spawn(move || {
                let mut w = WorkerOut::<C::Scenario> {
                    obs: Obs::default(),
                    fps: Vec::new(),
                    nontrivial: 0,
                    samples: Vec::new(),
                    found: BTreeMap::new(),
                    violations_total: 0,
                };
                let mut my_chunks: Vec<u64> = Vec::new();
                beats[wi].2.store(own_tid(), Ordering::Relaxed);
                'outer: loop {
                    let start = next.fetch_add(chunk, Ordering::Relaxed);
                    if start >= total || abort.load(Ordering::Relaxed) || viol_events.load(Ordering::Relaxed) > STOP_AFTER_VIOLATION_EVENTS {
                        break;
                    }
                    my_chunks.push(start);
                    for i in start..(start + chunk).min(total) {
                        beats[wi].1.store(t0.elapsed().as_millis() as u64, Ordering::Relaxed);
                        beats[wi].0.store(i + 1, Ordering::Relaxed);
                        let r = catch_unwind(AssertUnwindSafe(|| {
                            let mut g = Xo::derive(seed, check.id(), 0, i);
                            check.generate(&mut g, tier, i)
                        }))
                        .and_then(|sc| {
                            w.obs.fingerprint = None;
                            match execute_guarded(check, &sc, &mut w.obs) {
                                Guarded::Done(vs) => Ok((sc, vs)),
                                Guarded::StarvedAdversarial => {
                                    // inconclusive: an adversarial stream may starve a legitimate rejection sampler
                                    w.obs.hit("probe.run-starved-under-adversarial-stream");
                                    Ok((sc, Vec::new()))
                                }
                                Guarded::HarnessPanic(p) => Err(p),
                            }
                        });
                        match r {
                            Ok((sc, vs)) => {
                                if let Some(fp) = w.obs.fingerprint {
                                    w.nontrivial += 1;
                                    if i < FP_RUN_CAP {
                                        w.fps.push(fp);
                                    }
                                    if w.samples.len() < 3 {
                                        if let Ok(v) = serde_json::to_value(&sc) {
                                            if v.to_string().len() < 6000 {
                                                w.samples.push((i, v));
                                            }
                                        }
                                    }
                                }
                                runs_done.fetch_add(1, Ordering::Relaxed);
                                if !vs.is_empty() {
                                    viol_events.fetch_add(vs.len() as u64, Ordering::Relaxed);
                                }
                                for v in vs {
                                    w.violations_total += 1;
                                    let better = w.found.get(&v.key).is_none_or(|f| i < f.run);
                                    if better && (w.found.len() < 64 || w.found.contains_key(&v.key)) {
                                        w.found.insert(
                                            v.key.clone(),
                                            Found { run: i, scenario: sc.clone(), violation: v, chunks: my_chunks.clone() },
                                        );
                                    }
                                }
                            }
                            Err(payload) => {
                                let what = if payload.downcast_ref::<Starvation>().is_some() {
                                    format!("rng starvation while GENERATING run {i} (the scenario generator exceeded the draw cap)")
                                } else {
                                    format!(
                                        "harness panic in run {i}: {}",
                                        LAST_PANIC.with(|p| p.borrow().clone())
                                    )
                                };
                                *harness_error.lock().unwrap() = Some(what);
                                abort.store(true, Ordering::Relaxed);
                                break 'outer;
                            }
                        }
                    }
                }
                beats[wi].0.store(0, Ordering::Relaxed);
                outs.lock().unwrap().push(w);
            })
        }).collect();
        for w in workers {
            let _ = w.join();
        }
        done.store(true, Ordering::Relaxed);
    });

    if let Some(e) = harness_error.into_inner().unwrap() {
        eprintln!("HARNESS-ERROR: property={} {e}", check.id());
        return 2;
    }

    // ---- merge (independent of worker count: sums, unions, min-by-index)
    let outs = outs.into_inner().unwrap();
    let mut counters: BTreeMap<String, u64> = BTreeMap::new();
    let mut fps: Vec<u64> = Vec::new();
    let mut nontrivial = 0u64;
    let mut samples: Vec<(u64, Value)> = Vec::new();
    let mut found: BTreeMap<String, Found<C::Scenario>> = BTreeMap::new();
    let mut violations_total = 0u64;
    for w in outs {
        for (k, v) in w.obs.counters {
            *counters.entry(k.to_string()).or_insert(0) += v;
        }
        for (k, v) in w.obs.dyn_counters {
            *counters.entry(k).or_insert(0) += v;
        }
        fps.extend(w.fps);
        nontrivial += w.nontrivial;
        samples.extend(w.samples);
        violations_total += w.violations_total;
        for (k, f) in w.found {
            let better = found.get(&k).is_none_or(|g| f.run < g.run);
            if better {
                found.insert(k, f);
            }
        }
    }
    fps.sort_unstable();
    fps.dedup();
    let distinct = fps.len() as u64;
    samples.sort_by_key(|(i, _)| *i);
    samples.truncate(3);
    let run_wall = t0.elapsed().as_secs_f64();

    // ---- violations: minimise, write replay, verify in a fresh process
    let known = load_known(&root);
    let mut unknown = 0u64;
    let mut unreproduced = 0u64;
    let mut reported: Vec<Value> = Vec::new();
    let mut by_run: Vec<&Found<C::Scenario>> = found.values().collect();
    by_run.sort_by_key(|f| f.run);
    let mut seen_known: BTreeSet<String> = BTreeSet::new();
    if by_run.len() > 12 {
        // many different violations: the ones whose scenario reproduces on its own in a fresh process come first (a
        // violation that depends on what other worker threads were doing at the time is not believed, see below)
        let _ = std::fs::create_dir_all(root.join("replays"));
        let probe_file = root.join("replays").join(format!("{}-{}probe-{seed}.json", check.id(), if check.leg().is_empty() { String::new() } else { format!("{}-", check.leg()) }));
        let mut alone: BTreeSet<u64> = BTreeSet::new();
        for f in by_run.iter().take(150) {
            let rf = ReplayFile {
                property: check.id().to_string(),
                clause: f.violation.clause.clone(),
                key: f.violation.key.clone(),
                message: f.violation.message.clone(),
                verif_seed: seed,
                run: f.run,
                tier: tier.name().to_string(),
                shrink_steps: 0,
                scenario: serde_json::to_value(&f.scenario).unwrap_or(Value::Null),
                history: Vec::new(),
                intermittent: None,
            };
            let ok = std::fs::write(&probe_file, serde_json::to_string_pretty(&rf).unwrap_or_default()).is_ok()
                && std::env::current_exe()
                    .ok()
                    .and_then(|exe| std::process::Command::new(exe).arg("--replay").arg(&probe_file).env("VERIF_ROOT", &root).output().ok())
                    .is_some_and(|o| String::from_utf8_lossy(&o.stdout).contains(&format!("key={} digest=", f.violation.key)));
            if ok {
                alone.insert(f.run);
                if alone.len() >= 12 {
                    break;
                }
            }
        }
        let _ = std::fs::remove_file(&probe_file);
        by_run.sort_by_key(|f| (!alone.contains(&f.run), f.run));
    }
    // at most 12 violations are worked up; ones that do not reproduce in a fresh process are not believed and do not
    // count towards the 12 (at most 24 are tried)
    for f in by_run.iter().take(24) {
        if unknown + seen_known.len() as u64 >= 12 {
            break;
        }
        let file = root.join("replays").join(format!(
            "{}-{}{}-{}-{}.json",
            check.id(),
            if check.leg().is_empty() { String::new() } else { format!("{}-", check.leg()) },
            sanitize(&f.violation.key),
            seed,
            f.run
        ));
        let _ = std::fs::create_dir_all(root.join("replays"));
        // does the scenario as found produce the violation on its own in a fresh process? If it does not, the
        // code under test carries hidden state across calls: minimising the scenario in this (used) process
        // would be meaningless, the call history is searched instead (below)
        let orig_rf = ReplayFile {
            property: check.id().to_string(),
            clause: f.violation.clause.clone(),
            key: f.violation.key.clone(),
            message: f.violation.message.clone(),
            verif_seed: seed,
            run: f.run,
            tier: tier.name().to_string(),
            shrink_steps: 0,
            scenario: serde_json::to_value(&f.scenario).unwrap_or(Value::Null),
            history: Vec::new(),
        intermittent: None,
        };
        let replay_has_key = |file: &Path| -> bool {
            std::env::current_exe()
                .ok()
                .and_then(|exe| std::process::Command::new(exe).arg("--replay").arg(file).env("VERIF_ROOT", &root).output().ok())
                .is_some_and(|o| String::from_utf8_lossy(&o.stdout).contains(&format!("key={} digest=", f.violation.key)))
        };
        let orig_ok = std::fs::write(&file, serde_json::to_string_pretty(&orig_rf).unwrap_or_default()).is_ok() && replay_has_key(&file);
        let (sc, v, steps) = if orig_ok || check.nondeterminism_is_finding() {
            minimise(check, &f.scenario, &f.violation)
        } else {
            (f.scenario.clone(), f.violation.clone(), 0)
        };
        let rf = ReplayFile {
            property: check.id().to_string(),
            clause: v.clause.clone(),
            key: v.key.clone(),
            message: v.message.clone(),
            verif_seed: seed,
            run: f.run,
            tier: tier.name().to_string(),
            shrink_steps: steps,
            scenario: serde_json::to_value(&sc).unwrap_or(Value::Null),
            history: Vec::new(),
        intermittent: None,
        };
        let _ = std::fs::create_dir_all(root.join("replays"));
        if let Err(e) = std::fs::write(&file, serde_json::to_string_pretty(&rf).unwrap_or_default()) {
            eprintln!("HARNESS-ERROR: cannot write replay {}: {e}", file.display());
            return 2;
        }
        // fresh-process reproduction (same key; normally also the same message digest)
        let mut history_note: Option<usize> = None;
        let mut exact = false;
        let mut same_key = false;
        for _attempt in 0..3 {
            let out = std::env::current_exe().ok().and_then(|exe| {
                std::process::Command::new(exe).arg("--replay").arg(&file).env("VERIF_ROOT", &root).output().ok()
            });
            if let Some(o) = out {
                let text = String::from_utf8_lossy(&o.stdout).to_string();
                if text.contains(&format!("key={} digest={:016x}", v.key, msg_digest(&v))) {
                    exact = true;
                    same_key = true;
                    break;
                }
                if text.contains(&format!("key={} digest=", v.key)) {
                    same_key = true;
                }
            }
            if !check.nondeterminism_is_finding() {
                break;
            }
        }
        if !exact {
            if check.nondeterminism_is_finding() {
                println!(
                    "  note: replay of key={} reproduced {} — the finding is itself nondeterministic behaviour",
                    v.key,
                    if same_key { "with different values" } else { "only intermittently" }
                );
            } else if orig_ok {
                // the minimised scenario does not reproduce, the scenario as found does: report that one
                let _ = std::fs::write(&file, serde_json::to_string_pretty(&orig_rf).unwrap_or_default());
                println!("  note: key={} — the minimised scenario did not reproduce in a fresh process; the replay file holds the scenario as found", v.key);
            } else {
                // The scenario alone does not produce the violation in a fresh process: the code under test
                // carries hidden state across calls (or the harness is at fault). Look for the call history.
                let orig = ReplayFile {
                    clause: f.violation.clause.clone(),
                    message: f.violation.message.clone(),
                    shrink_steps: 0,
                    scenario: serde_json::to_value(&f.scenario).unwrap_or(Value::Null),
                    ..rf.clone()
                };
                match find_history(&file, &root, &orig, &f.chunks, chunk, total) {
                    Some(h) => {
                        let fin = ReplayFile { history: h.clone(), ..orig };
                        let _ = std::fs::write(&file, serde_json::to_string_pretty(&fin).unwrap_or_default());
                        println!(
                            "  note: key={} does not follow from its scenario alone; it reproduces after {} earlier run(s) on the \
                             same thread (hidden state carried across calls). The replay file lists the runs.",
                            v.key,
                            h.len().saturating_sub(1)
                        );
                        history_note = Some(h.len());
                    }
                    None => {
                        // last resort: is the behaviour nondeterministic for this fixed scenario and stream?
                        let probe = ReplayFile { intermittent: Some((0, 0)), ..orig.clone() };
                        let _ = std::fs::write(&file, serde_json::to_string_pretty(&probe).unwrap_or_default());
                        let tries = 12u32;
                        let hits = (0..tries).filter(|_| replay_has_key(&file)).count() as u32;
                        if hits == 0 {
                            eprintln!(
                                "HARNESS-ERROR: property={} violation key={} did not reproduce from {} in a fresh process, \
                                 neither alone, nor after the finding worker's call history, nor in {tries} repeated attempts",
                                check.id(),
                                v.key,
                                file.display()
                            );
                            // not believed (and not reported as a violation); the other violations of this run are
                            // still confirmed and reported one by one
                            unreproduced += 1;
                            let _ = std::fs::remove_file(&file);
                            continue;
                        }
                        let fin = ReplayFile { intermittent: Some((hits, tries)), ..orig };
                        let _ = std::fs::write(&file, serde_json::to_string_pretty(&fin).unwrap_or_default());
                        println!(
                            "  note: key={} — for this fixed scenario and stream the code under test behaves nondeterministically: the \
                             violation showed in the run and in {hits} of {tries} fresh-process replays (each replay repeats the scenario up to 200 times)",
                            v.key
                        );
                    }
                }
            }
        }
        let kf = known
            .findings
            .iter()
            .find(|k| k.property == check.id() && k.status == "known" && key_matches(&k.key, &v.key));
        if let Some(k) = kf {
            if seen_known.insert(k.key.clone()) {
                println!("KNOWN-FINDING: property={} {} [key={} replay={}]", check.id(), k.what, v.key, file.display());
            }
            reported.push(json!({"key": v.key, "known": true, "replay": file, "message": v.message}));
        } else {
            unknown += 1;
            println!("  clause={} key={} run={} shrink_steps={steps}", v.clause, v.key, f.run);
            println!("  {}", v.message);
            println!("VIOLATION property={} replay={}", check.id(), file.display());
            reported.push(json!({"key": v.key, "known": false, "replay": file, "message": v.message, "history_runs": history_note}));
        }
    }

    // ---- evidence
    let wall = t0.elapsed().as_secs_f64();
    let mut faults = serde_json::Map::new();
    let mut probes = serde_json::Map::new();
    let mut other = serde_json::Map::new();
    for (k, v) in &counters {
        if let Some(r) = k.strip_prefix("fault.") {
            faults.insert(r.to_string(), json!(v));
        } else if let Some(r) = k.strip_prefix("probe.") {
            probes.insert(r.to_string(), json!(v));
        } else {
            other.insert(k.clone(), json!(v));
        }
    }
    let mut zero_probes: Vec<String> = probes.iter().filter(|(_, v)| v.as_u64() == Some(0)).map(|(k, _)| k.clone()).collect();
    for d in check.declared_probes() {
        if counters.get(d).copied().unwrap_or(0) == 0 {
            zero_probes.push(d.to_string());
        }
    }
    let mut rule = check.rule();
    if total > FP_RUN_CAP {
        rule.push_str(&format!(
            " [distinct fingerprints were collected for the first {FP_RUN_CAP} runs only; non-trivial runs overall: {nontrivial}]"
        ));
    }
    let mut coverage = serde_json::Map::new();
    if !check.leg().is_empty() {
        coverage.insert("leg".into(), json!(check.leg()));
    }
    let executed = runs_done.load(Ordering::Relaxed);
    coverage.insert("evaluations".into(), json!(executed));
    if executed < total {
        coverage.insert("stopped_early".into(), json!(format!("{executed} of {total} planned runs were executed: exploration stops once more than {STOP_AFTER_VIOLATION_EVENTS} violation events were seen")));
    }
    coverage.insert("distinct_nontrivial".into(), json!(distinct));
    coverage.insert("nontrivial_runs".into(), json!(nontrivial));
    coverage.insert("rule".into(), json!(rule));
    coverage.insert(
        "samples".into(),
        Value::Array(samples.into_iter().map(|(i, v)| json!({"run": i, "scenario": v})).collect()),
    );
    coverage.insert("runs_per_hour".into(), json!((total as f64 / run_wall.max(1e-9) * 3600.0) as u64));
    coverage.insert(
        "simulated_time".into(),
        json!("not applicable: nothing in the code reads a clock; simulated steps are reported instead"),
    );
    coverage.insert("simulated_steps".into(), json!(counters.get("steps").copied().unwrap_or(0)));
    coverage.insert("rng_draws".into(), json!(counters.get("draws").copied().unwrap_or(0)));
    coverage.insert("faults_fired".into(), Value::Object(faults));
    coverage.insert("probes".into(), Value::Object(probes.clone()));
    coverage.insert("probes_at_zero".into(), json!(zero_probes));
    coverage.insert("counters".into(), Value::Object(other));
    coverage.insert("real_components".into(), json!(check.real_components()));
    coverage.insert("stub_components".into(), json!(check.stub_components()));
    coverage.insert("threads".into(), json!(threads));
    coverage.insert("violation_events".into(), json!(violations_total));
    coverage.insert("reported".into(), Value::Array(reported));
    for (k, v) in check.extra_coverage(tier, &counters) {
        coverage.insert(k, v);
    }
    let evidence = json!({
        "property_id": check.id(),
        "tier": tier.name(),
        "seed": seed,
        "level": check.level(),
        "coverage": Value::Object(coverage),
        "assumptions": check.assumptions(),
        "wall_s": wall,
        "violations": unknown,
    });
    let evdir = root.join("evidence");
    let _ = std::fs::create_dir_all(&evdir);
    let evfile = if check.leg().is_empty() {
        evdir.join(format!("{}.json", check.id()))
    } else {
        evdir.join(format!("{}.{}.json", check.id(), check.leg()))
    };
    if let Err(e) = std::fs::write(&evfile, serde_json::to_string_pretty(&evidence).unwrap_or_default()) {
        eprintln!("HARNESS-ERROR: cannot write evidence {}: {e}", evfile.display());
        return 2;
    }
    // keep a copy per tier (the main file is rewritten by every run)
    let tiers = evdir.join("tiers");
    let _ = std::fs::create_dir_all(&tiers);
    let _ = std::fs::copy(
        &evfile,
        tiers.join(format!(
            "{}{}.{}.json",
            check.id(),
            if check.leg().is_empty() { String::new() } else { format!(".{}", check.leg()) },
            tier.name()
        )),
    );
    println!(
        "property={} tier={} runs={total} distinct_nontrivial={distinct} violations={unknown} known={} wall={wall:.1}s evidence={}",
        check.id(),
        tier.name(),
        seen_known.len(),
        evfile.display()
    );
    if unknown > 0 {
        1
    } else if unreproduced > 0 {
        2
    } else {
        0
    }
}

/// Wall-clock limit = this many times the CPU-time limit (runs that block without consuming CPU time).
const WALL_FACTOR: u64 = 8;

/// Kernel thread id of the calling thread (0 if it cannot be determined).
fn own_tid() -> u64 {
    std::fs::read_link("/proc/thread-self")
        .ok()
        .and_then(|p| p.file_name().and_then(|f| f.to_str()).and_then(|t| t.parse().ok()))
        .unwrap_or(0)
}

/// CPU time (ms) a thread of this process has consumed so far, from /proc/self/task/<tid>/schedstat.
fn thread_cpu_ms(tid: u64) -> Option<u64> {
    if tid == 0 {
        return None;
    }
    let s = std::fs::read_to_string(format!("/proc/self/task/{tid}/schedstat")).ok()?;
    s.split_whitespace().next()?.parse::<u64>().ok().map(|ns| ns / 1_000_000)
}

/// A run did not return within the watchdog: regenerate its scenario (a pure
/// function of seed and index), write it as a replay file, report and exit.
fn report_hang<C: Check>(check: &C, root: &Path, seed: u64, tier: Tier, run: u64) -> ! {
    let mut g = Xo::derive(seed, check.id(), 0, run);
    let sc = check.generate(&mut g, tier, run);
    let file = root.join("replays").join(format!("{}-hang-{}-{}.json", check.id(), seed, run));
    let rf = ReplayFile {
        property: check.id().to_string(),
        clause: "returns".into(),
        key: "hang".into(),
        message: format!(
            "run {run} did not return: it used more than {} s of CPU time (or blocked for more than {} s)",
            check.watchdog_secs(),
            check.watchdog_secs().saturating_mul(WALL_FACTOR)
        ),
        verif_seed: seed,
        run,
        tier: tier.name().to_string(),
        shrink_steps: 0,
        scenario: serde_json::to_value(&sc).unwrap_or(Value::Null),
        history: Vec::new(),
        intermittent: None,
    };
    let _ = std::fs::create_dir_all(root.join("replays"));
    let _ = std::fs::write(&file, serde_json::to_string_pretty(&rf).unwrap_or_default());
    if check.hang_is_violation() {
        println!(
            "  run {run} did not return: more than {} s of CPU time, or blocked for more than {} s (not minimised)",
            check.watchdog_secs(),
            check.watchdog_secs().saturating_mul(WALL_FACTOR)
        );
        println!("VIOLATION property={} replay={}", check.id(), file.display());
        std::process::exit(1);
    }
    eprintln!(
        "HARNESS-ERROR: property={} run {run} did not return within {} s; scenario in {}",
        check.id(),
        check.watchdog_secs(),
        file.display()
    );
    std::process::exit(2);
}

/// The process died abnormally (abort / stack overflow / allocation failure)
/// during a tier run: find the first run index whose execution kills a child
/// process, write its scenario as a replay file and report it.
fn locate_abort<C: Check>(check: &C, tier: Tier) -> i32 {
    let root = verif_root();
    let seed = env_u64("VERIF_SEED").unwrap_or(DEFAULT_SEED);
    let total = env_u64("VERIF_RUNS").unwrap_or_else(|| check.runs(tier));
    let survives = |a: u64, b: u64| -> bool {
        std::env::current_exe()
            .ok()
            .and_then(|exe| {
                std::process::Command::new(exe)
                    .arg("--range")
                    .arg(a.to_string())
                    .arg(b.to_string())
                    .env("VERIF_TIER", tier.name())
                    .env("VERIF_SEED", seed.to_string())
                    .stdout(std::process::Stdio::null())
                    .stderr(std::process::Stdio::null())
                    .status()
                    .ok()
            })
            .is_some_and(|st| st.success())
    };
    // coarse scan in parallel, then bisect the first dying chunk
    let chunks = 64u64.min(total.max(1));
    let size = total.div_ceil(chunks);
    let dying: Vec<u64> = std::thread::scope(|s| {
        let hs: Vec<_> = (0..chunks)
            .map(|c| {
                let survives = &survives;
                s.spawn(move || {
                    let (a, b) = (c * size, ((c + 1) * size).min(total));
                    if a < b && !survives(a, b) {
                        Some(c)
                    } else {
                        None
                    }
                })
            })
            .collect();
        hs.into_iter().filter_map(|h| h.join().ok().flatten()).collect()
    });
    let Some(first) = dying.into_iter().min() else {
        eprintln!("HARNESS-ERROR: property={} the tier run died abnormally but no run index reproduces it in isolation", check.id());
        return 2;
    };
    let (mut lo, mut hi) = (first * size, ((first + 1) * size).min(total));
    while hi - lo > 1 {
        let mid = lo + (hi - lo) / 2;
        if survives(lo, mid) {
            lo = mid;
        } else {
            hi = mid;
        }
    }
    let run = lo;
    // regenerate the scenario in a child as well: if the *generator* is what dies, that is a
    // defect of the harness, not of the code under test
    let scenario_json = std::env::current_exe().ok().and_then(|exe| {
        std::process::Command::new(exe)
            .arg("--scenario")
            .arg(run.to_string())
            .env("VERIF_TIER", tier.name())
            .env("VERIF_SEED", seed.to_string())
            .output()
            .ok()
            .filter(|o| o.status.success())
            .and_then(|o| serde_json::from_slice::<Value>(&o.stdout).ok())
    });
    let Some(sc) = scenario_json else {
        eprintln!(
            "HARNESS-ERROR: property={} generating the scenario of run {run} kills the process: a defect of the harness' generator, not a finding",
            check.id()
        );
        return 2;
    };
    let file = root.join("replays").join(format!("{}-abort-{}-{}.json", check.id(), seed, run));
    let rf = ReplayFile {
        property: check.id().to_string(),
        clause: "never-panics".into(),
        key: "process-abort".into(),
        message: format!("executing run {run} kills the process (abort / stack overflow / failed allocation)"),
        verif_seed: seed,
        run,
        tier: tier.name().to_string(),
        shrink_steps: 0,
        scenario: sc,
        history: Vec::new(),
        intermittent: None,
    };
    let _ = std::fs::create_dir_all(root.join("replays"));
    let _ = std::fs::write(&file, serde_json::to_string_pretty(&rf).unwrap_or_default());
    println!("  executing run {run} kills the process (abort / stack overflow / failed allocation); replaying the file dies the same way");
    println!("VIOLATION property={} replay={}", check.id(), file.display());
    1
}

fn sanitize(s: &str) -> String {
    let mut out: String = s
        .chars()
        .map(|c| if c.is_ascii_alphanumeric() || c == '-' || c == '_' { c } else { '_' })
        .collect();
    out.truncate(80);
    out
}

enum Guarded {
    Done(Vec<Violation>),
    StarvedAdversarial,
    HarnessPanic(Box<dyn std::any::Any + Send>),
}

/// Execute a scenario. An operation that hits the draw cap of a purely seeded stream does not terminate (or
/// consumes randomness without bound): that is a violation of "returns", reported like any other.
fn execute_guarded<C: Check>(check: &C, sc: &C::Scenario, obs: &mut Obs) -> Guarded {
    match catch_unwind(AssertUnwindSafe(|| check.execute(sc, obs))) {
        Ok(vs) => Guarded::Done(vs),
        Err(payload) => match payload.downcast_ref::<Starvation>() {
            Some(st) if !st.adversarial => Guarded::Done(vec![Violation::new(
                "returns",
                "does-not-return:unbounded-random-draws".to_string(),
                format!(
                    "an operation under test drew more than {} random words from a purely seeded stream without returning \
                     (no boundary word had been injected): it does not terminate, or consumes randomness without bound",
                    crate::simrng::DEFAULT_DRAW_CAP
                ),
            )]),
            Some(_) => Guarded::StarvedAdversarial,
            None => Guarded::HarnessPanic(payload),
        },
    }
}

fn quiet_execute<C: Check>(check: &C, sc: &C::Scenario) -> Vec<Violation> {
    let mut obs = Obs::default();
    match execute_guarded(check, sc, &mut obs) {
        Guarded::Done(vs) => vs,
        _ => Vec::new(),
    }
}

fn minimise<C: Check>(check: &C, sc: &C::Scenario, v: &Violation) -> (C::Scenario, Violation, u64) {
    // overall budget across all findings of one invocation (later findings are reported as found)
    static SPENT_MS: AtomicU64 = AtomicU64::new(0);
    if SPENT_MS.load(Ordering::Relaxed) > 60_000 {
        return (sc.clone(), v.clone(), 0);
    }
    let t0 = Instant::now();
    let mut cur = sc.clone();
    let mut cur_v = v.clone();
    let mut evals = 0u64;
    let mut steps = 0u64;
    'outer: loop {
        let cands = check.shrink(&cur);
        for cand in cands {
            if evals >= 3000 || t0.elapsed().as_secs() >= 15 {
                break 'outer;
            }
            evals += 1;
            let vs = quiet_execute(check, &cand);
            if let Some(nv) = vs.into_iter().find(|x| x.key == v.key) {
                cur = cand;
                cur_v = nv;
                steps += 1;
                continue 'outer;
            }
        }
        break;
    }
    SPENT_MS.fetch_add(t0.elapsed().as_millis() as u64, Ordering::Relaxed);
    (cur, cur_v, steps)
}

/// Generic helpers for shrinking vectors: candidates that drop one chunk.
pub fn drop_chunks<T: Clone>(xs: &[T]) -> Vec<Vec<T>> {
    let mut out = Vec::new();
    let n = xs.len();
    if n == 0 {
        return out;
    }
    let mut size = n;
    while size >= 1 {
        let mut start = 0;
        while start < n {
            let end = (start + size).min(n);
            let mut v = Vec::with_capacity(n - (end - start));
            v.extend_from_slice(&xs[..start]);
            v.extend_from_slice(&xs[end..]);
            out.push(v);
            start += size;
        }
        // (every candidate is a copy of nearly the whole list: for lists of more than 256 elements at most ~32 chunks per level, so that the
        // candidates of a list of 10^5 elements take megabytes, not the square of that; the list shrinks as
        // candidates are accepted and the finer levels are reached then)
        if size == 1 || (n > 256 && n.div_ceil(size) >= 32) {
            break;
        }
        size /= 2;
    }
    out
}
