//! The harness' own generator. Independent of `rand`'s generators on purpose:
//! an upgrade of `rand` must not silently change which scenarios a seed means.

#[inline]
pub fn splitmix64(x: &mut u64) -> u64 {
    *x = x.wrapping_add(0x9E37_79B9_7F4A_7C15);
    let mut z = *x;
    z = (z ^ (z >> 30)).wrapping_mul(0xBF58_476D_1CE4_E5B9);
    z = (z ^ (z >> 27)).wrapping_mul(0x94D0_49BB_1331_11EB);
    z ^ (z >> 31)
}

pub fn fnv1a(bytes: &[u8]) -> u64 {
    let mut h: u64 = 0xcbf2_9ce4_8422_2325;
    for b in bytes {
        h ^= u64::from(*b);
        h = h.wrapping_mul(0x0000_0100_0000_01B3);
    }
    h
}

/// Order-sensitive hash combiner used for fingerprints / digests.
#[inline]
pub fn mix(h: u64, v: u64) -> u64 {
    let mut x = h ^ v.wrapping_mul(0x9E37_79B9_7F4A_7C15);
    x = (x ^ (x >> 32)).wrapping_mul(0xD6E8_FEB8_6659_FD93);
    x = (x ^ (x >> 32)).wrapping_mul(0xD6E8_FEB8_6659_FD93);
    x ^ (x >> 32)
}

/// xoshiro256**
#[derive(Clone, Debug)]
pub struct Xo {
    s: [u64; 4],
}

impl Xo {
    pub fn from_seed(seed: u64) -> Self {
        let mut x = seed;
        let s = [
            splitmix64(&mut x),
            splitmix64(&mut x),
            splitmix64(&mut x),
            splitmix64(&mut x),
        ];
        Self { s }
    }

    /// One generator per (VERIF_SEED, property, stream, run index).
    pub fn derive(seed: u64, prop: &str, stream: u64, run: u64) -> Self {
        let mut x = seed ^ fnv1a(prop.as_bytes()).rotate_left(17);
        let a = splitmix64(&mut x);
        let mut y = a ^ stream.wrapping_mul(0xA24B_AED4_963E_E407);
        let b = splitmix64(&mut y);
        let mut z = b ^ run.wrapping_mul(0x9FB2_1C65_1E98_DF25);
        let c = splitmix64(&mut z);
        Self::from_seed(c)
    }

    #[inline]
    pub fn next_u64(&mut self) -> u64 {
        let r = self.s[1].wrapping_mul(5).rotate_left(7).wrapping_mul(9);
        let t = self.s[1] << 17;
        self.s[2] ^= self.s[0];
        self.s[3] ^= self.s[1];
        self.s[1] ^= self.s[2];
        self.s[0] ^= self.s[3];
        self.s[2] ^= t;
        self.s[3] = self.s[3].rotate_left(45);
        r
    }

    #[inline]
    pub fn next_u32(&mut self) -> u32 {
        (self.next_u64() >> 32) as u32
    }

    /// Uniform in `0..n` (n > 0). Multiply-shift; the bias (< 2^-32 for the
    /// sizes used) only affects which scenarios are drawn, never an oracle.
    #[inline]
    pub fn below(&mut self, n: u64) -> u64 {
        debug_assert!(n > 0);
        ((u128::from(self.next_u64()) * u128::from(n)) >> 64) as u64
    }

    #[inline]
    pub fn usize_below(&mut self, n: usize) -> usize {
        self.below(n as u64) as usize
    }

    /// Uniform in `lo..=hi`.
    #[inline]
    pub fn range(&mut self, lo: u64, hi: u64) -> u64 {
        debug_assert!(lo <= hi);
        if lo == 0 && hi == u64::MAX {
            return self.next_u64();
        }
        lo + self.below(hi - lo + 1)
    }

    #[inline]
    pub fn urange(&mut self, lo: usize, hi: usize) -> usize {
        self.range(lo as u64, hi as u64) as usize
    }

    /// Log-uniform size in `lo..=hi` (lo >= 1): every order of magnitude between the bounds is about equally
    /// likely, so thresholds at arbitrary sizes (48, 100, 257, 3000, ...) are crossed by a fixed fraction of the
    /// draws instead of only the ones near a hand-picked pool.
    pub fn log_uniform(&mut self, lo: usize, hi: usize) -> usize {
        debug_assert!(lo >= 1 && lo <= hi);
        let (l, h) = ((lo as f64).ln(), ((hi as f64) + 1.0).ln());
        let x = (l + self.f64_unit() * (h - l)).exp();
        (x as usize).clamp(lo, hi)
    }

    /// true with probability num/den
    #[inline]
    pub fn chance(&mut self, num: u64, den: u64) -> bool {
        self.below(den) < num
    }

    #[inline]
    pub fn coin(&mut self) -> bool {
        self.next_u64() >> 63 == 1
    }

    #[inline]
    pub fn pick<'a, T>(&mut self, xs: &'a [T]) -> &'a T {
        &xs[self.usize_below(xs.len())]
    }

    /// Weighted index choice. `weights` must have a positive sum.
    pub fn weighted(&mut self, weights: &[u32]) -> usize {
        let total: u64 = weights.iter().map(|w| u64::from(*w)).sum();
        debug_assert!(total > 0);
        let mut r = self.below(total);
        for (i, w) in weights.iter().enumerate() {
            let w = u64::from(*w);
            if r < w {
                return i;
            }
            r -= w;
        }
        weights.len() - 1
    }

    pub fn f64_unit(&mut self) -> f64 {
        (self.next_u64() >> 11) as f64 / (1u64 << 53) as f64
    }

    pub fn shuffle<T>(&mut self, xs: &mut [T]) {
        for i in (1..xs.len()).rev() {
            let j = self.usize_below(i + 1);
            xs.swap(i, j);
        }
    }
}
