//! Shared machinery of the deterministic simulator (DESIGN §3).
pub mod driver;
pub mod rng;
pub mod simrng;
pub mod stats;

pub use driver::{catch, drop_chunks, main_for, Check, Obs, Panicked, Tier, Violation};
pub use rng::{fnv1a, mix, Xo};
pub use simrng::{Draw, FastRng, RngSpec, SimRng};
