//! Statistical decision rule for distributional clauses (DESIGN §3.7).
//!
//! For an event of exact probability `p`, `n` independent trials and `x`
//! observed hits, the Chernoff–Hoeffding bound gives, for every n,
//!   P( n·KL(x/n ‖ p) > t ) ≤ 2·exp(−t).
//! A cell is flagged iff n·KL(x/n ‖ p) > ln(2/δ_cell).

/// Total false-alarm budget of one check invocation.
pub const DELTA_TOTAL: f64 = 1e-9;

pub fn kl_bernoulli(q: f64, p: f64) -> f64 {
    let term = |a: f64, b: f64| -> f64 {
        if a <= 0.0 {
            0.0
        } else if b <= 0.0 {
            f64::INFINITY
        } else {
            a * (a / b).ln()
        }
    };
    term(q, p) + term(1.0 - q, 1.0 - p)
}

/// ln(2/δ_cell) for `cells` cells sharing `DELTA_TOTAL`.
pub fn threshold(cells: u64) -> f64 {
    (2.0 * (cells.max(1) as f64) / DELTA_TOTAL).ln()
}

#[derive(Clone, Debug)]
pub struct CellVerdict {
    pub n: u64,
    pub x: u64,
    pub p: f64,
    pub stat: f64,
    pub threshold: f64,
    pub violated: bool,
}

/// Decide one cell. `p == 0` / `p == 1` are exact: a single contrary
/// observation violates.
pub fn decide(n: u64, x: u64, p: f64, cells: u64) -> CellVerdict {
    let thr = threshold(cells);
    if n == 0 {
        return CellVerdict { n, x, p, stat: 0.0, threshold: thr, violated: false };
    }
    let q = x as f64 / n as f64;
    let stat = n as f64 * kl_bernoulli(q, p);
    let violated = if p <= 0.0 {
        x > 0
    } else if p >= 1.0 {
        x < n
    } else {
        stat > thr
    };
    CellVerdict { n, x, p, stat, threshold: thr, violated }
}

/// Smallest absolute deviation |q − p| that the rule resolves at (n, p):
/// reported in the evidence so that a reader sees the resolution.
pub fn resolution(n: u64, p: f64, cells: u64) -> f64 {
    let thr = threshold(cells);
    // bisection on q > p
    let mut lo = p;
    let mut hi = 1.0;
    for _ in 0..60 {
        let mid = 0.5 * (lo + hi);
        if n as f64 * kl_bernoulli(mid, p) > thr {
            hi = mid;
        } else {
            lo = mid;
        }
    }
    hi - p
}

pub fn binom(n: u64, k: u64) -> f64 {
    if k > n {
        return 0.0;
    }
    let k = k.min(n - k);
    let mut r = 1.0f64;
    for i in 0..k {
        r = r * (n - i) as f64 / (i + 1) as f64;
    }
    r
}
