//! `SimRng` — the random stream the simulator owns.
//!
//! Every word handed to the code under test is a *typed draw*; the draw
//! counter and a rolling digest of the typed trace are part of the observable
//! state (used by the C14/C16/C17 oracles), the full trace is kept on request.

use rand::RngCore;
use serde::{Deserialize, Serialize};

use crate::rng::{mix, Xo};

/// Serializable description of a stream: one integer, a boundary rate and an
/// optional literal prefix (used by the minimiser to pin / simplify the first
/// draws).
#[derive(Serialize, Deserialize, Clone, Debug, PartialEq, Eq, Default)]
pub struct RngSpec {
    pub seed: u64,
    /// probability (in 1/16ths) that a draw is replaced by a boundary word
    pub q16: u8,
    /// literal words served first (u32 draws take the low 32 bits)
    #[serde(default)]
    pub prefix: Vec<u64>,
}

impl RngSpec {
    pub fn seeded(seed: u64) -> Self {
        Self { seed, q16: 0, prefix: Vec::new() }
    }

    pub fn boundary(seed: u64, q16: u8) -> Self {
        Self { seed, q16, prefix: Vec::new() }
    }

    /// Swarm choice used by most checks: half of the runs seeded, the rest
    /// with boundary rates 1/16, 1/4, 1/2.
    pub fn swarm(g: &mut Xo) -> Self {
        let seed = g.next_u64();
        let q16 = match g.below(8) {
            0..=3 => 0,
            4 | 5 => 1,
            6 => 4,
            _ => 8,
        };
        Self { seed, q16, prefix: Vec::new() }
    }

    pub fn build(&self) -> SimRng {
        SimRng::new(self)
    }
}

#[derive(Clone, Copy, Debug, PartialEq, Eq, Serialize, Deserialize)]
pub enum Draw {
    U32(u32),
    U64(u64),
    /// a `fill_bytes` request of this many bytes
    Bytes(u32),
}

/// Raised (as a panic payload) when the code under test asks for more draws than any terminating call could
/// need (the per-operation draw cap). `adversarial`: boundary words had been injected into this stream before
/// the cap was hit. A degenerate stream may legally starve a rejection sampler, so an adversarial starvation is a
/// *harness* condition; a starvation on a purely seeded stream (no injected word) can only mean that the code
/// under test does not terminate (or consumes randomness without bound) and is a violation of "returns".
#[derive(Debug)]
pub struct Starvation {
    pub adversarial: bool,
}

pub const DEFAULT_DRAW_CAP: u64 = 1_000_000;

#[derive(Clone, Debug)]
pub struct SimRng {
    src: Xo,
    q16: u8,
    prefix: Vec<u64>,
    pos: usize,
    draws: u64,
    cap: u64,
    digest: u64,
    prev: u64,
    burst: u8,
    boundary_fired: u64,
    record: bool,
    trace: Vec<Draw>,
}

const B64: [u64; 8] = [
    0,
    u64::MAX,
    1,
    u64::MAX - 1,
    1 << 63,
    (1 << 63) - 1,
    1 << 32,
    u32::MAX as u64,
];
const B32: [u32; 8] = [
    0,
    u32::MAX,
    1,
    u32::MAX - 1,
    1 << 31,
    (1 << 31) - 1,
    0xFF,
    0x100,
];

impl SimRng {
    pub fn new(spec: &RngSpec) -> Self {
        Self {
            src: Xo::from_seed(spec.seed ^ 0x5117_5EED_0000_0001),
            q16: spec.q16.min(16),
            prefix: spec.prefix.clone(),
            pos: 0,
            draws: 0,
            cap: DEFAULT_DRAW_CAP,
            digest: 0,
            prev: 0,
            burst: 0,
            boundary_fired: 0,
            record: false,
            trace: Vec::new(),
        }
    }

    pub fn seeded(seed: u64) -> Self {
        Self::new(&RngSpec::seeded(seed))
    }

    #[must_use]
    pub fn recording(mut self) -> Self {
        self.record = true;
        self
    }

    pub fn set_cap(&mut self, cap: u64) {
        self.cap = cap;
    }

    /// Equal-state copy (same future words, same counters).
    #[must_use]
    pub fn fork(&self) -> Self {
        self.clone()
    }

    pub fn draws(&self) -> u64 {
        self.draws
    }

    /// Rolling digest of the typed trace so far (kind and value of each draw).
    pub fn digest(&self) -> u64 {
        self.digest
    }

    pub fn boundary_fired(&self) -> u64 {
        self.boundary_fired
    }

    pub fn trace(&self) -> &[Draw] {
        &self.trace
    }

    /// Observable "state" of a stream for two-run comparisons: number of
    /// draws, typed-trace digest, and the next word (drawn from a fork so the
    /// stream itself is not disturbed).
    pub fn state_fingerprint(&self) -> (u64, u64, u64) {
        let mut f = self.fork();
        f.cap = u64::MAX;
        let next = f.next_u64();
        (self.draws, self.digest, next)
    }

    #[inline]
    fn raw(&mut self, is32: bool) -> u64 {
        self.draws += 1;
        if self.draws > self.cap {
            std::panic::panic_any(Starvation { adversarial: self.boundary_fired > 0 });
        }
        let w = if self.pos < self.prefix.len() {
            let w = self.prefix[self.pos];
            self.pos += 1;
            if is32 {
                w & 0xFFFF_FFFF
            } else {
                w
            }
        } else {
            let base = self.src.next_u64();
            let mut w = if is32 { base >> 32 } else { base };
            if self.q16 > 0 {
                // always consume the selector so that the position in `src`
                // depends only on the number of draws
                let sel = self.src.next_u64();
                if self.burst < 3 && (sel & 15) < u64::from(self.q16) {
                    let k = ((sel >> 4) & 15) as usize;
                    w = if is32 {
                        match k {
                            0..=7 => u64::from(B32[k]),
                            8..=11 => (1u64 << ((sel >> 8) % 32)) - 1,
                            12..=13 => 1u64 << ((sel >> 8) % 32),
                            _ => self.prev & 0xFFFF_FFFF,
                        }
                    } else {
                        match k {
                            0..=7 => B64[k],
                            8..=11 => (1u64 << ((sel >> 8) % 64)).wrapping_sub(1),
                            12..=13 => 1u64 << ((sel >> 8) % 64),
                            _ => self.prev,
                        }
                    };
                    self.burst += 1;
                    self.boundary_fired += 1;
                } else {
                    self.burst = 0;
                }
            }
            w
        };
        self.prev = w;
        self.digest = mix(self.digest, w ^ if is32 { 0x3232_3232_0000_0000 } else { 0 });
        self.digest = mix(self.digest, u64::from(is32));
        if self.record {
            self.trace.push(if is32 { Draw::U32(w as u32) } else { Draw::U64(w) });
        }
        w
    }
}

impl RngCore for SimRng {
    #[inline]
    fn next_u32(&mut self) -> u32 {
        self.raw(true) as u32
    }

    #[inline]
    fn next_u64(&mut self) -> u64 {
        self.raw(false)
    }

    /// One typed draw `bytes(n)`: a wrapper that splits a byte request into
    /// word requests (or the other way round) changes the typed trace.
    fn fill_bytes(&mut self, dst: &mut [u8]) {
        self.draws += 1;
        if self.draws > self.cap {
            std::panic::panic_any(Starvation { adversarial: self.boundary_fired > 0 });
        }
        self.digest = mix(self.digest, 0xB17E_5000_0000_0000 ^ dst.len() as u64);
        let mut acc = 0u64;
        for chunk in dst.chunks_mut(8) {
            let w = if self.pos < self.prefix.len() {
                let w = self.prefix[self.pos];
                self.pos += 1;
                w
            } else {
                let w = self.src.next_u64();
                if self.q16 > 0 {
                    let _ = self.src.next_u64();
                }
                w
            };
            acc = mix(acc, w);
            chunk.copy_from_slice(&w.to_le_bytes()[..chunk.len()]);
        }
        self.prev = acc;
        self.digest = mix(self.digest, acc);
        if self.record {
            self.trace.push(Draw::Bytes(dst.len() as u32));
        }
    }
}

/// A plain fast stream for the statistical experiments (no boundary words, no
/// trace): xoshiro words straight through `RngCore`.
#[derive(Clone, Debug)]
pub struct FastRng(pub Xo);

impl FastRng {
    pub fn new(seed: u64) -> Self {
        Self(Xo::from_seed(seed ^ 0xFA57_0000_0000_0001))
    }
}

impl RngCore for FastRng {
    #[inline]
    fn next_u32(&mut self) -> u32 {
        (self.0.next_u64() >> 32) as u32
    }

    #[inline]
    fn next_u64(&mut self) -> u64 {
        self.0.next_u64()
    }

    fn fill_bytes(&mut self, dst: &mut [u8]) {
        for chunk in dst.chunks_mut(8) {
            let w = self.0.next_u64().to_le_bytes();
            chunk.copy_from_slice(&w[..chunk.len()]);
        }
    }
}
