//! Reference models and shared scenario types used by the per-property binaries.
