//! Reference models, scenario types and simulators shared by the
//! per-property binaries.
pub mod pushmodel;
pub mod vm;
pub mod vmgen;
pub mod vmsim;
