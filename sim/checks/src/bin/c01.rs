//! C01 — Push programs evaluate to the state the instruction semantics
//! prescribe: step-by-step refinement of the real interpreter against
//! `pushmodel`, under capacity / step-budget / rebuild faults (DESIGN §5 C01).

use checks::{
    vmgen::{self, Bias},
    vmsim::{self, Prop, VmSc},
};
use simcore::{fnv1a, main_for, Check, Obs, Tier, Violation, Xo};

struct C01;

impl Check for C01 {
    type Scenario = VmSc;

    fn id(&self) -> &'static str {
        "C01"
    }

    fn declared_probes(&self) -> Vec<&'static str> {
        vec![
            "fault.capacity-shrink",
            "fault.operand-starve",
            "fault.pause-rebuild-resume",
            "fault.step-budget-cut",
            "probe.deep-nesting-fully-unwrapped",
            "probe.deep-nesting-run",
            "probe.deep-nesting>200",
            "probe.fatal-error",
            "probe.giant-block>=65536-children",
            "probe.long-run",
            "probe.long-run-of-millions-of-steps",
            "probe.long-run-output>64KiB",
            "probe.long-run-without-exact-prediction",
            "probe.model-allowed-set-wider-than-one",
            "probe.print-char-instantiation",
            "probe.real-loop-fatal",
            "probe.real-loop-runs",
            "probe.recoverable-error",
            "probe.skip-equals-noop-compared",
            "probe.whole-vs-chunked-evaluation",
        ]
    }

    fn rule(&self) -> String {
        "ENUMERATED: every int / float instruction on every ordered pair of boundary literals, and every program of <= 5 nodes built \
         from <= 2 distinct instructions (one of them exec-structural) on 3 bool stacks x 2 exec capacities; SEEDED: Push programs (<= 40 top-level items, nesting <= 6 (plus 65..=1200 wrapping blocks in 1/200 of the runs), all instruction variants, boundary literal pools, \
         0-8 initial values per stack, 0-10 inputs bound in seeded order, swarm-weighted instruction families, \
         capacity regimes tiny/small/roomy/unbounded) executed harness-stepped against pushmodel and by the real loop \
         for limits {0,1,t-1,t,t+1,T-1,T,T+1,10^4,MAX}; non-trivial iff >= 3 instruction steps ran and at least one \
         instruction failed (recoverable or fatal) or a resource fault fired; distinct = distinct scenario fingerprints"
            .into()
    }

    fn watchdog_secs(&self) -> u64 {
        240 // (the one very long evaluation takes seconds; everything else microseconds)
    }

    fn runs(&self, tier: Tier) -> u64 {
        match tier {
            Tier::Quick => 600_000 + (vmgen::operand_cells() + vmgen::small_cells()) as u64,
            Tier::Thorough => 30_000_000 + (vmgen::operand_cells() + vmgen::small_cells()) as u64,
        }
    }

    fn generate(&self, g: &mut Xo, tier: Tier, run: u64) -> VmSc {
        if (20..32).contains(&run) {
            // one-character prints (also run through `PrintChar::<c>`)
            return vmgen::gen_print_char((run - 20) as usize);
        }
        if run >= 100 && run < 100 + vmgen::operand_cells() as u64 {
            // the enumerated operand grid: every int / float instruction x every ordered pair of boundary literals
            return vmgen::gen_operand_cell((run - 100) as usize);
        }
        let small0 = 100 + vmgen::operand_cells() as u64;
        if run >= small0 && run < small0 + vmgen::small_cells() as u64 {
            // the small-scope enumeration of exec-structural programs (<= 5 nodes, <= 2 distinct instructions)
            return vmgen::gen_small_cell((run - small0) as usize);
        }
        if run == 11 {
            // one very long evaluation (millions of steps) compared with the model at the end
            return vmgen::gen_very_long(g, if tier == Tier::Quick { 3_000_000 } else { 10_000_000 });
        }
        if run % 40_000 == 13 {
            // one giant block (>= 65 536 children)
            return vmgen::gen_giant_nth(g, run / 40000);
        }
        if run % 2500 == 1249 {
            // a long execution of a looping program, compared with a model-only run at the end
            return vmgen::gen_long(g);
        }
        vmgen::gen_scenario(g, Bias::Balanced)
    }

    fn execute(&self, sc: &VmSc, obs: &mut Obs) -> Vec<Violation> {
        let before_steps = obs.counters.get("steps").copied().unwrap_or(0);
        let before_fail = obs.counters.get("probe.recoverable-error").copied().unwrap_or(0)
            + obs.counters.get("probe.fatal-error").copied().unwrap_or(0)
            + obs.counters.get("fault.capacity-shrink").copied().unwrap_or(0)
            + obs.counters.get("fault.operand-starve").copied().unwrap_or(0);
        let tagged = vmsim::simulate(sc, obs);
        let steps = obs.counters.get("steps").copied().unwrap_or(0) - before_steps;
        let fail = obs.counters.get("probe.recoverable-error").copied().unwrap_or(0)
            + obs.counters.get("probe.fatal-error").copied().unwrap_or(0)
            + obs.counters.get("fault.capacity-shrink").copied().unwrap_or(0)
            + obs.counters.get("fault.operand-starve").copied().unwrap_or(0)
            - before_fail;
        if steps >= 3 && fail >= 1 {
            obs.nontrivial(fnv1a(format!("{sc:?}").as_bytes()));
        }
        tagged.into_iter().filter(|t| t.prop == Prop::C01).map(|t| t.v).collect()
    }

    fn extra_coverage(
        &self,
        _tier: Tier,
        _c: &std::collections::BTreeMap<String, u64>,
    ) -> serde_json::Map<String, serde_json::Value> {
        let mut m = serde_json::Map::new();
        m.insert("enumerated_operand_grid_cells".into(), serde_json::json!(vmgen::operand_cells()));
        m.insert("enumerated_small_scope_programs".into(), serde_json::json!(vmgen::small_cells()));
        m.insert(
            "enumeration_note".into(),
            serde_json::json!("complete: every int/float instruction x every ordered pair of boundary literals; every program of <= 5 nodes over <= 2 distinct instructions (one exec-structural) x 3 bool stacks x 2 exec capacities; the same under every VERIF_SEED"),
        );
        m
    }

    fn shrink(&self, sc: &VmSc) -> Vec<VmSc> {
        vmgen::shrink(sc)
    }

    fn assumptions(&self) -> Vec<String> {
        vec![
            "pushmodel (sim/checks/src/pushmodel.rs) is the intended meaning of the statement + rustdoc action tables".into(),
            "where the statement is silent the model allows a set (DESIGN §8): full-and-starved cross-stack instructions, Power with exponent > u32::MAX, trunc/floor division, approximate conversions, NaN comparisons".into(),
            "harness-stepped runs are capped at 400 steps; the real loop is only run when the stepped run ended".into(),
        ]
    }

    fn real_components(&self) -> Vec<&'static str> {
        vec!["push (interpreter loop, all instructions, Stack, builder)", "push-macros", "ordered-float"]
    }

    fn stub_components(&self) -> Vec<&'static str> {
        vec!["pushmodel reference interpreter"]
    }
}

fn main() {
    main_for(C01);
}
