//! C12 — configured probabilities are the probabilities applied. Purely
//! distributional: seeded many-run experiments compared with exact laws by the
//! Chernoff-KL rule at a total false-alarm budget of 1e-9 (DESIGN §5 C12, §3.7).

use std::cell::Cell;

use ec_core::{
    distributions::conversion::IntoDistribution,
    operator::{mutator::Mutator, recombinator::Recombinator},
    uniform_distribution_of,
};
use ec_linear::{
    genome::{bitstring::Bitstring, vector::Vector},
    mutator::{umad::Umad, with_one_over_length::WithOneOverLength, with_rate::WithRate},
    recombinator::uniform_xo::UniformXo,
};
use push::{
    genome::plushy::{ConvertToGeneGenerator, GeneGenerator, PushGene},
    instruction::{IntInstruction, PushInstruction},
};
use rand::{distr::Distribution, Rng};
use serde::{Deserialize, Serialize};
use simcore::{catch, fnv1a, main_for, stats, Check, FastRng, Obs, Tier, Violation, Xo};

#[derive(Serialize, Deserialize, Clone, Debug, PartialEq)]
enum Exp {
    /// bit-flip: rate None = WithOneOverLength; container 0 Vec<bool>, 1 Bitstring
    Flip { rate: Option<f32>, container: u8, len: usize },
    /// UMAD on a Vector<u32> parent of length len >= 1
    Umad { add: f64, del: f64, len: usize },
    /// UMAD on an empty parent: ctor 0 new(add,..) 1 new_with_empty_rate 2 new_without_empty
    UmadEmpty { ctor: u8, add: f64, empty: f64 },
    /// uniform crossover: container 0 [Vec;2], 1 (Vec,Vec), 2 [Bitstring;2], 3 (Bitstring,Bitstring)
    Uniform { container: u8, len: usize },
    /// Bitstring::random (p None) / random_with_probability / BoolGenerator
    RandomBits { p: Option<f64>, via_generator: bool, len: usize },
    /// GeneGenerator: source 0 Vec (OneOfCloning), 1 array macro, 2 slice (ChooseCloning);
    /// close None = with_uniform_close_probability
    Gene { source: u8, n: usize, close: Option<f32> },
    /// the exact endpoints under an ADVERSARIAL stream (boundary words 0, MAX, ...): close probability 0 never
    /// yields a close marker, 1 always does; Bitstring probability 0 / 1 likewise; flip rate 0 / 1 likewise
    Endpoints { which: u8 },
    /// UMAD through the OTHER constructors on a non-empty parent: ctor 1 = new_with_empty_rate(add, empty, del),
    /// 2 = new_without_empty(add, del); the empty-genome rate must play no part here
    UmadCtor { ctor: u8, add: f64, empty: f64, del: f64, len: usize },
    /// a whole Plushy genome drawn from a collection generator around the gene generator (by value / by
    /// reference): close markers at the first position, at the last position and overall
    PlushyGen { n: usize, len: usize, close: Option<f32>, by_ref: bool },
}

#[derive(Serialize, Deserialize, Clone, Debug)]
struct Sc {
    exp: Exp,
    trials: u64,
    seed: u64,
    cells_total: u64,
}

struct Cell_ {
    name: String,
    n: u64,
    x: u64,
    p: f64,
}

fn experiments() -> Vec<Exp> {
    let mut v = Vec::new();
    for container in 0..2u8 {
        for rate in [0.05f32, 0.1, 0.3, 0.5, 0.9] {
            for len in [1usize, 8, 64] {
                v.push(Exp::Flip { rate: Some(rate), container, len });
            }
        }
        // very long genomes: a length that no longer fits a narrow integer /
        // float conversion must still give exactly one expected flip
        for len in [1usize, 2, 3, 8, 64, 300, 70_000, 300_000] {
            v.push(Exp::Flip { rate: None, container, len });
        }
        v.push(Exp::Flip { rate: Some(0.001), container, len: 70_000 });
        // tiny rates: 1/length for a genome of 10^7 genes, and an explicit rate far below f32::EPSILON (a
        // "treat as zero" shortcut must not swallow them); enough gene decisions for ~40 expected flips
        v.push(Exp::Flip { rate: None, container, len: 10_000_000 });
        // ... and of 2^24 + 1 genes: the rate is the smallest one a 24-bit coin can still apply (a rate clamped to
        // f32::EPSILON doubles it)
        v.push(Exp::Flip { rate: None, container, len: (1 << 24) + 1 });
        v.push(Exp::Flip { rate: Some(5e-8), container, len: 4_000_000 });
        // lengths of arbitrary magnitude (size-dependent paths: word packing, chunking, fast paths)
        for len in [100usize, 257, 1000, 3000] {
            v.push(Exp::Flip { rate: Some(0.3), container, len });
        }
    }
    for len in [100usize, 1000] {
        v.push(Exp::Umad { add: 0.3, del: 0.1, len });
    }
    for (add, del) in [(0.1, 0.1), (0.3, 0.05), (0.5, 0.5), (0.9, 0.3), (0.09, 0.09 / 1.09), (1.0, 0.5), (0.5, 0.0)] {
        for len in [1usize, 5, 20] {
            v.push(Exp::Umad { add, del, len });
        }
    }
    for (ctor, add, empty) in [(0u8, 0.3, 0.0), (0, 0.9, 0.0), (1, 0.1, 0.7), (1, 0.9, 0.2), (2, 0.5, 0.0)] {
        v.push(Exp::UmadEmpty { ctor, add, empty });
    }
    for container in 0..4u8 {
        for len in [1usize, 7, 40, 100, 257, 1000] {
            v.push(Exp::Uniform { container, len });
        }
        if container % 2 == 0 {
            v.push(Exp::Uniform { container, len: 9000 });
        }
        // more than 2^20 genes, not a multiple of 64 (coins drawn a word at a time must reach the last genes too)
        v.push(Exp::Uniform { container, len: (1 << 20) + 37 });
    }
    for via_generator in [false, true] {
        v.push(Exp::RandomBits { p: Some(1e-12), via_generator, len: 1 << 20 });
        v.push(Exp::RandomBits { p: Some(1.0 - 1e-12), via_generator, len: 1 << 20 });
    }
    for len in [257usize, 1000, 5000] {
        v.push(Exp::RandomBits { p: None, via_generator: false, len });
        v.push(Exp::RandomBits { p: Some(0.3), via_generator: true, len });
    }
    for len in [1usize, 16, 100] {
        v.push(Exp::RandomBits { p: None, via_generator: false, len });
        for p in [0.05, 0.3, 0.9] {
            v.push(Exp::RandomBits { p: Some(p), via_generator: false, len });
            v.push(Exp::RandomBits { p: Some(p), via_generator: true, len });
        }
    }
    for which in 0..6u8 {
        v.push(Exp::Endpoints { which });
    }
    for (ctor, add, empty, del) in [(1u8, 0.3, 0.9, 0.1), (1, 0.5, 0.0, 0.25), (1, 0.2, 0.6, 0.0), (2, 0.3, 0.0, 0.1), (2, 0.9, 0.0, 0.3)] {
        for len in [1usize, 20] {
            v.push(Exp::UmadCtor { ctor, add, empty, del, len });
        }
    }
    for (n, len, close, by_ref) in [(3usize, 1usize, None, false), (3, 8, None, true), (1, 5, None, false), (5, 40, Some(0.5f32), false), (2, 3, Some(0.9), true)] {
        v.push(Exp::PlushyGen { n, len, close, by_ref });
    }
    for n in [1usize, 2, 3, 5, 8] {
        v.push(Exp::Gene { source: 3, n, close: None });
        v.push(Exp::Gene { source: 4, n, close: None });
    }
    v.push(Exp::Gene { source: 3, n: 4, close: Some(0.3) });
    // instruction sets larger than 16 bits count (the uniform close probability is 1/(n+1) for EVERY n)
    v.push(Exp::Gene { source: 0, n: 200_000, close: None });
    v.push(Exp::Gene { source: 2, n: 1_000_000, close: None });
    v.push(Exp::Gene { source: 4, n: 300_000, close: None });
    for source in 0..3u8 {
        for n in 1..=8usize {
            v.push(Exp::Gene { source, n, close: None });
        }
        for (n, c) in [(3usize, 0.1f32), (5, 0.5), (2, 0.9), (8, 0.05)] {
            v.push(Exp::Gene { source, n, close: Some(c) });
        }
    }
    v
}

/// Probe generator for UMAD: hands out values >= 10^6.
struct NewGenes(Cell<u32>);

impl Distribution<u32> for NewGenes {
    fn sample<R: Rng + ?Sized>(&self, rng: &mut R) -> u32 {
        let _ = rng.next_u32();
        self.0.set(self.0.get().wrapping_add(1));
        1_000_000 + (self.0.get() % 1000)
    }
}

fn instr(i: usize) -> PushInstruction {
    PushInstruction::push_int(i as i64)
}

fn instr_index(g: &PushGene) -> Option<usize> {
    match g {
        PushGene::Instruction(PushInstruction::IntInstruction(IntInstruction::Push(p))) => usize::try_from(p.0).ok(),
        _ => None,
    }
}

fn sample_genes<D: Distribution<PushInstruction>>(gg: &GeneGenerator<D>, trials: u64, rng: &mut FastRng, n: usize) -> (u64, Vec<u64>) {
    let mut closes = 0u64;
    let mut counts = vec![0u64; n];
    for _ in 0..trials {
        let g: PushGene = gg.sample(rng);
        match instr_index(&g) {
            Some(i) if i < n => counts[i] += 1,
            _ => closes += 1,
        }
    }
    (closes, counts)
}

#[allow(clippy::too_many_lines)]
fn run_experiment(exp: &Exp, trials: u64, seed: u64) -> Option<Vec<Cell_>> {
    let mut rng = FastRng::new(seed);
    let mut cells: Vec<Cell_> = Vec::new();
    let mut cell = |name: String, n: u64, x: u64, p: f64| cells.push(Cell_ { name, n, x, p });
    match exp {
        Exp::Flip { rate, container, len } => {
            let len = *len;
            // keep the number of gene decisions bounded for very long genomes
            let trials = if len > 1 << 24 {
                // ~160 expected flips: enough to tell one expected flip per genome from two
                160
            } else if len >= 4_000_000 {
                // ~40 expected flips in total, whatever the tier
                if rate.is_some() { 200 } else { 40 }
            } else if len > 1000 {
                (trials * 64 / len as u64).max(40)
            } else {
                trials
            };
            let p = match rate {
                Some(r) => f64::from(*r),
                None => 1.0 / len as f64,
            };
            let parent: Vec<bool> = (0..len).map(|i| i % 3 == 0).collect();
            let (mut total, mut first, mut last, mut pair) = (0u64, 0u64, 0u64, 0u64);
            for _ in 0..trials {
                let child: Vec<bool> = match (rate, container) {
                    (Some(r), 0) => WithRate::new(*r).mutate(parent.clone(), &mut rng).ok()?,
                    (Some(r), _) => WithRate::new(*r).mutate(Bitstring { bits: parent.clone() }, &mut rng).ok()?.bits,
                    (None, 0) => WithOneOverLength.mutate(parent.clone(), &mut rng).ok()?,
                    (None, _) => WithOneOverLength.mutate(Bitstring { bits: parent.clone() }, &mut rng).ok()?.bits,
                };
                if child.len() != len {
                    return None;
                }
                let f: Vec<bool> = child.iter().zip(&parent).map(|(a, b)| a != b).collect();
                total += f.iter().filter(|x| **x).count() as u64;
                first += u64::from(f[0]);
                last += u64::from(f[len - 1]);
                if len >= 2 && f[0] && f[1] {
                    pair += 1;
                }
            }
            cell("flips per gene (all positions)".into(), trials * len as u64, total, p);
            cell("flip of the first gene".into(), trials, first, p);
            cell("flip of the last gene".into(), trials, last, p);
            if len >= 2 {
                cell("joint flip of genes 0 and 1 (independence)".into(), trials, pair, p * p);
            }
        }
        Exp::Umad { add, del, len } => {
            let len = *len;
            let umad = Umad::new(*add, *del, NewGenes(Cell::new(0)));
            let (mut kept, mut news) = (0u64, 0u64);
            let mut patterns = [0u64; 4]; // len == 1: [], [old], [new], [old,new]
            let mut size = 0u64;
            for _ in 0..trials {
                let parent: Vector<u32> = (0..len as u32).collect();
                let child = umad.mutate(parent, &mut rng).ok()?.genes;
                let k = child.iter().filter(|g| **g < 1_000_000).count() as u64;
                let nn = child.len() as u64 - k;
                kept += k;
                news += nn;
                size += child.len() as u64;
                if len == 1 {
                    patterns[(k + 2 * nn) as usize] += 1;
                }
            }
            let q = add * (1.0 - del); // a new gene is added and survives its own deletion draw
            cell("old gene survives".into(), trials * len as u64, kept, 1.0 - del);
            cell("new gene after a parent position".into(), trials * len as u64, news, q);
            if len == 1 {
                cell("child == []".into(), trials, patterns[0], del * (1.0 - q));
                cell("child == [old]".into(), trials, patterns[1], (1.0 - del) * (1.0 - q));
                cell("child == [new]".into(), trials, patterns[2], del * q);
                cell("child == [old,new]".into(), trials, patterns[3], (1.0 - del) * q);
            }
            let _ = size;
        }
        Exp::UmadCtor { ctor, add, empty, del, len } => {
            let len = *len;
            let umad = if *ctor == 1 {
                Umad::new_with_empty_rate(*add, *empty, *del, NewGenes(Cell::new(0)))
            } else {
                Umad::new_without_empty(*add, *del, NewGenes(Cell::new(0)))
            };
            let (mut kept, mut news) = (0u64, 0u64);
            for _ in 0..trials {
                let parent: Vector<u32> = (0..len as u32).collect();
                let child = umad.mutate(parent, &mut rng).ok()?.genes;
                let k = child.iter().filter(|g| **g < 1_000_000).count() as u64;
                kept += k;
                news += child.len() as u64 - k;
            }
            cell("old gene survives".into(), trials * len as u64, kept, 1.0 - del);
            cell("new gene after a parent position".into(), trials * len as u64, news, add * (1.0 - del));
        }
        Exp::PlushyGen { n, len, close, by_ref } => {
            use ec_core::distributions::collection::ConvertToCollectionGenerator;
            use push::genome::plushy::Plushy;
            let (n, len) = (*n, *len);
            let items: Vec<PushInstruction> = (0..n).map(instr).collect();
            let c = match close {
                Some(c) => f64::from(*c),
                None => 1.0 / (n as f64 + 1.0),
            };
            let d = IntoDistribution::<PushInstruction>::into_distribution(items).ok()?;
            let gg = match close {
                Some(c) => d.into_gene_generator_with_close_probability(*c),
                None => d.into_gene_generator(),
            };
            let trials = if len > 8 { trials / 4 } else { trials };
            fn tally<D: Distribution<Plushy>>(cg: &D, len: usize, trials: u64, rng: &mut FastRng) -> Option<(u64, u64, u64)> {
                let (mut first, mut last, mut all) = (0u64, 0u64, 0u64);
                let is_close = |g: &PushGene| matches!(g, PushGene::Close);
                for _ in 0..trials {
                    let p: Plushy = cg.sample(rng);
                    let genes = p.get_genes();
                    if genes.len() != len {
                        return None;
                    }
                    first += u64::from(is_close(&genes[0]));
                    last += u64::from(is_close(&genes[len - 1]));
                    all += genes.iter().filter(|g| is_close(g)).count() as u64;
                }
                Some((first, last, all))
            }
            let (first, last, all) = if *by_ref {
                tally(&gg.to_collection_generator(len), len, trials, &mut rng)?
            } else {
                tally(&gg.into_collection_generator(len), len, trials, &mut rng)?
            };
            cell("first gene of a generated Plushy is a close marker".into(), trials, first, c);
            cell("last gene of a generated Plushy is a close marker".into(), trials, last, c);
            cell("gene of a generated Plushy is a close marker (all positions)".into(), trials * len as u64, all, c);
        }
        Exp::UmadEmpty { ctor, add, empty } => {
            let (p, umad) = match ctor {
                0 => (*add, Umad::new(*add, 0.2, NewGenes(Cell::new(0)))),
                1 => (*empty, Umad::new_with_empty_rate(*add, *empty, 0.2, NewGenes(Cell::new(0)))),
                _ => (0.0, Umad::new_without_empty(*add, 0.2, NewGenes(Cell::new(0)))),
            };
            let mut added = 0u64;
            for _ in 0..trials {
                let parent: Vector<u32> = std::iter::empty().collect();
                let child = umad.mutate(parent, &mut rng).ok()?.genes;
                if child.len() > 1 {
                    return None;
                }
                added += child.len() as u64;
            }
            cell("gene added to an empty parent".into(), trials, added, p);
        }
        Exp::Uniform { container, len } => {
            let len = *len;
            let (mut total, mut first, mut last) = (0u64, 0u64, 0u64);
            // long genomes: fewer trials, and the positions around the 4096- and 8192-gene marks one by one
            let trials = if len > 500_000 {
                64
            } else if len > 2000 {
                trials / 100
            } else {
                trials
            };
            let mut marks: Vec<usize> = [4095usize, 4096, 4097, 8191, 8192, 8193].into_iter().filter(|m| *m < len).collect();
            if len > 500_000 {
                marks.extend([len - 2, len - 20, len - 37, len - 38, len - 64, len - 65, len / 2, 1 << 16]);
            }
            let mut at_mark = vec![0u64; marks.len()];
            for _ in 0..trials {
                let from_b: Vec<bool> = match container {
                    0 | 1 => {
                        let a: Vec<u32> = vec![0; len];
                        let b: Vec<u32> = vec![1; len];
                        let c = if *container == 0 { UniformXo.recombine([a, b], &mut rng).ok()? } else { UniformXo.recombine((a, b), &mut rng).ok()? };
                        c.iter().map(|x| *x == 1).collect()
                    }
                    _ => {
                        let a = Bitstring { bits: vec![false; len] };
                        let b = Bitstring { bits: vec![true; len] };
                        let c = if *container == 2 { UniformXo.recombine([a, b], &mut rng).ok()? } else { UniformXo.recombine((a, b), &mut rng).ok()? };
                        c.bits
                    }
                };
                if from_b.len() != len {
                    return None;
                }
                total += from_b.iter().filter(|x| **x).count() as u64;
                first += u64::from(from_b[0]);
                last += u64::from(from_b[len - 1]);
                for (k, m) in marks.iter().enumerate() {
                    at_mark[k] += u64::from(from_b[*m]);
                }
            }
            cell("gene taken from the second parent (all positions)".into(), trials * len as u64, total, 0.5);
            cell("first gene from the second parent".into(), trials, first, 0.5);
            cell("last gene from the second parent".into(), trials, last, 0.5);
            for (k, m) in marks.iter().enumerate() {
                cell(format!("gene {m} from the second parent"), trials, at_mark[k], 0.5);
            }
        }
        Exp::RandomBits { p, via_generator, len } => {
            let len = *len;
            let prob = p.unwrap_or(0.5);
            let (mut total, mut first, mut last) = (0u64, 0u64, 0u64);
            // probabilities far below the resolution of a 24-bit coin (or that far from 1): ~1.3 * 10^8 bits in
            // all, whatever the tier (a handful of contrary bits is then decisive)
            let trials = if prob < 1e-6 || prob > 1.0 - 1e-6 { (1u64 << 27) / len.max(1) as u64 } else { trials };
            for _ in 0..trials {
                let b: Bitstring = match (p, via_generator) {
                    (None, _) => Bitstring::random(len, &mut rng),
                    (Some(q), false) => Bitstring::random_with_probability(len, *q, &mut rng),
                    (Some(q), true) => {
                        use ec_core::distributions::collection::ConvertToCollectionGenerator;
                        ec_linear::genome::bitstring::BoolGenerator::new(*q).into_collection_generator(len).sample(&mut rng)
                    }
                };
                if b.bits.len() != len {
                    return None;
                }
                total += b.bits.iter().filter(|x| **x).count() as u64;
                first += u64::from(b.bits[0]);
                last += u64::from(b.bits[len - 1]);
            }
            cell("bit set (all positions)".into(), trials * len as u64, total, prob);
            cell("first bit set".into(), trials, first, prob);
            cell("last bit set".into(), trials, last, prob);
        }
        Exp::Endpoints { which } => {
            // exact cells (p = 0 or 1): one contrary observation is a violation
            let mut adv = simcore::SimRng::new(&simcore::RngSpec::boundary(seed, 8));
            adv.set_cap(u64::MAX);
            let n = (trials / 4).max(10_000);
            match which {
                0 | 1 => {
                    let c = if *which == 0 { 0.0f32 } else { 1.0 };
                    let items: Vec<PushInstruction> = (0..3).map(instr).collect();
                    let d = IntoDistribution::<PushInstruction>::into_distribution(items).ok()?;
                    let gg = d.into_gene_generator_with_close_probability(c);
                    let mut closes = 0u64;
                    for _ in 0..n {
                        let g: PushGene = gg.sample(&mut adv);
                        if instr_index(&g).is_none() {
                            closes += 1;
                        }
                    }
                    cell(format!("gene is a close marker (close probability {c}, adversarial stream)"), n, closes, f64::from(c));
                }
                2 | 3 => {
                    let p = if *which == 2 { 0.0f64 } else { 1.0 };
                    let mut ones = 0u64;
                    let len = 64usize;
                    for _ in 0..n / 64 {
                        let b = Bitstring::random_with_probability(len, p, &mut adv);
                        ones += b.bits.iter().filter(|x| **x).count() as u64;
                    }
                    cell(format!("bit is set (probability {p}, adversarial stream)"), (n / 64) * 64, ones, p);
                }
                _ => {
                    let r = if *which == 4 { 0.0f32 } else { 1.0 };
                    let parent: Vec<bool> = (0..64).map(|i| i % 3 == 0).collect();
                    let mut flips = 0u64;
                    for _ in 0..n / 64 {
                        let child = WithRate::new(r).mutate(Bitstring { bits: parent.clone() }, &mut adv).ok()?.bits;
                        flips += child.iter().zip(&parent).filter(|(a, b)| a != b).count() as u64;
                    }
                    cell(format!("gene flipped (rate {r}, adversarial stream)"), (n / 64) * 64, flips, f64::from(r));
                }
            }
        }
        Exp::Gene { source, n, close } => {
            let n = *n;
            // very large instruction sets: the uniform close probability 1/(n+1) is tiny; enough samples for
            // ~40 expected close markers, whatever the tier
            let trials = if n >= 65_535 && close.is_none() { 40 * (n as u64 + 1) } else { trials };
            let items: Vec<PushInstruction> = (0..n).map(instr).collect();
            let c = match close {
                Some(c) => f64::from(*c),
                None => 1.0 / (n as f64 + 1.0),
            };
            let (closes, counts) = match source {
                0 => {
                    let d = IntoDistribution::<PushInstruction>::into_distribution(items).ok()?;
                    let gg = match close {
                        Some(c) => d.into_gene_generator_with_close_probability(*c),
                        None => d.into_gene_generator(),
                    };
                    sample_genes(&gg, trials, &mut rng, n)
                }
                1 => {
                    macro_rules! arr {
                        ($($i:expr),+) => {{
                            let d = uniform_distribution_of![<PushInstruction> $(instr($i)),+];
                            let gg = match close {
                                Some(c) => d.into_gene_generator_with_close_probability(*c),
                                None => d.into_gene_generator(),
                            };
                            sample_genes(&gg, trials, &mut rng, n)
                        }};
                    }
                    match n {
                        1 => arr!(0),
                        2 => arr!(0, 1),
                        3 => arr!(0, 1, 2),
                        4 => arr!(0, 1, 2, 3),
                        5 => arr!(0, 1, 2, 3, 4),
                        6 => arr!(0, 1, 2, 3, 4, 5),
                        7 => arr!(0, 1, 2, 3, 4, 5, 6),
                        _ => arr!(0, 1, 2, 3, 4, 5, 6, 7),
                    }
                }
                2 => {
                    let slice: &[PushInstruction] = &items;
                    let d = IntoDistribution::<PushInstruction>::into_distribution(slice).ok()?;
                    let gg = match close {
                        Some(c) => d.into_gene_generator_with_close_probability(*c),
                        None => d.into_gene_generator(),
                    };
                    sample_genes(&gg, trials, &mut rng, n)
                }
                3 => {
                    // the BORROWING constructors (the by-reference flavour must agree with the by-value one)
                    let d = IntoDistribution::<PushInstruction>::into_distribution(items).ok()?;
                    let gg = match close {
                        Some(c) => d.to_gene_generator_with_close_probability(*c),
                        None => d.to_gene_generator(),
                    };
                    sample_genes(&gg, trials, &mut rng, n)
                }
                _ => {
                    // the inherent constructor
                    let d = IntoDistribution::<PushInstruction>::into_distribution(items).ok()?;
                    let gg = GeneGenerator::with_uniform_close_probability(d);
                    sample_genes(&gg, trials, &mut rng, n)
                }
            };
            cell("gene is a close marker".into(), trials, closes, c);
            if n <= 8 {
                for (i, x) in counts.iter().enumerate() {
                    cell(format!("gene is instruction #{i} of {n}"), trials, *x, (1.0 - c) / n as f64);
                }
            } else {
                // by octile of the instruction set
                for o in 0..8usize {
                    let (lo, hi) = ((o * n).div_ceil(8), ((o + 1) * n).div_ceil(8));
                    let x: u64 = counts[lo..hi].iter().sum();
                    cell(format!("gene is one of the instructions #{lo}..#{hi} of {n}"), trials, x, (1.0 - c) * (hi - lo) as f64 / n as f64);
                }
            }
        }
    }
    Some(cells)
}

struct C12 {
    exps: Vec<Exp>,
}

impl C12 {
    fn cells_total(&self) -> u64 {
        // upper bound: <= 9 cells per experiment
        self.exps.len() as u64 * 9
    }
}

impl Check for C12 {
    type Scenario = Sc;

    fn id(&self) -> &'static str {
        "C12"
    }

    fn rule(&self) -> String {
        format!(
            "{} seeded experiments (one per configuration): bit-flip WithRate at rates 0.05-0.9 and WithOneOverLength on Vec<bool>/Bitstring \
             (per-gene, first, last, neighbour-joint frequencies); UMAD survival / insertion frequencies and the four child patterns of a \
             length-1 parent (addition, deletion and new-gene deletion independent), size-preserving rate pair d = a/(1+a), empty-parent \
             addition for all three constructors; uniform crossover on four container forms; Bitstring::random / random_with_probability / \
             BoolGenerator; GeneGenerator close probability explicit and 1/(n+1) for n = 1..8 over Vec, array and slice sources with every \
             instruction's share (1-c)/n. Each frequency is compared with its exact law by the Chernoff-KL rule (total false-alarm budget 1e-9). \
             Non-trivial: every experiment; distinct = configurations",
            self.exps.len()
        )
    }

    fn chunk(&self) -> u64 {
        1
    }

    fn runs(&self, _tier: Tier) -> u64 {
        self.exps.len() as u64
    }

    fn generate(&self, g: &mut Xo, tier: Tier, run: u64) -> Sc {
        Sc {
            exp: self.exps[(run as usize) % self.exps.len()].clone(),
            trials: if tier == Tier::Quick { 300_000 } else { 5_000_000 },
            seed: g.next_u64(),
            cells_total: self.cells_total(),
        }
    }

    fn execute(&self, sc: &Sc, obs: &mut Obs) -> Vec<Violation> {
        let r = catch(|| run_experiment(&sc.exp, sc.trials, sc.seed));
        let mut v = Vec::new();
        let Ok(Some(cells)) = r else {
            // panics / structural failures are C10/C11/C18's subject
            obs.hit("probe.experiment-aborted-structurally");
            return v;
        };
        obs.count("steps", sc.trials);
        obs.nontrivial(fnv1a(format!("{:?}", sc.exp).as_bytes()));
        for c in cells {
            obs.hit("stat-cells");
            let verdict = stats::decide(c.n, c.x, c.p, sc.cells_total);
            if verdict.violated {
                let family = match &sc.exp {
                    Exp::Flip { rate: Some(_), .. } => "flip-rate",
                    Exp::Flip { rate: None, .. } => "one-over-length-rate",
                    Exp::Umad { .. } | Exp::UmadCtor { .. } => "umad-rates",
                    Exp::PlushyGen { .. } => "plushy-close-probability",
                    Exp::UmadEmpty { .. } => "umad-empty-rate",
                    Exp::Uniform { .. } => "uniform-crossover-half",
                    Exp::RandomBits { .. } => "random-bit-probability",
                    Exp::Gene { close: Some(_), .. } => "gene-close-probability",
                    Exp::Gene { close: None, .. } => "gene-uniform-close-probability",
                    Exp::Endpoints { .. } => "exact-endpoint-under-adversarial-stream",
                };
                v.push(Violation::new(
                    "configured-rate-is-applied-rate",
                    format!("{family}:{}", c.name.split(" #").next().unwrap_or(&c.name)),
                    format!(
                        "{:?}: `{}` happened {} times in {} trials ({:.5}); configured probability {:.5} (n*KL = {:.1}, threshold {:.1})",
                        sc.exp,
                        c.name,
                        c.x,
                        c.n,
                        c.x as f64 / c.n as f64,
                        c.p,
                        verdict.stat,
                        verdict.threshold
                    ),
                ));
                break;
            }
        }
        v
    }

    fn extra_coverage(
        &self,
        tier: Tier,
        _c: &std::collections::BTreeMap<String, u64>,
    ) -> serde_json::Map<String, serde_json::Value> {
        let trials = if tier == Tier::Quick { 300_000 } else { 5_000_000 };
        let mut m = serde_json::Map::new();
        m.insert(
            "stat_budget".into(),
            serde_json::json!({
                "delta_total": stats::DELTA_TOTAL,
                "cells_upper_bound": self.cells_total(),
                "trials_per_experiment": trials,
                "threshold_nKL": stats::threshold(self.cells_total()),
                "resolution_at_p_0.1_single_position": stats::resolution(trials, 0.1, self.cells_total()),
                "resolution_at_p_0.5_single_position": stats::resolution(trials, 0.5, self.cells_total()),
                "note": "f32 rounding of a rate (<= 6e-8) is far below the resolution and is not decided",
            }),
        );
        m
    }

    fn assumptions(&self) -> Vec<String> {
        vec![
            "UMAD's law: per parent gene, delete w.p. d, add w.p. a, the added gene is itself deleted w.p. d, all independent; empty parent: one gene w.p. the empty-genome rate".into(),
            "decisions are statistical (Chernoff-KL, total false-alarm budget 1e-9); biases below the stated resolution are invisible".into(),
            "rates 0 and 1 are decided exactly by C11, not here".into(),
        ]
    }

    fn real_components(&self) -> Vec<&'static str> {
        vec!["ec-linear WithRate, WithOneOverLength, Umad, UniformXo, Bitstring generators", "push GeneGenerator + ec-core distribution wrappers", "rand 0.9.0"]
    }

    fn stub_components(&self) -> Vec<&'static str> {
        vec!["FastRng stream", "probe gene generator for UMAD"]
    }
}

fn main() {
    main_for(C12 { exps: experiments() });
}
