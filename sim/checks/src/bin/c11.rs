//! C11 — mutation keeps genome structure: flips stay in place, UMAD only
//! inserts/deletes. Tagged genes, a logging probe gene generator, seeded and
//! boundary streams (DESIGN §5 C11, engine E1).

use std::cell::RefCell;

use ec_core::operator::mutator::Mutator;
use ec_linear::{
    genome::{bitstring::Bitstring, vector::Vector},
    mutator::{umad::Umad, with_one_over_length::WithOneOverLength, with_rate::WithRate},
};
use push::{
    genome::plushy::{Plushy, PushGene},
    instruction::{IntInstruction, PushInstruction},
};
use rand::{distr::Distribution, Rng};
use serde::{Deserialize, Serialize};
use simcore::{catch, fnv1a, main_for, mix, Check, Obs, RngSpec, Tier, Violation, Xo};

/// Position-tagged gene with a `Not`: flipping toggles `flipped`, nothing else.
#[derive(Clone, Copy, Debug, PartialEq, Eq)]
struct G {
    pos: u32,
    flipped: bool,
}

impl std::ops::Not for G {
    type Output = G;

    fn not(self) -> G {
        G { pos: self.pos, flipped: !self.flipped }
    }
}

#[derive(Serialize, Deserialize, Clone, Copy, Debug, PartialEq, Eq)]
enum FlipContainer {
    VecG,
    VectorG,
    VecBool,
    Bits,
}

#[derive(Serialize, Deserialize, Clone, Copy, Debug, PartialEq, Eq)]
enum UmadCtor {
    New,
    WithEmptyRate,
    WithoutEmpty,
}

#[derive(Serialize, Deserialize, Clone, Copy, Debug, PartialEq, Eq)]
enum UmadGenome {
    VectorU32,
    Plushy,
    /// `Vector<()>`: zero-sized genes (a unit-like marker gene); only lengths and counts can be observed
    VectorUnit,
    /// a user-defined linear genome kept in segments, whose iterator does not know its length in advance
    Segmented,
}

/// A lawful linear genome of the user's own: genes kept in segments of three, iterated by flattening (the iterator's
/// `size_hint` is `(0, None)` at the start), rebuilt from any iterator of genes.
struct Segmented {
    parts: Vec<Vec<u32>>,
}

impl ec_core::genome::Genome for Segmented {
    type Gene = u32;
}

impl ec_linear::genome::Linear for Segmented {
    fn size(&self) -> usize {
        self.parts.iter().map(Vec::len).sum()
    }

    fn gene_mut(&mut self, index: usize) -> Option<&mut u32> {
        self.parts.iter_mut().flatten().nth(index)
    }
}

impl IntoIterator for Segmented {
    type Item = u32;
    type IntoIter = std::iter::Flatten<std::vec::IntoIter<Vec<u32>>>;

    fn into_iter(self) -> Self::IntoIter {
        self.parts.into_iter().flatten()
    }
}

impl FromIterator<u32> for Segmented {
    fn from_iter<T: IntoIterator<Item = u32>>(iter: T) -> Self {
        let all: Vec<u32> = iter.into_iter().collect();
        Self { parts: all.chunks(3).map(<[u32]>::to_vec).collect() }
    }
}

#[derive(Serialize, Deserialize, Clone, Debug)]
enum Sc {
    Flip {
        /// None = WithOneOverLength, Some(bits) = WithRate(f32::from_bits)
        rate_bits: Option<u32>,
        container: FlipContainer,
        len: usize,
        rng: RngSpec,
    },
    Umad {
        ctor: UmadCtor,
        add: f64,
        empty: f64,
        del: f64,
        genome: UmadGenome,
        len: usize,
        /// Plushy only: bit i set => parent gene i is a `Close` marker
        #[serde(default)]
        close_mask: u64,
        rng: RngSpec,
    },
}

const NEW_BASE: u32 = 1 << 30;

/// Probe gene generator: hands out serials >= 10^6, logs every sample, and
/// consumes one word of the stream it is handed like a real generator would.
struct ProbeGen {
    log: RefCell<Vec<u32>>,
}

impl ProbeGen {
    fn next(&self, rng: &mut (impl Rng + ?Sized)) -> u32 {
        let _ = rng.next_u32();
        let mut l = self.log.borrow_mut();
        let v = NEW_BASE + l.len() as u32;
        l.push(v);
        v
    }
}

impl Distribution<u32> for ProbeGen {
    fn sample<R: Rng + ?Sized>(&self, rng: &mut R) -> u32 {
        self.next(rng)
    }
}

impl Distribution<()> for ProbeGen {
    fn sample<R: Rng + ?Sized>(&self, rng: &mut R) {
        let _ = self.next(rng);
    }
}

impl Distribution<PushGene> for ProbeGen {
    fn sample<R: Rng + ?Sized>(&self, rng: &mut R) -> PushGene {
        PushGene::Instruction(PushInstruction::push_int(i64::from(self.next(rng))))
    }
}

/// Close markers carry no tag; they are encoded as this value.
const CLOSE: u32 = u32::MAX;

fn gene_value(g: &PushGene) -> Option<u32> {
    match g {
        PushGene::Close => Some(CLOSE),
        PushGene::Instruction(PushInstruction::IntInstruction(IntInstruction::Push(p))) => {
            u32::try_from(p.0).ok().filter(|v| *v != CLOSE)
        }
        PushGene::Instruction(_) => None,
    }
}

fn check_flip(rate_bits: Option<u32>, container: FlipContainer, len: usize, spec: &RngSpec, obs: &mut Obs) -> Vec<Violation> {
    let mut rng = spec.build();
    if len > 200_000 {
        // one decision per gene (the default cap on draws per operation is for small inputs)
        rng.set_cap(4 * len as u64 + 1000);
        obs.hit("probe.flip-mutation-of-more-than-2^24-genes");
    }
    let site = format!("{}/{container:?}", if rate_bits.is_some() { "WithRate" } else { "WithOneOverLength" });
    let rate = rate_bits.map(f32::from_bits);
    // returns (child tags or bools, original bools)
    enum Child {
        Tagged(Vec<G>),
        Bools(Vec<bool>, Vec<bool>),
    }
    let mut g = Xo::from_seed(spec.seed ^ 0xB175);
    let r = catch(|| -> Result<Child, String> {
        let tagged: Vec<G> = (0..len).map(|i| G { pos: i as u32, flipped: false }).collect();
        let bools: Vec<bool> = (0..len).map(|_| g.coin()).collect();
        Ok(match (container, rate) {
            (FlipContainer::VecG, Some(r)) => Child::Tagged(WithRate::new(r).mutate(tagged, &mut rng).map_err(|e| e.to_string())?),
            (FlipContainer::VecG, None) => Child::Tagged(WithOneOverLength.mutate(tagged, &mut rng).map_err(|e| e.to_string())?),
            (FlipContainer::VectorG, Some(r)) => Child::Tagged(
                WithRate::new(r).mutate(Vector { genes: tagged }, &mut rng).map_err(|e| e.to_string())?.genes,
            ),
            (FlipContainer::VectorG, None) => Child::Tagged(
                WithOneOverLength.mutate(Vector { genes: tagged }, &mut rng).map_err(|e| e.to_string())?.genes,
            ),
            (FlipContainer::VecBool, Some(r)) => {
                Child::Bools(WithRate::new(r).mutate(bools.clone(), &mut rng).map_err(|e| e.to_string())?, bools)
            }
            (FlipContainer::VecBool, None) => {
                Child::Bools(WithOneOverLength.mutate(bools.clone(), &mut rng).map_err(|e| e.to_string())?, bools)
            }
            (FlipContainer::Bits, Some(r)) => Child::Bools(
                WithRate::new(r).mutate(Bitstring { bits: bools.clone() }, &mut rng).map_err(|e| e.to_string())?.bits,
                bools,
            ),
            (FlipContainer::Bits, None) => Child::Bools(
                WithOneOverLength.mutate(Bitstring { bits: bools.clone() }, &mut rng).map_err(|e| e.to_string())?.bits,
                bools,
            ),
        })
    });
    obs.count("draws", rng.draws());
    obs.count("fault.adversarial-stream-words", rng.boundary_fired());
    let mut v = Vec::new();
    let child = match r {
        Err(p) => {
            v.push(Violation::new(
                "never-panics",
                format!("panic:{site}"),
                format!("flip mutation of a length-{len} genome (rate {rate:?}) panicked: {}", p.message),
            ));
            return v;
        }
        Ok(Err(e)) => {
            v.push(Violation::new(
                "flip-total",
                format!("error:{site}"),
                format!("flip mutation of a length-{len} genome (rate {rate:?}) failed: {e}"),
            ));
            return v;
        }
        Ok(Ok(c)) => c,
    };
    let flips: Vec<bool> = match &child {
        Child::Tagged(c) => {
            if c.len() != len {
                v.push(Violation::new(
                    "same-length",
                    format!("length:{site}"),
                    format!("length-{len} genome mutated into length {}", c.len()),
                ));
                return v;
            }
            for (i, g) in c.iter().enumerate() {
                if g.pos as usize != i {
                    v.push(Violation::new(
                        "flips-stay-in-place",
                        format!("moved-gene:{site}"),
                        format!("gene at position {i} of the child is the parent's gene {} (flipped={})", g.pos, g.flipped),
                    ));
                    return v;
                }
            }
            c.iter().map(|g| g.flipped).collect()
        }
        Child::Bools(c, orig) => {
            if c.len() != len {
                v.push(Violation::new(
                    "same-length",
                    format!("length:{site}"),
                    format!("length-{len} genome mutated into length {}", c.len()),
                ));
                return v;
            }
            c.iter().zip(orig).map(|(a, b)| a != b).collect()
        }
    };
    let n_flipped = flips.iter().filter(|f| **f).count();
    // degenerate-rate identities
    if let Some(r) = rate {
        if r <= 0.0 && n_flipped != 0 {
            obs.hit("probe.rate-0");
            v.push(Violation::new(
                "rate-0-is-identity",
                format!("rate0:{site}"),
                format!("rate {r}: {n_flipped} of {len} genes were flipped"),
            ));
        }
        if r <= 0.0 {
            obs.hit("probe.rate-0");
        }
        if r >= 1.0 {
            obs.hit("probe.rate>=1");
            if n_flipped != len {
                v.push(Violation::new(
                    "rate-1-flips-all",
                    format!("rate1:{site}"),
                    format!("rate {r}: only {n_flipped} of {len} genes were flipped"),
                ));
            }
        }
    } else if len == 1 {
        // 1/length == 1: the single gene is always flipped
        obs.hit("probe.one-over-length-with-length-1");
        if n_flipped != 1 {
            v.push(Violation::new(
                "rate-1-flips-all",
                format!("rate1:{site}"),
                "length-1 genome with rate 1/length = 1 was not flipped".to_string(),
            ));
        }
    }
    if len >= 2 {
        let mut fp = fnv1a(site.as_bytes());
        fp = mix(fp, u64::from(rate_bits.unwrap_or(7)));
        for f in &flips {
            fp = mix(fp, u64::from(*f));
        }
        obs.nontrivial(fp);
    }
    v
}

#[allow(clippy::too_many_arguments, clippy::too_many_lines)]
fn check_umad(
    ctor: UmadCtor,
    add: f64,
    empty: f64,
    del: f64,
    genome: UmadGenome,
    len: usize,
    close_mask: u64,
    spec: &RngSpec,
    obs: &mut Obs,
) -> Vec<Violation> {
    let mut rng = spec.build();
    if len > 200_000 {
        rng.set_cap(8 * len as u64 + 1000);
        obs.hit("probe.umad-on-more-than-10^6-genes");
    }
    let site = format!("Umad::{ctor:?}/{genome:?}");
    let close_mask = if genome == UmadGenome::Plushy && len > 0 { close_mask & ((1u64 << len.min(63)) - 1) } else { 0 };
    let is_close = |i: usize| i < 63 && close_mask >> i & 1 == 1;
    let probe = ProbeGen { log: RefCell::new(Vec::new()) };
    if genome == UmadGenome::VectorUnit {
        let r = catch(|| {
            let umad = match ctor {
                UmadCtor::New => Umad::new(add, del, &probe),
                UmadCtor::WithEmptyRate => Umad::new_with_empty_rate(add, empty, del, &probe),
                UmadCtor::WithoutEmpty => Umad::new_without_empty(add, del, &probe),
            };
            let parent: Vector<()> = Vector { genes: vec![(); len] };
            match umad.mutate(parent, &mut rng) {
                Ok(c) => c.genes.len(),
                Err(e) => match e {},
            }
        });
        obs.count("draws", rng.draws());
        obs.count("fault.adversarial-stream-words", rng.boundary_fired());
        obs.hit("probe.umad-on-zero-sized-genes");
        let made = probe.log.borrow().len();
        let cfg = format!("add {add}, empty {empty}, del {del}, len {len}, zero-sized genes");
        let mut v = Vec::new();
        match r {
            Err(p) => v.push(Violation::new(
                "never-panics",
                format!("panic:{site}"),
                format!("UMAD(add {add}, empty {empty}, del {del}) of a length-{len} genome of zero-sized genes panicked: {}", p.message),
            )),
            Ok(n) => {
                let limit = if len > 0 { 2 * len } else { usize::from(ctor != UmadCtor::WithoutEmpty) };
                if n > limit || n > len + made {
                    v.push(Violation::new(
                        "at-most-one-insert-per-position",
                        format!("insert-count:{site}"),
                        format!("{cfg}: the child has {n} genes; the generator produced {made} and at most {limit} are possible"),
                    ));
                }
                if len > 0 && add <= 0.0 && del <= 0.0 && n != len {
                    v.push(Violation::new("rate-0-is-identity", format!("rate0:{site}"), format!("{cfg}: the child has {n} genes")));
                }
                if len > 0 && del >= 1.0 && n > made {
                    v.push(Violation::new(
                        "delete-rate-1",
                        format!("del1:{site}"),
                        format!("{cfg}: deletion rate 1 but the child has {n} genes with only {made} generated"),
                    ));
                }
            }
        }
        obs.nontrivial(mix(mix(0x2e57, len as u64), (add * 1000.0) as u64 ^ ((del * 1000.0) as u64) << 12));
        return v;
    }
    let r = catch(|| -> Vec<Option<u32>> {
        let umad = match ctor {
            UmadCtor::New => Umad::new(add, del, &probe),
            UmadCtor::WithEmptyRate => Umad::new_with_empty_rate(add, empty, del, &probe),
            UmadCtor::WithoutEmpty => Umad::new_without_empty(add, del, &probe),
        };
        if spec.seed % 3 == 0 {
            // the mutator VALUE is used once before the checked call, on a parent of another length (an empty
            // one if the checked parent is not, and vice versa); what the probe generator logged is forgotten
            let other: Vector<u32> = if len == 0 { (500..507).collect() } else { Vector { genes: Vec::new() } };
            let mut wr = simcore::SimRng::seeded(spec.seed ^ 0x0a11);
            let _ = umad.mutate(other, &mut wr);
            probe.log.borrow_mut().clear();
        }
        match genome {
            UmadGenome::VectorU32 => {
                let parent: Vector<u32> = (0..len as u32).collect();
                match umad.mutate(parent, &mut rng) {
                    Ok(c) => c.genes.into_iter().map(Some).collect(),
                    Err(e) => match e {},
                }
            }
            UmadGenome::Segmented => {
                let parent: Segmented = (0..len as u32).collect();
                match umad.mutate(parent, &mut rng) {
                    Ok(c) => c.into_iter().map(Some).collect(),
                    Err(e) => match e {},
                }
            }
            UmadGenome::VectorUnit => Vec::new(), // (handled above)
            UmadGenome::Plushy => {
                let parent = Plushy::new((0..len).map(|i| {
                    if is_close(i) {
                        PushGene::Close
                    } else {
                        PushGene::Instruction(PushInstruction::push_int(i as i64))
                    }
                }));
                match umad.mutate(parent, &mut rng) {
                    Ok(c) => c.get_genes().iter().map(gene_value).collect(),
                    Err(e) => match e {},
                }
            }
        }
    });
    obs.count("draws", rng.draws());
    obs.count("fault.adversarial-stream-words", rng.boundary_fired());
    let mut v = Vec::new();
    let child = match r {
        Err(p) => {
            v.push(Violation::new(
                "never-panics",
                format!("panic:{site}"),
                format!("UMAD(add {add}, empty {empty}, del {del}) of a length-{len} genome panicked: {}", p.message),
            ));
            return v;
        }
        Ok(c) => c,
    };
    let log = probe.log.borrow().clone();
    let cfg = format!("add {add}, empty {empty}, del {del}, len {len}, close mask {close_mask:#b}");
    if close_mask != 0 {
        obs.hit("probe.plushy-parent-with-close-markers");
        if close_mask & 1 == 1 {
            obs.hit("probe.plushy-parent-starts-with-close");
        }
        return check_umad_with_closes(&site, &cfg, &child, &log, len, close_mask, add, del, obs);
    }
    // parse the child
    let mut olds: Vec<usize> = Vec::new();
    let mut news: Vec<u32> = Vec::new();
    // gaps[k] = number of new genes after the k-th kept old gene (gaps[0] = before the first)
    let mut gaps: Vec<usize> = vec![0];
    for g in &child {
        match g {
            None => {
                v.push(Violation::new(
                    "genes-from-parent-or-generator",
                    format!("alien-gene:{site}"),
                    format!("{cfg}: the child contains a gene that is neither a parent gene nor one the generator produced"),
                ));
                return v;
            }
            Some(x) if *x >= NEW_BASE => {
                news.push(*x);
                *gaps.last_mut().unwrap_or(&mut 0) += 1;
            }
            Some(x) => {
                olds.push(*x as usize);
                gaps.push(0);
            }
        }
    }
    if olds.iter().any(|p| *p >= len) {
        v.push(Violation::new(
            "genes-from-parent-or-generator",
            format!("alien-gene:{site}"),
            format!("{cfg}: the child contains old gene value(s) {olds:?} not present in the parent"),
        ));
        return v;
    }
    if olds.windows(2).any(|w| w[0] >= w[1]) {
        v.push(Violation::new(
            "survivors-keep-order",
            format!("order:{site}"),
            format!("{cfg}: surviving parent genes appear as {olds:?} (not a subsequence in original order)"),
        ));
    }
    // new genes: a subsequence of this call's generator log, in log order
    {
        let mut it = log.iter();
        let ok = news.iter().all(|n| it.any(|l| l == n));
        if !ok {
            v.push(Violation::new(
                "new-genes-from-generator",
                format!("new-genes:{site}"),
                format!("{cfg}: new genes {news:?} are not (in order) among the genes the generator produced in this call {log:?}"),
            ));
        }
    }
    if len == 0 {
        obs.hit("probe.empty-parent");
        let limit = if ctor == UmadCtor::WithoutEmpty { 0 } else { 1 };
        if child.len() > limit {
            v.push(Violation::new(
                "empty-parent",
                format!("empty-parent:{site}"),
                format!("{cfg}: an empty parent produced {} genes (allowed: {limit})", child.len()),
            ));
        }
        let e = match ctor {
            UmadCtor::New => add,
            UmadCtor::WithEmptyRate => empty,
            UmadCtor::WithoutEmpty => 0.0,
        };
        if e >= 1.0 && child.len() != 1 {
            v.push(Violation::new(
                "empty-parent",
                format!("empty-parent-rate1:{site}"),
                format!("{cfg}: empty-genome addition rate 1 but the child has {} genes", child.len()),
            ));
        }
        if e <= 0.0 && !child.is_empty() {
            v.push(Violation::new(
                "empty-parent",
                format!("empty-parent-rate0:{site}"),
                format!("{cfg}: empty-genome addition rate 0 but the child has {} genes", child.len()),
            ));
        }
    } else if v.is_empty() {
        // at most one new gene per parent position: between kept p and the
        // next kept q there are q - p slots; before the first kept q0: q0
        // slots; after the last kept p: len - p slots
        let mut bound_ok = true;
        let mut prev: Option<usize> = None;
        for (k, gap) in gaps.iter().enumerate() {
            let next = olds.get(k).copied();
            let slots = match (prev, next) {
                (None, Some(q)) => q,
                (Some(p), Some(q)) => q - p,
                (Some(p), None) => len - p,
                (None, None) => len,
            };
            if *gap > slots {
                bound_ok = false;
            }
            prev = next.or(prev);
        }
        if !bound_ok {
            v.push(Violation::new(
                "at-most-one-insert-per-position",
                format!("insert-count:{site}"),
                format!("{cfg}: child {child:?} has more new genes in a gap than parent positions it spans"),
            ));
        }
    }
    // degenerate rates
    if len > 0 {
        if add <= 0.0 && del <= 0.0 {
            obs.hit("probe.umad-rate-0");
            if olds.len() != len || !news.is_empty() {
                v.push(Violation::new(
                    "rate-0-is-identity",
                    format!("rate0:{site}"),
                    format!("{cfg}: child {child:?} is not the parent"),
                ));
            }
        }
        if del >= 1.0 {
            obs.hit("probe.umad-deletion-1");
            if !child.is_empty() {
                v.push(Violation::new(
                    "deletion-1-empties",
                    format!("del1:{site}"),
                    format!("{cfg}: deletion rate 1 left {} genes", child.len()),
                ));
            }
        }
        if add >= 1.0 && del <= 0.0 {
            obs.hit("probe.umad-addition-1-deletion-0");
            let alternates = child.len() == 2 * len
                && child.chunks(2).enumerate().all(|(i, c)| c[0] == Some(i as u32) && c[1].is_some_and(|x| x >= NEW_BASE));
            if !alternates {
                v.push(Violation::new(
                    "addition-1-alternates",
                    format!("add1:{site}"),
                    format!("{cfg}: child {child:?} is not old,new,old,new,..."),
                ));
            }
        }
    }
    if len >= 2 && (!news.is_empty() || olds.len() < len) {
        let mut fp = fnv1a(site.as_bytes());
        fp = mix(fp, len as u64);
        for g in &child {
            fp = mix(fp, g.map_or(0, |x| if x >= NEW_BASE { u64::from(NEW_BASE) } else { u64::from(x) }));
        }
        obs.nontrivial(fp);
    }
    v
}

/// Parents that contain (untagged) `Close` markers: the surviving old genes
/// must still be a subsequence of the parent, new genes come from the
/// generator, and the degenerate-rate identities hold exactly.
#[allow(clippy::too_many_arguments)]
fn check_umad_with_closes(
    site: &str,
    cfg: &str,
    child: &[Option<u32>],
    log: &[u32],
    len: usize,
    close_mask: u64,
    add: f64,
    del: f64,
    obs: &mut Obs,
) -> Vec<Violation> {
    let mut v = Vec::new();
    let parent: Vec<u32> = (0..len).map(|i| if i < 63 && close_mask >> i & 1 == 1 { CLOSE } else { i as u32 }).collect();
    let mut olds: Vec<u32> = Vec::new();
    let mut news: Vec<u32> = Vec::new();
    for g in child {
        match g {
            None => {
                v.push(Violation::new(
                    "genes-from-parent-or-generator",
                    format!("alien-gene:{site}"),
                    format!("{cfg}: the child contains a gene that is neither a parent gene nor one the generator produced"),
                ));
                return v;
            }
            Some(x) if *x >= NEW_BASE && *x != CLOSE => news.push(*x),
            Some(x) => olds.push(*x),
        }
    }
    {
        let mut it = parent.iter();
        if !olds.iter().all(|o| it.any(|p| p == o)) {
            v.push(Violation::new(
                "survivors-keep-order",
                format!("order:{site}"),
                format!("{cfg}: surviving parent genes {olds:?} are not a subsequence of the parent {parent:?} (Close = {CLOSE})"),
            ));
        }
    }
    {
        let mut it = log.iter();
        if !news.iter().all(|n| it.any(|l| l == n)) {
            v.push(Violation::new(
                "new-genes-from-generator",
                format!("new-genes:{site}"),
                format!("{cfg}: new genes {news:?} are not (in order) among the generator's {log:?}"),
            ));
        }
    }
    if news.len() > len {
        v.push(Violation::new(
            "at-most-one-insert-per-position",
            format!("insert-count:{site}"),
            format!("{cfg}: {} new genes for {len} parent positions", news.len()),
        ));
    }
    let as_vec: Vec<u32> = child.iter().map(|g| g.unwrap_or(0)).collect();
    if add <= 0.0 && del <= 0.0 {
        obs.hit("probe.umad-rate-0");
        if as_vec != parent {
            v.push(Violation::new(
                "rate-0-is-identity",
                format!("rate0:{site}"),
                format!("{cfg}: child {as_vec:?} is not the parent {parent:?} (Close = {CLOSE})"),
            ));
        }
    }
    if del >= 1.0 {
        obs.hit("probe.umad-deletion-1");
        if !child.is_empty() {
            v.push(Violation::new("deletion-1-empties", format!("del1:{site}"), format!("{cfg}: deletion rate 1 left {} genes", child.len())));
        }
    }
    if add >= 1.0 && del <= 0.0 {
        obs.hit("probe.umad-addition-1-deletion-0");
        let alternates = as_vec.len() == 2 * len
            && as_vec.chunks(2).enumerate().all(|(i, c)| c[0] == parent[i] && c[1] >= NEW_BASE && c[1] != CLOSE);
        if !alternates {
            v.push(Violation::new(
                "addition-1-alternates",
                format!("add1:{site}"),
                format!("{cfg}: child {as_vec:?} is not old,new,old,new,... of parent {parent:?} (Close = {CLOSE})"),
            ));
        }
    }
    if len >= 2 {
        let mut fp = fnv1a(site.as_bytes());
        fp = mix(fp, close_mask);
        for g in &as_vec {
            fp = mix(fp, if *g >= NEW_BASE && *g != CLOSE { u64::from(NEW_BASE) } else { u64::from(*g) });
        }
        obs.nontrivial(fp);
    }
    v
}

struct C11;

const RATES64: [f64; 9] = [0.0, 0.0, 5.960_464_477_539_063e-8, 0.1, 0.5, 0.9, 0.999_999_940_395_355_2, 1.0, 1.0];

impl Check for C11 {
    type Scenario = Sc;

    fn id(&self) -> &'static str {
        "C11"
    }

    fn declared_probes(&self) -> Vec<&'static str> {
        vec![
            "fault.adversarial-stream-words",
            "probe.empty-parent",
            "probe.one-over-length-with-length-1",
            "probe.plushy-parent-starts-with-close",
            "probe.plushy-parent-with-close-markers",
            "probe.rate-0",
            "probe.rate>=1",
            "probe.umad-addition-1-deletion-0",
            "probe.umad-deletion-1",
            "probe.umad-on-zero-sized-genes",
            "probe.umad-rate-0",
        ]
    }

    fn rule(&self) -> String {
        "seeded single mutations: WithRate / WithOneOverLength on Vec<tagged>, Vector<tagged>, Vec<bool>, Bitstring; Umad (3 constructors) on \
         Vector<u32> and Plushy with a logging probe gene generator (disjoint alphabet); lengths 0-12; rates from {0, 2^-24, 0.1, 0.5, 0.9, \
         1-2^-24, 1, 1.5 (flip only)}; seeded and boundary streams. Non-trivial iff length >= 2 and (flip) any pattern / (UMAD) at least one \
         gene inserted or deleted; distinct = distinct (site, rate, per-position outcome pattern)"
            .into()
    }

    fn runs(&self, tier: Tier) -> u64 {
        match tier {
            Tier::Quick => 5_000_000,
            Tier::Thorough => 600_000_000,
        }
    }

    fn generate(&self, g: &mut Xo, _tier: Tier, run: u64) -> Sc {
        let len = match g.below(8) {
            0 => 0,
            1 => 1,
            // word / block / integer-width boundaries (rare: the cost grows with the length)
            2 if g.chance(1, 60) => {
                if g.chance(1, 6) {
                    *g.pick(&[65_535usize, 65_536, 65_537, 70_000])
                } else if g.coin() {
                    g.log_uniform(13, 100_000)
                } else {
                    *g.pick(&[31usize, 32, 33, 63, 64, 65, 127, 128, 129, 255, 256, 257, 1023, 1024, 1025, 4096])
                }
            }
            _ => g.urange(0, 12),
        };
        // every fourth scenario sweeps the lengths 0..=640 densely (by run index)
        let len = if run % 4 == 1 { ((run / 4) % 641) as usize } else { len };
        let rng = RngSpec::swarm(g);
        if run % 100_000 == 70_001 {
            // genomes whose length is not a number an f32 can hold (2^24 + 1, + 3, 2^25 + 2): 1 / length is still a
            // rate, and the genome is still mutated gene by gene (sizes fixed by the run index)
            let k = run / 100_000;
            let len = [(1usize << 24) + 1, (1 << 24) + 3, (1 << 25) + 2, (1 << 24) + 1][(k % 4) as usize];
            let container = [FlipContainer::VecBool, FlipContainer::Bits][((k / 4) % 2) as usize];
            return Sc::Flip { rate_bits: None, container, len, rng: RngSpec::seeded(rng.seed) };
        }
        if run % 1_000_000 == 300_007 {
            // children of more than 2^21 genes (sizes fixed by the run index): nothing may be capped on the way
            let k = run / 1_000_000;
            let genome = [UmadGenome::Plushy, UmadGenome::VectorU32, UmadGenome::Plushy, UmadGenome::Segmented][(k % 4) as usize];
            let (add, del, len) = [(1.0, 0.0, 1_100_000usize), (1.0, 0.0, 2_200_000), (0.0, 0.0, 2_200_000), (0.5, 0.0, 1_500_000)][((k / 4) % 4) as usize];
            return Sc::Umad { ctor: UmadCtor::New, add, empty: 0.0, del, genome, len, close_mask: g.next_u64(), rng: RngSpec::seeded(rng.seed) };
        }
        if g.coin() {
            let rate_bits = if g.chance(1, 3) {
                None
            } else {
                Some(
                    (*g.pick(&[0.0f32, 0.0, 5.960_464_5e-8, 0.1, 0.5, 0.9, 0.999_999_94, 1.0, 1.0, 1.5]))
                        .to_bits(),
                )
            };
            let container = *g.pick(&[FlipContainer::VecG, FlipContainer::VectorG, FlipContainer::VecBool, FlipContainer::Bits]);
            Sc::Flip { rate_bits, container, len, rng }
        } else {
            Sc::Umad {
                ctor: *g.pick(&[UmadCtor::New, UmadCtor::WithEmptyRate, UmadCtor::WithoutEmpty]),
                add: *g.pick(&RATES64),
                empty: *g.pick(&RATES64),
                del: *g.pick(&RATES64),
                genome: if g.chance(1, 12) { UmadGenome::VectorUnit } else { *g.pick(&[UmadGenome::VectorU32, UmadGenome::Plushy, UmadGenome::Segmented]) },
                len,
                close_mask: match g.below(4) {
                    0 | 1 => 0,
                    2 => g.next_u64() & g.next_u64(),
                    _ => g.next_u64() | 1, // starts with Close
                },
                rng,
            }
        }
    }

    fn execute(&self, sc: &Sc, obs: &mut Obs) -> Vec<Violation> {
        match sc {
            Sc::Flip { rate_bits, container, len, rng } => check_flip(*rate_bits, *container, *len, rng, obs),
            Sc::Umad { ctor, add, empty, del, genome, len, close_mask, rng } => {
                check_umad(*ctor, *add, *empty, *del, *genome, *len, *close_mask, rng, obs)
            }
        }
    }

    fn shrink(&self, sc: &Sc) -> Vec<Sc> {
        let mut out = Vec::new();
        let simpler_rng = |r: &RngSpec| -> Vec<RngSpec> {
            let mut v = Vec::new();
            if r.q16 != 0 {
                v.push(RngSpec::seeded(r.seed));
            }
            for s in 0..3u64 {
                if r.seed != s {
                    v.push(RngSpec { seed: s, ..r.clone() });
                }
            }
            v
        };
        match sc {
            Sc::Flip { rate_bits, container, len, rng } => {
                if *len > 0 {
                    out.push(Sc::Flip { rate_bits: *rate_bits, container: *container, len: len - 1, rng: rng.clone() });
                }
                for r in simpler_rng(rng) {
                    out.push(Sc::Flip { rate_bits: *rate_bits, container: *container, len: *len, rng: r });
                }
            }
            Sc::Umad { ctor, add, empty, del, genome, len, close_mask, rng } => {
                let mk = |len: usize, rng: RngSpec, genome: UmadGenome| Sc::Umad {
                    ctor: *ctor,
                    add: *add,
                    empty: *empty,
                    del: *del,
                    genome,
                    len,
                    close_mask: *close_mask,
                    rng,
                };
                if *close_mask != 0 {
                    out.push(Sc::Umad {
                        ctor: *ctor,
                        add: *add,
                        empty: *empty,
                        del: *del,
                        genome: *genome,
                        len: *len,
                        close_mask: 0,
                        rng: rng.clone(),
                    });
                }
                if *len > 0 {
                    out.push(mk(len - 1, rng.clone(), *genome));
                }
                if *genome == UmadGenome::Plushy {
                    out.push(mk(*len, rng.clone(), UmadGenome::VectorU32));
                }
                for r in simpler_rng(rng) {
                    out.push(mk(*len, r, *genome));
                }
            }
        }
        out
    }

    fn assumptions(&self) -> Vec<String> {
        vec![
            "new genes must be a subsequence (in order) of the genes the probe generator produced in this call; unused samples are tolerated".into(),
            "rates outside [0,1] are only given to the bit-flip mutators (rand's random_bool documents a panic for them)".into(),
        ]
    }

    fn real_components(&self) -> Vec<&'static str> {
        vec!["ec-linear (WithRate, WithOneOverLength, Umad, Bitstring, Vector)", "push::genome::plushy::Plushy", "rand 0.9.0"]
    }

    fn stub_components(&self) -> Vec<&'static str> {
        vec!["SimRng stream", "probe gene generator"]
    }
}

fn main() {
    main_for(C11);
}
