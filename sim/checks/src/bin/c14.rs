//! C14 — composed operators run their parts in order and stop at the first
//! failure. Fault enumeration over pipelines of probe operators: every shape is
//! written once (macro) as the real generic expression and as a model AST; the
//! model interpreter predicts log, output, rng consumption and error path for
//! a fault at every probe call (DESIGN §5 C14).

use std::{cell::RefCell, error::Error as StdError, fmt};

use ec_core::{
    individual::{ec::EcIndividual, scorer::FnScorer},
    operator::{
        composable::Composable,
        constant::Constant,
        genome_extractor::GenomeExtractor,
        genome_scorer::GenomeScorer,
        identity::Identity,
        mutator::{Mutate, Mutator},
        recombinator::{Recombinator, Recombine},
        selector::{Select, Selector},
        DynOperator, Operator,
    },
};
use rand::{Rng, RngCore};
use serde::{Deserialize, Serialize};
use simcore::{catch, main_for, mix, Check, Obs, RngSpec, SimRng, Tier, Violation, Xo};

// ---------------------------------------------------------------------------
// values

#[derive(Clone, Debug, PartialEq, Eq)]
enum Val {
    U(u64),
    Pair(Box<Val>, Box<Val>),
    Arr(Vec<Val>),
    List(Vec<Val>),
    Ind(u64, u64),
}

impl Val {
    fn fp(&self) -> u64 {
        match self {
            Val::U(x) => mix(1, *x),
            Val::Pair(a, b) => mix(mix(2, a.fp()), b.fp()),
            Val::Arr(v) => v.iter().fold(mix(3, v.len() as u64), |h, x| mix(h, x.fp())),
            Val::List(v) => v.iter().fold(mix(4, v.len() as u64), |h, x| mix(h, x.fp())),
            Val::Ind(g, s) => mix(mix(5, *g), *s),
        }
    }
}

type Ind = EcIndividual<u64, u64>;

/// Real-side values: fingerprint (must agree with `Val::fp`) and conversion.
trait V {
    fn to_val(&self) -> Val;
    fn fp(&self) -> u64 {
        self.to_val().fp()
    }
}

impl V for u64 {
    fn to_val(&self) -> Val {
        Val::U(*self)
    }
}

impl V for Val {
    fn to_val(&self) -> Val {
        self.clone()
    }
}

impl<T: V> V for &T {
    fn to_val(&self) -> Val {
        (**self).to_val()
    }
}

impl<A: V, B: V> V for (A, B) {
    fn to_val(&self) -> Val {
        Val::Pair(Box::new(self.0.to_val()), Box::new(self.1.to_val()))
    }
}

impl<A: V, const N: usize> V for [A; N] {
    fn to_val(&self) -> Val {
        Val::Arr(self.iter().map(V::to_val).collect())
    }
}

impl<A: V> V for Vec<A> {
    fn to_val(&self) -> Val {
        Val::List(self.iter().map(V::to_val).collect())
    }
}

impl V for Ind {
    fn to_val(&self) -> Val {
        Val::Ind(self.genome, self.test_results)
    }
}

// ---------------------------------------------------------------------------
// probes

#[derive(Clone, Debug, PartialEq, Eq)]
struct LogEntry {
    id: u32,
    input_fp: u64,
    word: u64,
}

#[derive(Default)]
struct Shared {
    log: RefCell<Vec<LogEntry>>,
    /// fail the probe call with this index (0-based, within the current application)
    fail_at: std::cell::Cell<Option<usize>>,
    /// logs of the applications already finished on this operator value
    done: RefCell<Vec<Vec<LogEntry>>>,
    started: std::cell::Cell<bool>,
}

impl Shared {
    /// Start the next application on the same operator value.
    fn begin(&self, fault: Option<usize>) {
        if self.started.get() {
            let l = std::mem::take(&mut *self.log.borrow_mut());
            self.done.borrow_mut().push(l);
        }
        self.started.set(true);
        self.fail_at.set(fault);
    }

    /// Logs of all applications, in order.
    fn logs(&self) -> Vec<Vec<LogEntry>> {
        let mut v = self.done.borrow().clone();
        if self.started.get() {
            v.push(self.log.borrow().clone());
        }
        v
    }
}

/// One application of the operator value under test.
struct App {
    input: Input,
    fault: Option<usize>,
}

#[derive(Debug)]
struct PErr {
    id: u32,
    call: usize,
}

impl fmt::Display for PErr {
    fn fmt(&self, f: &mut fmt::Formatter<'_>) -> fmt::Result {
        write!(f, "probe {} failed at probe call {}", self.id, self.call)
    }
}

impl StdError for PErr {}

#[derive(Clone, Copy)]
struct Probe<'a> {
    id: u32,
    sh: &'a Shared,
}

impl Composable for Probe<'_> {}

fn out_of(id: u32, input_fp: u64, word: u64) -> u64 {
    mix(mix(u64::from(id).wrapping_mul(0x9E37), input_fp), word)
}

impl Probe<'_> {
    /// log, draw one word from the stream handed in, fail on command
    fn fire<R: Rng + ?Sized>(&self, input_fp: u64, rng: &mut R) -> Result<(u64, u64), PErr> {
        // probes with an odd id ask for a 32-bit word, the others for a 64-bit word: the typed
        // trace of the shared stream is part of what the model predicts
        let word = if self.id % 2 == 1 { u64::from(rng.next_u32()) } else { rng.next_u64() };
        let mut log = self.sh.log.borrow_mut();
        let call = log.len();
        log.push(LogEntry { id: self.id, input_fp, word });
        if self.sh.fail_at.get() == Some(call) {
            return Err(PErr { id: self.id, call });
        }
        Ok((out_of(self.id, input_fp, word), word))
    }
}

impl<I: V> Operator<I> for Probe<'_> {
    type Output = u64;
    type Error = PErr;

    fn apply<R: Rng + ?Sized>(&self, input: I, rng: &mut R) -> Result<u64, PErr> {
        self.fire(input.fp(), rng).map(|(o, _)| o)
    }
}

impl<T: V> Selector<Vec<T>> for Probe<'_> {
    type Error = PErr;

    fn select<'pop, R: Rng + ?Sized>(&self, pop: &'pop Vec<T>, rng: &mut R) -> Result<&'pop T, PErr> {
        let (_, word) = self.fire(pop.fp(), rng)?;
        let call = self.sh.log.borrow().len() - 1;
        if pop.is_empty() {
            return Err(PErr { id: self.id, call });
        }
        Ok(&pop[(word % pop.len() as u64) as usize])
    }
}

impl Mutator<u64> for Probe<'_> {
    type Error = PErr;

    fn mutate<R: Rng + ?Sized>(&self, genome: u64, rng: &mut R) -> Result<u64, PErr> {
        self.fire(genome.fp(), rng).map(|(o, _)| o)
    }
}

impl Recombinator<[u64; 2]> for Probe<'_> {
    type Output = u64;
    type Error = PErr;

    fn recombine<R: Rng + ?Sized>(&self, genomes: [u64; 2], rng: &mut R) -> Result<u64, PErr> {
        self.fire(genomes.fp(), rng).map(|(o, _)| o)
    }
}

impl Recombinator<(u64, u64)> for Probe<'_> {
    type Output = u64;
    type Error = PErr;

    fn recombine<R: Rng + ?Sized>(&self, genomes: (u64, u64), rng: &mut R) -> Result<u64, PErr> {
        self.fire(genomes.fp(), rng).map(|(o, _)| o)
    }
}

// ---------------------------------------------------------------------------
// model

#[derive(Clone, Debug)]
enum Ast {
    P(u32),
    /// probe used as a selector over a list; yields the chosen element
    Sel(u32),
    Then(Box<Ast>, Box<Ast>),
    And(Box<Ast>, Box<Ast>),
    /// map over a pair / array / list, in order
    Map(Box<Ast>),
    Repeat(Box<Ast>, usize),
    Identity,
    Constant(u64),
    Extract,
    /// GenomeScorer wrapper: run the inner genome maker, score the genome
    Score(Box<Ast>),
}

fn then(a: Ast, b: Ast) -> Ast {
    Ast::Then(Box::new(a), Box::new(b))
}
fn and(a: Ast, b: Ast) -> Ast {
    Ast::And(Box::new(a), Box::new(b))
}
fn map(a: Ast) -> Ast {
    Ast::Map(Box::new(a))
}
fn rep(a: Ast, n: usize) -> Ast {
    Ast::Repeat(Box::new(a), n)
}

fn score_fn(g: &u64) -> u64 {
    g.wrapping_mul(3).wrapping_add(1)
}

struct ModelCtx {
    rng: SimRng,
    log: Vec<LogEntry>,
    fail_at: Option<usize>,
    /// evaluation stops (as "does not fit") beyond this many probe calls — only the generator sets it
    budget: usize,
}

/// Err carries the expected error path (outermost first) ending in the probe.
fn eval(a: &Ast, input: Val, cx: &mut ModelCtx) -> Result<Val, Vec<String>> {
    match a {
        Ast::P(id) | Ast::Sel(id) => {
            if cx.log.len() >= cx.budget {
                return Err(vec!["model: call budget exceeded".into()]);
            }
            let word = if id % 2 == 1 { u64::from(cx.rng.next_u32()) } else { cx.rng.next_u64() };
            let call = cx.log.len();
            let input_fp = input.fp();
            cx.log.push(LogEntry { id: *id, input_fp, word });
            if cx.fail_at == Some(call) {
                return Err(vec![format!("probe {id} failed at probe call {call}")]);
            }
            if let Ast::Sel(_) = a {
                let Val::List(items) = input else { return Err(vec!["model: selector on a non-list".into()]) };
                if items.is_empty() {
                    return Err(vec![format!("probe {id} failed at probe call {call}")]);
                }
                return Ok(items[(word % items.len() as u64) as usize].clone());
            }
            Ok(Val::U(out_of(*id, input_fp, word)))
        }
        Ast::Then(f, g) => {
            let x = eval(f, input, cx).map_err(|mut p| {
                p.insert(0, "first".into());
                p
            })?;
            eval(g, x, cx).map_err(|mut p| {
                p.insert(0, "second".into());
                p
            })
        }
        Ast::And(f, g) => {
            let x = eval(f, input.clone(), cx).map_err(|mut p| {
                p.insert(0, "first".into());
                p
            })?;
            let y = eval(g, input, cx).map_err(|mut p| {
                p.insert(0, "second".into());
                p
            })?;
            Ok(Val::Pair(Box::new(x), Box::new(y)))
        }
        Ast::Map(f) => {
            let each = |items: Vec<Val>, cx: &mut ModelCtx| -> Result<Vec<Val>, Vec<String>> {
                let mut out = Vec::new();
                for (i, x) in items.into_iter().enumerate() {
                    out.push(eval(f, x, cx).map_err(|mut p| {
                        p.insert(0, format!("map[{i}]"));
                        p
                    })?);
                }
                Ok(out)
            };
            match input {
                Val::Pair(a, b) => {
                    let mut v = each(vec![*a, *b], cx)?;
                    let b = v.pop().unwrap_or(Val::U(0));
                    let a = v.pop().unwrap_or(Val::U(0));
                    Ok(Val::Pair(Box::new(a), Box::new(b)))
                }
                Val::Arr(items) => Ok(Val::Arr(each(items, cx)?)),
                Val::List(items) => Ok(Val::List(each(items, cx)?)),
                other => Err(vec![format!("model: map over {other:?}")]),
            }
        }
        Ast::Repeat(f, n) => {
            let mut out = Vec::new();
            for _ in 0..*n {
                // RepeatWith passes the inner error through unchanged
                out.push(eval(f, input.clone(), cx)?);
            }
            Ok(Val::Arr(out))
        }
        Ast::Identity => Ok(input),
        Ast::Constant(c) => Ok(Val::U(*c)),
        Ast::Extract => match input {
            Val::Ind(g, _) => Ok(Val::U(g)),
            other => Err(vec![format!("model: extract from {other:?}")]),
        },
        Ast::Score(f) => match eval(f, input, cx)? {
            Val::U(g) => Ok(Val::Ind(g, score_fn(&g))),
            other => Err(vec![format!("model: score of {other:?}")]),
        },
    }
}


// ---------------------------------------------------------------------------
// dynamic trees: seeded compositions of arbitrary depth. Every inner node is the REAL combinator
// (`Then`, `And`, `Map` over Vec / pair / [_;2], `RepeatWith<N>`, `Identity`, `Constant`); the parts are
// erased behind a harness pointer type (`HBox`) that implements the crate's `Operator<Val>` trait, so
// trees can be built at run time. `Dyn` nodes additionally route a subtree through the crate's own
// erased layer (`&dyn DynOperator`). The erasure keeps the error's derived `Debug` structure, which is
// all `error_path` reads.

#[derive(Serialize, Deserialize, Clone, Debug, PartialEq, Eq)]
enum DAst {
    P(u32),
    Then(Box<DAst>, Box<DAst>),
    And(Box<DAst>, Box<DAst>),
    MapList(Box<DAst>),
    MapPair(Box<DAst>),
    MapArr2(Box<DAst>),
    Repeat(Box<DAst>, usize),
    Identity,
    Constant(u64),
    Dyn(Box<DAst>),
}

impl DAst {
    fn model(&self) -> Ast {
        match self {
            DAst::P(id) => Ast::P(*id),
            DAst::Then(a, b) => then(a.model(), b.model()),
            DAst::And(a, b) => and(a.model(), b.model()),
            DAst::MapList(f) | DAst::MapPair(f) | DAst::MapArr2(f) => map(f.model()),
            DAst::Repeat(f, n) => rep(f.model(), *n),
            DAst::Identity => Ast::Identity,
            DAst::Constant(c) => Ast::Constant(*c),
            DAst::Dyn(x) => x.model(),
        }
    }

    fn depth(&self) -> usize {
        match self {
            DAst::P(_) | DAst::Identity | DAst::Constant(_) => 1,
            DAst::Then(a, b) | DAst::And(a, b) => 1 + a.depth().max(b.depth()),
            DAst::MapList(f) | DAst::MapPair(f) | DAst::MapArr2(f) | DAst::Repeat(f, _) | DAst::Dyn(f) => 1 + f.depth(),
        }
    }

    fn children(&self) -> Vec<&DAst> {
        match self {
            DAst::P(_) | DAst::Identity | DAst::Constant(_) => Vec::new(),
            DAst::Then(a, b) | DAst::And(a, b) => vec![a, b],
            DAst::MapList(f) | DAst::MapPair(f) | DAst::MapArr2(f) | DAst::Repeat(f, _) | DAst::Dyn(f) => vec![f],
        }
    }
}

/// Harness-side error of an erased part: keeps the `Debug` structure of the error it replaced.
struct HErr(String);

impl fmt::Debug for HErr {
    fn fmt(&self, f: &mut fmt::Formatter<'_>) -> fmt::Result {
        f.write_str(&self.0)
    }
}

impl fmt::Display for HErr {
    fn fmt(&self, f: &mut fmt::Formatter<'_>) -> fmt::Result {
        f.write_str(&self.0)
    }
}

impl StdError for HErr {}

trait HOp {
    fn run(&self, input: Val, rng: &mut dyn RngCore) -> Result<Val, HErr>;
}

struct HBox<'a>(Box<dyn HOp + 'a>);

impl Composable for HBox<'_> {}

impl Operator<Val> for HBox<'_> {
    type Output = Val;
    type Error = HErr;

    fn apply<R: Rng + ?Sized>(&self, input: Val, mut rng: &mut R) -> Result<Val, HErr> {
        self.0.run(input, &mut rng)
    }
}

fn herr<E: fmt::Debug>(e: E) -> HErr {
    HErr(format!("{e:?}"))
}

struct Out<O>(O);

impl<O> HOp for Out<O>
where
    O: Operator<Val>,
    O::Output: V,
    O::Error: fmt::Debug,
{
    fn run(&self, input: Val, rng: &mut dyn RngCore) -> Result<Val, HErr> {
        self.0.apply(input, rng).map(|o| o.to_val()).map_err(herr)
    }
}

struct InList<O>(O);

impl<O> HOp for InList<O>
where
    O: Operator<Vec<Val>>,
    O::Output: V,
    O::Error: fmt::Debug,
{
    fn run(&self, input: Val, rng: &mut dyn RngCore) -> Result<Val, HErr> {
        match input {
            Val::List(items) => self.0.apply(items, rng).map(|o| o.to_val()).map_err(herr),
            other => Err(HErr(format!("harness: map over Vec applied to {other:?}"))),
        }
    }
}

struct InPair<O>(O);

impl<O> HOp for InPair<O>
where
    O: Operator<(Val, Val)>,
    O::Output: V,
    O::Error: fmt::Debug,
{
    fn run(&self, input: Val, rng: &mut dyn RngCore) -> Result<Val, HErr> {
        match input {
            Val::Pair(a, b) => self.0.apply((*a, *b), rng).map(|o| o.to_val()).map_err(herr),
            other => Err(HErr(format!("harness: map over pair applied to {other:?}"))),
        }
    }
}

struct InArr2<O>(O);

impl<O> HOp for InArr2<O>
where
    O: Operator<[Val; 2]>,
    O::Output: V,
    O::Error: fmt::Debug,
{
    fn run(&self, input: Val, rng: &mut dyn RngCore) -> Result<Val, HErr> {
        match input {
            Val::Arr(mut v) if v.len() == 2 => {
                let b = v.pop().unwrap_or(Val::U(0));
                let a = v.pop().unwrap_or(Val::U(0));
                self.0.apply([a, b], rng).map(|o| o.to_val()).map_err(herr)
            }
            other => Err(HErr(format!("harness: map over [_;2] applied to {other:?}"))),
        }
    }
}

/// Routes the part through the crate's own erased layer.
struct DynRoute<O>(O);

impl<O> HOp for DynRoute<O>
where
    O: Operator<Val, Output = Val>,
    O::Error: StdError + Send + Sync + 'static,
{
    fn run(&self, input: Val, rng: &mut dyn RngCore) -> Result<Val, HErr> {
        let d: &dyn DynOperator<Val, Box<dyn StdError + Send + Sync>, Output = Val> = &self.0;
        d.apply(input, rng).map_err(herr)
    }
}

fn build<'a>(t: &DAst, sh: &'a Shared) -> HBox<'a> {
    match t {
        DAst::P(id) => HBox(Box::new(Out(Probe { id: *id, sh }))),
        DAst::Then(a, b) => HBox(Box::new(Out(build(a, sh).then(build(b, sh))))),
        DAst::And(a, b) => HBox(Box::new(Out(build(a, sh).and(build(b, sh))))),
        DAst::MapList(f) => HBox(Box::new(InList(Identity.map(build(f, sh))))),
        DAst::MapPair(f) => HBox(Box::new(InPair(Identity.map(build(f, sh))))),
        DAst::MapArr2(f) => HBox(Box::new(InArr2(Identity.map(build(f, sh))))),
        DAst::Repeat(f, n) => match n {
            0 => HBox(Box::new(Out(build(f, sh).apply_n_times::<0>()))),
            1 => HBox(Box::new(Out(build(f, sh).apply_n_times::<1>()))),
            2 => HBox(Box::new(Out(build(f, sh).apply_twice()))),
            3 => HBox(Box::new(Out(build(f, sh).apply_n_times::<3>()))),
            _ => HBox(Box::new(Out(build(f, sh).apply_n_times::<4>()))),
        },
        DAst::Identity => HBox(Box::new(Out(Identity))),
        DAst::Constant(c) => HBox(Box::new(Out(Constant::new(Val::U(*c))))),
        DAst::Dyn(x) => HBox(Box::new(DynRoute(build(x, sh)))),
    }
}

/// Container shape of a value, tracked by the generator so that `Map` nodes are only placed where
/// the real `Map` has an implementation for the input.
#[derive(Clone, Debug, PartialEq, Eq)]
enum Sh {
    U,
    Pair(Box<Sh>, Box<Sh>),
    Arr(usize, Box<Sh>),
    List(Box<Sh>),
}

struct TreeGen {
    next_id: u32,
}

impl TreeGen {
    fn probe(&mut self) -> DAst {
        self.next_id += 1;
        DAst::P(self.next_id)
    }

    /// A part whose output shape does not depend on its input (usable under `Map` over a pair whose
    /// two elements have different shapes).
    fn agnostic(&mut self, g: &mut Xo, depth: usize) -> (DAst, Sh) {
        if depth == 0 || g.chance(1, 3) {
            return if g.chance(1, 6) { (DAst::Constant(g.below(1000)), Sh::U) } else { (self.probe(), Sh::U) };
        }
        match g.below(3) {
            0 => {
                let a = self.probe();
                let (b, s) = self.gen(g, &Sh::U, depth - 1);
                (DAst::Then(Box::new(a), Box::new(b)), s)
            }
            1 => {
                let (a, sa) = self.agnostic(g, depth - 1);
                let (b, sb) = self.agnostic(g, depth - 1);
                (DAst::And(Box::new(a), Box::new(b)), Sh::Pair(Box::new(sa), Box::new(sb)))
            }
            _ => {
                let n = g.urange(0, 3);
                let (f, s) = self.agnostic(g, depth - 1);
                (DAst::Repeat(Box::new(f), n), Sh::Arr(n, Box::new(s)))
            }
        }
    }

    fn gen(&mut self, g: &mut Xo, sh_in: &Sh, depth: usize) -> (DAst, Sh) {
        if depth == 0 {
            return match g.below(8) {
                0 => (DAst::Identity, sh_in.clone()),
                1 => (DAst::Constant(g.below(1000)), Sh::U),
                _ => (self.probe(), Sh::U),
            };
        }
        match g.below(12) {
            0..=2 => {
                let (a, s1) = self.gen(g, sh_in, depth - 1);
                let (b, s2) = self.gen(g, &s1, depth - 1);
                (DAst::Then(Box::new(a), Box::new(b)), s2)
            }
            3 | 4 => {
                let (a, s1) = self.gen(g, sh_in, depth - 1);
                let (b, s2) = self.gen(g, sh_in, depth - 1);
                (DAst::And(Box::new(a), Box::new(b)), Sh::Pair(Box::new(s1), Box::new(s2)))
            }
            5..=7 => match sh_in {
                Sh::List(e) => {
                    let (f, so) = self.gen(g, e, depth - 1);
                    (DAst::MapList(Box::new(f)), Sh::List(Box::new(so)))
                }
                Sh::Pair(a, b) if a == b => {
                    let (f, so) = self.gen(g, a, depth - 1);
                    (DAst::MapPair(Box::new(f)), Sh::Pair(Box::new(so.clone()), Box::new(so)))
                }
                Sh::Pair(..) => {
                    let (f, so) = self.agnostic(g, depth - 1);
                    (DAst::MapPair(Box::new(f)), Sh::Pair(Box::new(so.clone()), Box::new(so)))
                }
                Sh::Arr(2, e) => {
                    let (f, so) = self.gen(g, e, depth - 1);
                    (DAst::MapArr2(Box::new(f)), Sh::Arr(2, Box::new(so)))
                }
                _ => {
                    // produce a container first, then map over it
                    let n = 2;
                    let (f, s) = self.gen(g, sh_in, depth - 1);
                    let (m, so) = self.gen(g, &s, depth.saturating_sub(2));
                    (
                        DAst::Then(Box::new(DAst::Repeat(Box::new(f), n)), Box::new(DAst::MapArr2(Box::new(m)))),
                        Sh::Arr(2, Box::new(so)),
                    )
                }
            },
            8 | 9 => {
                let n = g.urange(0, 4);
                let (f, s) = self.gen(g, sh_in, depth - 1);
                (DAst::Repeat(Box::new(f), n), Sh::Arr(n, Box::new(s)))
            }
            10 => {
                let (x, s) = self.gen(g, sh_in, depth - 1);
                (DAst::Dyn(Box::new(x)), s)
            }
            _ => match g.below(4) {
                0 => (DAst::Identity, sh_in.clone()),
                1 => (DAst::Constant(g.below(1000)), Sh::U),
                _ => (self.probe(), Sh::U),
            },
        }
    }
}

const DYN_MAX_CALLS: usize = 48;

fn in_shape(k: InKind) -> Sh {
    match k {
        InKind::U => Sh::U,
        InKind::Pair => Sh::Pair(Box::new(Sh::U), Box::new(Sh::U)),
        InKind::Arr2 => Sh::Arr(2, Box::new(Sh::U)),
        InKind::List | InKind::Pop => Sh::List(Box::new(Sh::U)),
    }
}

/// Number of probe calls of the fault-free run (None: the tree does not fit its input).
fn model_calls(tree: &DAst, input: Val, rng: &SimRng, budget: usize) -> Option<usize> {
    let mut cx = ModelCtx { rng: rng.fork(), log: Vec::new(), fail_at: None, budget };
    match eval(&tree.model(), input, &mut cx) {
        Ok(_) => Some(cx.log.len()),
        Err(p) if p.iter().any(|t| t.starts_with("model:")) => None,
        Err(_) => Some(cx.log.len()),
    }
}

// ---------------------------------------------------------------------------
// real error -> path. The combinators' error types cannot be named from outside the crate
// (private modules), so the path is read from the derived `Debug` structure of the error value
// (`First(..)` / `Second(..)` / `MapError(inner, index)`), which — unlike the wording of the
// `Display` messages — only changes when the error types themselves change.

/// Splits the payload of `Name(..)` / `Name { .. }` at top-level commas.
fn split_top_level(s: &str) -> Vec<String> {
    let mut out = Vec::new();
    let (mut depth, mut cur, mut in_str) = (0i32, String::new(), false);
    let mut prev = ' ';
    for c in s.chars() {
        if in_str {
            cur.push(c);
            if c == '"' && prev != '\\' {
                in_str = false;
            }
        } else {
            match c {
                '"' => {
                    in_str = true;
                    cur.push(c);
                }
                '(' | '{' | '[' => {
                    depth += 1;
                    cur.push(c);
                }
                ')' | '}' | ']' => {
                    depth -= 1;
                    cur.push(c);
                }
                ',' if depth == 0 => {
                    out.push(cur.trim().to_string());
                    cur.clear();
                }
                _ => cur.push(c),
            }
        }
        prev = c;
    }
    if !cur.trim().is_empty() {
        out.push(cur.trim().to_string());
    }
    out
}

/// `Name(payload)` or `Name { payload }` -> (Name, payload)
fn name_and_payload(s: &str) -> Option<(&str, &str)> {
    let s = s.trim();
    let end = s.find(|c: char| !(c.is_alphanumeric() || c == '_' || c == ':'))?;
    let (name, rest) = s.split_at(end);
    let rest = rest.trim();
    let inner = rest
        .strip_prefix('(')
        .and_then(|r| r.strip_suffix(')'))
        .or_else(|| rest.strip_prefix('{').and_then(|r| r.strip_suffix('}')))?;
    if name.is_empty() {
        return None;
    }
    Some((name, inner.trim()))
}

/// `field: value` -> (Some(field), value); `value` -> (None, value)
fn field_of(item: &str) -> (Option<&str>, &str) {
    if let Some((f, v)) = item.split_once(':') {
        let f = f.trim();
        if !f.is_empty() && f.chars().all(|c| c.is_alphanumeric() || c == '_') && !v.starts_with(':') {
            return (Some(f), v.trim());
        }
    }
    (None, item.trim())
}

/// Reads the failing part / element from the derived `Debug` structure of a combinator error. Tolerant of the
/// shapes a maintainer may legitimately choose: tuple or named-field structs, extra fields, boxed payloads.
/// A variant whose name starts with `First` / `Second` names the part; a type whose name contains `Map` names an
/// element: its index is the field called `index` / `idx` / `position` / `element` if fields are named, the last
/// bare integer otherwise; the nested error is the payload item that is itself a structure.
fn error_path<E: fmt::Debug>(e: &E) -> Vec<String> {
    let text = format!("{e:?}");
    let mut out = Vec::new();
    let mut s: String = text.trim().to_string();
    for _ in 0..64 {
        let Some((name, payload)) = name_and_payload(&s) else {
            out.push(format!("leaf:{s}"));
            break;
        };
        let short = name.rsplit("::").next().unwrap_or(name);
        if short.starts_with("PErr") {
            let nums: Vec<&str> = payload.split(|c: char| !c.is_ascii_digit()).filter(|t| !t.is_empty()).collect();
            if nums.len() == 2 {
                out.push(format!("probe {} failed at probe call {}", nums[0], nums[1]));
            } else {
                out.push(format!("leaf:{s}"));
            }
            break;
        }
        let items = split_top_level(payload);
        if short.starts_with("First") || short.starts_with("Second") {
            out.push(if short.starts_with("First") { "first".to_string() } else { "second".to_string() });
            let next = items
                .iter()
                .map(|it| field_of(it).1)
                .find(|v| name_and_payload(v).is_some())
                .or_else(|| items.first().map(|it| field_of(it).1));
            match next {
                Some(n) => s = n.to_string(),
                None => break,
            }
        } else if short.contains("Map") {
            let parsed: Vec<(Option<&str>, &str)> = items.iter().map(|it| field_of(it)).collect();
            let named_idx = parsed
                .iter()
                .find(|(f, v)| f.is_some_and(|f| ["index", "idx", "position", "element"].contains(&f)) && v.parse::<usize>().is_ok())
                .map(|(_, v)| *v);
            let bare_idx = parsed.iter().rev().find(|(f, v)| f.is_none() && v.parse::<usize>().is_ok()).map(|(_, v)| *v);
            match named_idx.or(bare_idx) {
                Some(i) => out.push(format!("map[{i}]")),
                None => {
                    out.push(format!("unparsed:{payload}"));
                    break;
                }
            }
            match parsed.iter().map(|(_, v)| *v).find(|v| name_and_payload(v).is_some()) {
                Some(n) => s = n.to_string(),
                None => break,
            }
        } else if items.len() == 1 && name_and_payload(field_of(&items[0]).1).is_some() {
            // a transparent wrapper (newtype) around the real error
            s = field_of(&items[0]).1.to_string();
        } else {
            out.push(format!("leaf:{s}"));
            break;
        }
    }
    out
}

// ---------------------------------------------------------------------------
// shapes: written once, expanded to the real expression and the model AST

#[derive(Serialize, Deserialize, Clone, Copy, Debug, PartialEq, Eq)]
enum InKind {
    U,
    Pair,
    Arr2,
    List,
    Pop,
}

struct Shape {
    name: &'static str,
    input: InKind,
    ast: Ast,
    #[allow(clippy::type_complexity)]
    run: Box<dyn for<'a> Fn(&'a Shared, &[App], &mut SimRng) -> Vec<Result<Val, Vec<String>>> + Send + Sync>,
}

#[derive(Clone, Debug)]
struct Input {
    u: u64,
    pair: (u64, u64),
    arr2: [u64; 2],
    list: Vec<u64>,
    pop: Vec<Ind>,
}

impl Input {
    fn val(&self, k: InKind) -> Val {
        match k {
            InKind::U => self.u.to_val(),
            InKind::Pair => self.pair.to_val(),
            InKind::Arr2 => self.arr2.to_val(),
            InKind::List => self.list.to_val(),
            InKind::Pop => self.pop.to_val(),
        }
    }
}

/// The `Display` texts along the `source()` chain may be worded freely, but where a text names
/// a part ("first" / "second") or an element number it must not contradict the error's structure.
fn display_contradiction(e: &(dyn StdError + 'static), path: &[String]) -> Option<String> {
    let mut cur: Option<&(dyn StdError + 'static)> = Some(e);
    for tok in path {
        let text = cur?.to_string();
        let lower = text.to_lowercase();
        let (has_first, has_second) = (lower.contains("first"), lower.contains("second"));
        match tok.as_str() {
            "first" if has_second && !has_first => return Some(text),
            "second" if has_first && !has_second => return Some(text),
            t if t.starts_with("map[") => {
                let idx = t.trim_start_matches("map[").trim_end_matches(']');
                let nums: Vec<&str> = text.split(|c: char| !c.is_ascii_digit()).filter(|x| !x.is_empty()).collect();
                if !nums.is_empty() && !nums.contains(&idx) {
                    return Some(text);
                }
            }
            _ => {}
        }
        cur = cur?.source();
    }
    None
}

fn finish<O: V, E: StdError + fmt::Debug + 'static>(r: Result<O, E>) -> Result<Val, Vec<String>> {
    match r {
        Ok(o) => Ok(o.to_val()),
        Err(e) => {
            let mut path = error_path(&e);
            if let Some(text) = display_contradiction(&e, &path) {
                path.push(format!("message contradicts the error's structure: `{text}`"));
            }
            Err(path)
        }
    }
}

macro_rules! shape {
    ($v:ident, $name:literal, $kind:ident, $field:ident, |$p:ident| $real:expr, $ast:expr) => {
        $v.push(Shape {
            name: $name,
            input: InKind::$kind,
            ast: $ast,
            run: Box::new(|sh: &Shared, apps: &[App], rng: &mut SimRng| {
                let $p = |id: u32| Probe { id, sh };
                let op = $real;
                apps.iter().map(|a| { sh.begin(a.fault); let input = &a.input; finish(op.apply(input.$field.clone(), rng)) }).collect()
            }),
        });
    };
}

#[allow(clippy::too_many_lines)]
fn shapes() -> Vec<Shape> {
    use Ast::{Constant as C, Identity as I, P};
    let mut v: Vec<Shape> = Vec::new();
    shape!(v, "p1", U, u, |p| p(1), P(1));
    shape!(v, "p1.then(p2)", U, u, |p| p(1).then(p(2)), then(P(1), P(2)));
    shape!(v, "p1.then(p2).then(p3)", U, u, |p| p(1).then(p(2)).then(p(3)), then(then(P(1), P(2)), P(3)));
    shape!(v, "p1.then(p2.then(p3))", U, u, |p| p(1).then(p(2).then(p(3))), then(P(1), then(P(2), P(3))));
    shape!(v, "p1.and(p2)", U, u, |p| p(1).and(p(2)), and(P(1), P(2)));
    shape!(v, "p1.and(p2).then(p3)", U, u, |p| p(1).and(p(2)).then(p(3)), then(and(P(1), P(2)), P(3)));
    shape!(v, "p1.and(p2.and(p3))", Pair, pair, |p| p(1).and(p(2).and(p(3))), and(P(1), and(P(2), P(3))));
    shape!(v, "p1.and(p2).then_map(p3)", U, u, |p| p(1).and(p(2)).then_map(p(3)), then(and(P(1), P(2)), map(P(3))));
    shape!(v, "p1.apply_twice()", U, u, |p| p(1).apply_twice(), rep(P(1), 2));
    shape!(v, "p1.apply_twice().then_map(p2)", List, list, |p| p(1).apply_twice().then_map(p(2)), then(rep(P(1), 2), map(P(2))));
    shape!(v, "p1.apply_n_times::<3>().then(p2)", U, u, |p| p(1).apply_n_times::<3>().then(p(2)), then(rep(P(1), 3), P(2)));
    shape!(v, "p1.apply_n_times::<0>()", U, u, |p| p(1).apply_n_times::<0>(), rep(P(1), 0));
    shape!(v, "p1.apply_n_times::<1>().then(p2)", Arr2, arr2, |p| p(1).apply_n_times::<1>().then(p(2)), then(rep(P(1), 1), P(2)));
    shape!(v, "map(p1) over Vec", List, list, |p| Identity.map(p(1)), map(P(1)));
    shape!(v, "map(p1).then(p2) over Vec", List, list, |p| Identity.map(p(1)).then(p(2)), then(map(P(1)), P(2)));
    shape!(v, "map(p1) over pair", Pair, pair, |p| Identity.map(p(1)), map(P(1)));
    shape!(v, "map(p1) over [_;2]", Arr2, arr2, |p| Identity.map(p(1)), map(P(1)));
    shape!(v, "Identity.then(p1)", U, u, |p| Identity.then(p(1)), then(I, P(1)));
    shape!(v, "p1.then(Identity)", U, u, |p| p(1).then(Identity), then(P(1), I));
    shape!(v, "Constant.then(p1)", List, list, |p| Constant::new(7u64).then(p(1)), then(C(7), P(1)));
    shape!(v, "p1.then(Constant)", U, u, |p| p(1).then(Constant::new(9u64)), then(P(1), C(9)));
    shape!(v, "p1.and(Identity)", Pair, pair, |p| p(1).and(Identity), and(P(1), I));
    shape!(v, "Identity.and(p1).then(p2)", U, u, |p| Identity.and(p(1)).then(p(2)), then(and(I, P(1)), P(2)));
    shape!(
        v,
        "(p1.then(p2)).and(p3.then(p4))",
        U,
        u,
        |p| p(1).then(p(2)).and(p(3).then(p(4))),
        and(then(P(1), P(2)), then(P(3), P(4)))
    );
    shape!(
        v,
        "p1.and(p2).then_map(p3.then(p4))",
        U,
        u,
        |p| p(1).and(p(2)).then_map(p(3).then(p(4))),
        then(and(P(1), P(2)), map(then(P(3), P(4))))
    );
    shape!(
        v,
        "p1.apply_twice().then_map(p2.and(p3))",
        U,
        u,
        |p| p(1).apply_twice().then_map(p(2).and(p(3))),
        then(rep(P(1), 2), map(and(P(2), P(3))))
    );
    shape!(v, "map(p1.then(p2)) over Vec", List, list, |p| Identity.map(p(1).then(p(2))), map(then(P(1), P(2))));
    shape!(v, "map(p1.apply_twice()) over pair", Pair, pair, |p| Identity.map(p(1).apply_twice()), map(rep(P(1), 2)));
    shape!(
        v,
        "map(map(p1)) over [(_,_);2] from apply_twice(and)",
        U,
        u,
        |p| p(1).and(p(2)).apply_twice().then_map(Identity.map(p(3))),
        then(rep(and(P(1), P(2)), 2), map(map(P(3))))
    );
    shape!(
        v,
        "p1.then(p2).apply_n_times::<3>()",
        U,
        u,
        |p| p(1).then(p(2)).apply_n_times::<3>(),
        rep(then(P(1), P(2)), 3)
    );
    // wrappers by value and by reference add no behaviour
    shape!(v, "Mutate(p1)", U, u, |p| Mutate::new(p(1)), P(1));
    v.push(Shape {
        name: "Mutate(&p1).then(Mutate(p2))",
        input: InKind::U,
        ast: then(P(1), P(2)),
        run: Box::new(|sh, apps, rng| {
            let p = |id: u32| Probe { id, sh };
            let r1 = p(1);
            let op = Mutate::new(&r1).then(Mutate::new(p(2)));
            apps.iter().map(|a| { sh.begin(a.fault); let input = &a.input; finish(op.apply(input.u, rng)) }).collect()
        }),
    });
    shape!(v, "Recombine(p1) on [_;2]", Arr2, arr2, |p| Recombine::new(p(1)), P(1));
    v.push(Shape {
        name: "Recombine(&p1) on pair .then(p2)",
        input: InKind::Pair,
        ast: then(P(1), P(2)),
        run: Box::new(|sh, apps, rng| {
            let p = |id: u32| Probe { id, sh };
            let r1 = p(1);
            let op = Recombine::new(&r1).then(p(2));
            apps.iter().map(|a| { sh.begin(a.fault); let input = &a.input; finish(op.apply(input.pair, rng)) }).collect()
        }),
    });
    // type-erased parts inside a pipeline share the stream like any other part
    v.push(Shape {
        name: "(&dyn DynOperator p1).then(p2)",
        input: InKind::U,
        ast: then(P(1), P(2)),
        run: Box::new(|sh, apps, rng| {
            let p = |id: u32| Probe { id, sh };
            let p1 = p(1);
            let d: &dyn DynOperator<u64, PErr, Output = u64> = &p1;
            let op = d.then(p(2));
            apps.iter().map(|a| { sh.begin(a.fault); let input = &a.input; finish(op.apply(input.u, rng)) }).collect()
        }),
    });
    v.push(Shape {
        name: "p2.then(&dyn DynOperator p1).and(p3)",
        input: InKind::U,
        ast: and(then(P(2), P(1)), P(3)),
        run: Box::new(|sh, apps, rng| {
            let p = |id: u32| Probe { id, sh };
            let p1 = p(1);
            let d: &dyn DynOperator<u64, PErr, Output = u64> = &p1;
            let op = p(2).then(d).and(p(3));
            apps.iter().map(|a| { sh.begin(a.fault); let input = &a.input; finish(op.apply(input.u, rng)) }).collect()
        }),
    });
    v.push(Shape {
        name: "(&dyn DynOperator (p1.and(p3))).then_map(p5)",
        input: InKind::U,
        ast: then(and(P(1), P(3)), map(P(5))),
        run: Box::new(|sh, apps, rng| {
            let p = |id: u32| Probe { id, sh };
            let inner = p(1).and(p(3));
            let d: &dyn DynOperator<u64, Box<dyn StdError + Send + Sync>, Output = (u64, u64)> = &inner;
            let op = d.then_map(p(5));
            apps.iter().map(|a| { sh.begin(a.fault); let input = &a.input; match op.apply(input.u, rng) {
                Ok(o) => Ok(o.to_val()),
                // (the erased layer boxes the inner error; its Debug form is the inner error's)
                Err(e) => Err(error_path(&e)),
            } }).collect()
        }),
    });
    // selection needs a borrowed population as input: handled by the two
    // dedicated shapes below
    v.push(Shape {
        name: "Select(p1).then(p2) on &Vec",
        input: InKind::List,
        ast: then(Ast::Sel(1), P(2)),
        run: Box::new(|sh, apps, rng| {
            let p = |id: u32| Probe { id, sh };
            let op = Select::new(p(1)).then(p(2));
            apps.iter().map(|a| { sh.begin(a.fault); let input = &a.input; finish(op.apply(&input.list, rng)) }).collect()
        }),
    });
    v.push(Shape {
        name: "Select(&p1).apply_twice().then_map(p2) on &Vec",
        input: InKind::List,
        ast: then(rep(Ast::Sel(1), 2), map(P(2))),
        run: Box::new(|sh, apps, rng| {
            let p = |id: u32| Probe { id, sh };
            let s = p(1);
            let op = Select::new(&s).apply_twice().then_map(p(2));
            apps.iter().map(|a| { sh.begin(a.fault); let input = &a.input; finish(op.apply(&input.list, rng)) }).collect()
        }),
    });
    v.push(Shape {
        name: "realistic pipeline: Select.apply_twice.then_map(GenomeExtractor).then(Recombine).then(Mutate).wrap::<GenomeScorer>",
        input: InKind::Pop,
        ast: Ast::Score(Box::new(then(then(then(rep(Ast::Sel(1), 2), map(Ast::Extract)), P(2)), P(3)))),
        run: Box::new(|sh, apps, rng| {
            let p = |id: u32| Probe { id, sh };
            let rec = p(2);
            let op = Select::new(p(1))
                .apply_twice()
                .then_map(GenomeExtractor)
                .then(Recombine::new(&rec))
                .then(Mutate::new(p(3)))
                .wrap::<GenomeScorer<_, _>>(FnScorer(score_fn));
            apps.iter().map(|a| { sh.begin(a.fault); let input = &a.input; finish(op.apply(&input.pop, rng)) }).collect()
        }),
    });
    v
}

// ---------------------------------------------------------------------------

#[derive(Serialize, Deserialize, Clone, Debug)]
struct Sc {
    shape: usize,
    /// fail the probe call with this global index
    fault: Option<usize>,
    input_seed: u64,
    list_len: usize,
    rng: RngSpec,
    /// dynamic tree (seeded composition of arbitrary depth); `shape` is ignored when present
    #[serde(default)]
    tree: Option<(InKind, DAst)>,
    /// further applications on the SAME operator value, after the first: (fault, input seed, Vec length).
    /// A combinator value must not carry anything over from one application to the next.
    #[serde(default)]
    more: Vec<(Option<usize>, u64, usize)>,
}

struct C14 {
    shapes: Vec<Shape>,
}

// ---------------------------------------------------------------------------
// sizes beyond 16 bits: `Map` over one Vec of 65 536 .. 200 000 elements, `RepeatWith<_, 40 000>` and
// `RepeatWith<_, 65 537>` (closed-form expectation: element i is made from input i and the i-th random word, a
// failure at call f stops everything after call f and is reported for element f)

const BIG: usize = usize::MAX;

struct Tick<'a> {
    fail_at: Option<usize>,
    calls: &'a std::cell::Cell<usize>,
}

#[derive(Debug)]
struct TickErr(#[allow(dead_code)] usize);

impl fmt::Display for TickErr {
    fn fmt(&self, f: &mut fmt::Formatter<'_>) -> fmt::Result {
        write!(f, "injected failure")
    }
}

impl StdError for TickErr {}

impl ec_core::operator::composable::Composable for Tick<'_> {}

impl Operator<u64> for Tick<'_> {
    type Output = u8;
    type Error = TickErr;

    fn apply<R: Rng + ?Sized>(&self, input: u64, rng: &mut R) -> Result<u8, TickErr> {
        let c = self.calls.get();
        self.calls.set(c + 1);
        let w = rng.next_u64();
        if self.fail_at == Some(c) {
            return Err(TickErr(c));
        }
        Ok((input ^ w) as u8)
    }
}

// ---- typed instantiations: the element / result / error TYPES of the composed operator (zero-sized, with a niche,
// bulky) are part of "for all operators"; code that looks at `size_of` must not change what is computed
const TYPED: usize = usize::MAX - 1;

/// A zero-sized but inhabited error.
#[derive(Debug, PartialEq, Clone, Copy)]
struct Gone;

impl fmt::Display for Gone {
    fn fmt(&self, f: &mut fmt::Formatter<'_>) -> fmt::Result {
        write!(f, "gone")
    }
}

impl StdError for Gone {}

struct Typed<'a, O, E> {
    fail_at: Option<usize>,
    calls: &'a std::cell::Cell<usize>,
    mk: fn(u64) -> O,
    err: fn(usize) -> E,
}

impl<O, E> ec_core::operator::composable::Composable for Typed<'_, O, E> {}

impl<O, E> Operator<u64> for Typed<'_, O, E> {
    type Output = O;
    type Error = E;

    fn apply<R: Rng + ?Sized>(&self, input: u64, rng: &mut R) -> Result<O, E> {
        let c = self.calls.get();
        self.calls.set(c + 1);
        let w = rng.next_u64();
        if self.fail_at == Some(c) {
            return Err((self.err)(c));
        }
        Ok((self.mk)(input ^ w))
    }
}

const TYPED_KINDS: u64 = 8;

fn exec_typed(sc: &Sc, obs: &mut Obs) -> Vec<Violation> {
    fn judge<O: PartialEq + fmt::Debug, E: fmt::Debug>(
        what: &str,
        is_map: bool,
        n: usize,
        fault: Option<usize>,
        calls: usize,
        draws: u64,
        r: Result<Result<Vec<O>, E>, simcore::Panicked>,
        expected: Vec<O>,
    ) -> Vec<Violation> {
        let mut v = Vec::new();
        let fails = fault.filter(|f| *f < n);
        let expected_calls = fails.map_or(n, |f| f + 1);
        let res = match r {
            Err(p) => {
                v.push(Violation::new("never-panics", format!("panic:typed:{what}"), format!("{what} (n = {n}, failure at {fault:?}) panicked: {}", p.message)));
                return v;
            }
            Ok(res) => res,
        };
        if calls != expected_calls {
            v.push(Violation::new(
                "failure-stops-everything-after-it",
                format!("typed:calls:{what}"),
                format!("{what} (n = {n}), failure injected at call {fault:?}: the operator was applied {calls} times, expected {expected_calls}"),
            ));
        }
        if draws != expected_calls as u64 {
            v.push(Violation::new(
                "random-stream-consumed-left-to-right",
                format!("typed:draws:{what}"),
                format!("{what} (n = {n}), failure injected at call {fault:?}: {draws} random words were consumed, expected {expected_calls}"),
            ));
        }
        match (res, fails) {
            (Ok(out), None) => {
                if out != expected {
                    v.push(Violation::new(
                        "result-assembled-in-order",
                        format!("typed:values:{what}"),
                        format!("{what} (n = {n}): the result has {} elements and differs from applying the operator to each element in order ({} expected)", out.len(), expected.len()),
                    ));
                }
            }
            (Ok(out), Some(f)) => v.push(Violation::new(
                "error-identifies-failing-part",
                format!("typed:missed-failure:{what}"),
                format!("{what} (n = {n}): call {f} failed but the result is Ok with {} elements", out.len()),
            )),
            (Err(e), None) => v.push(Violation::new("error-identifies-failing-part", format!("typed:spurious-error:{what}"), format!("{what} (n = {n}): nothing failed but the result is the error {e:?}"))),
            (Err(e), Some(f)) => {
                let text = format!("{e:?}");
                let numbers: Vec<&str> = text.split(|c: char| !c.is_ascii_digit()).filter(|t| !t.is_empty()).collect();
                if is_map && !numbers.contains(&f.to_string().as_str()) {
                    v.push(Violation::new(
                        "error-identifies-failing-part",
                        format!("typed:error-path:{what}"),
                        format!("{what} (n = {n}): element {f} failed; the error {text} does not name it"),
                    ));
                }
            }
        }
        v
    }
    let mut rng = sc.rng.build();
    let mut model = rng.fork();
    let calls = std::cell::Cell::new(0usize);
    let kind = sc.input_seed % TYPED_KINDS;
    let n = if kind < 5 { sc.list_len } else { 5000 };
    let input: Vec<u64> = (0..n as u64).map(|i| i.wrapping_mul(sc.input_seed | 1)).collect();
    let words: Vec<u64> = (0..n).map(|_| model.next_u64()).collect();
    let mixed = |i: usize| if kind < 5 { input[i] ^ words[i] } else { sc.input_seed ^ words[i] };
    obs.hit("probe.typed-instantiation(zero-sized/niche/bulky-results-and-errors)");
    obs.nontrivial(mix(mix(0x7e9d, kind), mix(n as u64, sc.fault.map_or(u64::MAX, |f| f as u64))));
    macro_rules! run_map {
        ($what:expr, $o:ty, $e:ty, $mk:expr, $err:expr) => {{
            let op = || Typed::<$o, $e> { fail_at: sc.fault, calls: &calls, mk: $mk, err: $err };
            let r = catch(|| Identity.map(op()).apply(input.clone(), &mut rng));
            let mk: fn(u64) -> $o = $mk;
            let v = judge($what, true, n, sc.fault, calls.get(), rng.draws(), r, (0..n).map(|i| mk(mixed(i))).collect());
            obs.count("steps", calls.get() as u64);
            v
        }};
    }
    macro_rules! run_repeat {
        ($what:expr, $o:ty, $e:ty, $mk:expr, $err:expr) => {{
            let op = || Typed::<$o, $e> { fail_at: sc.fault, calls: &calls, mk: $mk, err: $err };
            let r = catch(|| op().apply_n_times::<5000>().apply(sc.input_seed, &mut rng).map(|a| Vec::from(a)));
            let mk: fn(u64) -> $o = $mk;
            let v = judge($what, false, n, sc.fault, calls.get(), rng.draws(), r, (0..n).map(|i| mk(mixed(i))).collect());
            obs.count("steps", calls.get() as u64);
            v
        }};
    }
    match kind {
        0 => run_map!("map, results bool, zero-sized error", bool, Gone, |x| x % 2 == 1, |_| Gone),
        1 => run_map!("map, results Box<u64>, zero-sized error", Box<u64>, Gone, Box::new, |_| Gone),
        2 => run_map!("map, results (), zero-sized error", (), Gone, |_| (), |_| Gone),
        3 => run_map!("map, results [u64; 20], error carrying the position", [u64; 20], TickErr, |x| [x; 20], TickErr),
        4 => run_map!("map, results Option<char>, zero-sized error", Option<char>, Gone, |x| char::from_u32((x % 0x800) as u32), |_| Gone),
        5 => run_repeat!("apply_n_times::<5000>, results ()", (), TickErr, |_| (), TickErr),
        6 => run_repeat!("apply_n_times::<5000>, results (), zero-sized error", (), Gone, |_| (), |_| Gone),
        _ => run_repeat!("apply_n_times::<5000>, results bool, zero-sized error", bool, Gone, |x| x % 2 == 1, |_| Gone),
    }
}

fn exec_big(sc: &Sc, obs: &mut Obs) -> Vec<Violation> {
    let mut v = Vec::new();
    let mut rng = sc.rng.build();
    let mut model = rng.fork();
    let calls = std::cell::Cell::new(0usize);
    let tick = || Tick { fail_at: sc.fault, calls: &calls };
    let n = if sc.list_len > 0 { sc.list_len } else if sc.input_seed % 2 == 0 { 40_000 } else { 65_537 };
    let what = if sc.list_len > 0 { format!("map over a Vec of {n}") } else { format!("apply_n_times::<{n}>") };
    let input: Vec<u64> = if sc.list_len > 0 { (0..n as u64).map(|i| i.wrapping_mul(sc.input_seed | 1)).collect() } else { vec![sc.input_seed; n] };
    let r: Result<Result<Vec<u8>, Vec<String>>, _> = catch(|| {
        if sc.list_len > 0 {
            Identity.map(tick()).apply(input.clone(), &mut rng).map_err(|e| error_path(&e))
        } else if n == 40_000 {
            tick().apply_n_times::<40_000>().apply(sc.input_seed, &mut rng).map(|a| a.to_vec()).map_err(|e| error_path(&e))
        } else {
            tick().apply_n_times::<65_537>().apply(sc.input_seed, &mut rng).map(|a| a.to_vec()).map_err(|e| error_path(&e))
        }
    });
    obs.hit("probe.more-than-16-bits-worth-of-elements");
    obs.count("steps", calls.get() as u64);
    obs.nontrivial(mix(mix(0xb16, n as u64), sc.fault.map_or(u64::MAX, |f| f as u64)));
    let fails = sc.fault.filter(|f| *f < n);
    let expected_calls = fails.map_or(n, |f| f + 1);
    match r {
        Err(p) => v.push(Violation::new("never-panics", format!("panic:big:{}", if sc.list_len > 0 { "map" } else { "repeat" }), format!("{what} panicked: {}", p.message))),
        Ok(res) => {
            if calls.get() != expected_calls {
                v.push(Violation::new(
                    "failure-stops-everything-after-it",
                    format!("big:calls:{}", if sc.list_len > 0 { "map" } else { "repeat" }),
                    format!("{what}, failure injected at call {:?}: the operator was applied {} times, expected {expected_calls}", sc.fault, calls.get()),
                ));
            }
            if rng.draws() != expected_calls as u64 {
                v.push(Violation::new(
                    "random-stream-consumed-left-to-right",
                    format!("big:draws:{}", if sc.list_len > 0 { "map" } else { "repeat" }),
                    format!("{what}: {} random words were consumed, expected {expected_calls}", rng.draws()),
                ));
            }
            match (res, fails) {
                (Ok(out), None) => {
                    let exp: Vec<u8> = input.iter().map(|x| (*x ^ model.next_u64()) as u8).collect();
                    if out.len() != exp.len() {
                        v.push(Violation::new("result-assembled-in-order", "big:length".to_string(), format!("{what}: the result has {} elements", out.len())));
                    } else if let Some(i) = (0..n).find(|i| out[*i] != exp[*i]) {
                        v.push(Violation::new(
                            "result-assembled-in-order",
                            "big:values".to_string(),
                            format!("{what}: element {i} is {} but input {i} combined with the {i}-th random word gives {}", out[i], exp[i]),
                        ));
                    }
                }
                (Ok(out), Some(f)) => v.push(Violation::new(
                    "error-identifies-failing-part",
                    "big:missed-failure".to_string(),
                    format!("{what}: call {f} failed but the result is Ok with {} elements", out.len()),
                )),
                (Err(path), None) => v.push(Violation::new("error-identifies-failing-part", "big:spurious-error".to_string(), format!("{what}: nothing failed but the result is the error {path:?}"))),
                (Err(path), Some(f)) => {
                    let want: Vec<String> = if sc.list_len > 0 { vec![format!("map[{f}]"), format!("leaf:TickErr({f})")] } else { vec![format!("leaf:TickErr({f})")] };
                    if path != want {
                        v.push(Violation::new(
                            "error-identifies-failing-part",
                            "big:error-path".to_string(),
                            format!("{what}: call {f} failed; the error names {path:?}, expected {want:?}"),
                        ));
                    }
                }
            }
        }
    }
    v
}

const MAX_FAULT: usize = 12; // every shape makes <= 11 probe calls on inputs of length <= 4
const SEEDS_QUICK: u64 = 4_000;
const SEEDS_THOROUGH: u64 = 400_000;
const DYN_QUICK: u64 = 400_000;
const DYN_THOROUGH: u64 = 40_000_000;

fn make_input(seed: u64, list_len: usize) -> Input {
    let mut g = Xo::from_seed(seed);
    Input {
        u: g.next_u64(),
        pair: (g.next_u64(), g.next_u64()),
        arr2: [g.next_u64(), g.next_u64()],
        list: (0..list_len).map(|_| g.next_u64()).collect(),
        pop: (0..list_len).map(|_| EcIndividual::new(g.next_u64(), g.below(5))).collect(),
    }
}

fn shrink_tree(t: &DAst) -> Vec<DAst> {
    let b = |x: DAst| Box::new(x);
    let mut out = Vec::new();
    match t {
        DAst::P(_) | DAst::Identity | DAst::Constant(_) => {}
        DAst::Then(x, y) | DAst::And(x, y) => {
            let mk = |x: DAst, y: DAst| if matches!(t, DAst::Then(..)) { DAst::Then(b(x), b(y)) } else { DAst::And(b(x), b(y)) };
            for c in x.children() {
                out.push(mk(c.clone(), (**y).clone()));
            }
            for c in y.children() {
                out.push(mk((**x).clone(), c.clone()));
            }
            for s in shrink_tree(x) {
                out.push(mk(s, (**y).clone()));
            }
            for s in shrink_tree(y) {
                out.push(mk((**x).clone(), s));
            }
        }
        DAst::MapList(f) | DAst::MapPair(f) | DAst::MapArr2(f) | DAst::Repeat(f, _) | DAst::Dyn(f) => {
            let mk = |x: DAst| match t {
                DAst::MapList(_) => DAst::MapList(b(x)),
                DAst::MapPair(_) => DAst::MapPair(b(x)),
                DAst::MapArr2(_) => DAst::MapArr2(b(x)),
                DAst::Repeat(_, n) => DAst::Repeat(b(x), *n),
                _ => DAst::Dyn(b(x)),
            };
            for c in f.children() {
                out.push(mk(c.clone()));
            }
            for s in shrink_tree(f) {
                out.push(mk(s));
            }
            if let DAst::Repeat(_, n) = t {
                if *n > 0 {
                    out.push(DAst::Repeat(f.clone(), n - 1));
                }
            }
        }
    }
    out.truncate(40);
    out
}

/// Further applications on the same operator value (a third of the scenarios): each with its own input and
/// its own fault position (or none).
fn gen_more(g: &mut Xo, max_fault: usize) -> Vec<(Option<usize>, u64, usize)> {
    if g.chance(1, 3000) {
        // a LONG SESSION: 1200 further applications on the same operator value (cumulative effects)
        return (0..1200)
            .map(|_| {
                let fault = if g.chance(3, 4) { None } else { Some(g.usize_below(max_fault.max(1))) };
                (fault, g.next_u64(), g.urange(0, 3))
            })
            .collect();
    }
    if !g.chance(1, 3) {
        return Vec::new();
    }
    (0..g.urange(1, 2))
        .map(|_| {
            let fault = if g.coin() { None } else { Some(g.usize_below(max_fault.max(1))) };
            (fault, g.next_u64(), g.urange(0, 4))
        })
        .collect()
}

fn gen_dynamic(g: &mut Xo) -> Sc {
    let input_seed = g.next_u64();
    // (rarely) long Vec inputs: Map over hundreds of elements
    let long = g.chance(1, 40);
    let list_len = if long { g.log_uniform(5, 3000) } else { g.urange(0, 4) };
    let rng = RngSpec::swarm(g);
    let kind = if long { InKind::List } else { *g.pick(&[InKind::U, InKind::U, InKind::Pair, InKind::Arr2, InKind::List]) };
    let input = make_input(input_seed, list_len);
    let probe_rng = rng.build();
    let mut chosen: Option<(DAst, usize)> = None;
    for _ in 0..8 {
        let depth = g.urange(2, 9);
        let mut tg = TreeGen { next_id: 0 };
        let (tree, _) = tg.gen(g, &in_shape(kind), depth);
        if let Some(m) = model_calls(&tree, input.val(kind), &probe_rng, DYN_MAX_CALLS + 4 * list_len + 1) {
            if m <= DYN_MAX_CALLS + 4 * list_len {
                chosen = Some((tree, m));
                break;
            }
        }
    }
    let (tree, m) = chosen.unwrap_or((DAst::Then(Box::new(DAst::P(1)), Box::new(DAst::P(2))), 2));
    let fault = if m == 0 || g.chance(1, 5) { None } else { Some(g.below(m as u64) as usize) };
    let more = gen_more(g, m.max(1));
    Sc { shape: 0, fault, input_seed, list_len, rng, tree: Some((kind, tree)), more }
}

impl C14 {
    fn static_runs(&self, tier: Tier) -> u64 {
        let per = (self.shapes.len() * (MAX_FAULT + 1)) as u64;
        per * if tier == Tier::Quick { SEEDS_QUICK } else { SEEDS_THOROUGH }
    }
}

impl Check for C14 {
    type Scenario = Sc;

    fn id(&self) -> &'static str {
        "C14"
    }

    fn level(&self) -> &'static str {
        "fault_enumeration"
    }

    fn declared_probes(&self) -> Vec<&'static str> {
        vec![
            "fault.component-fail",
            "probe.dynamic-tree",
            "probe.dynamic-tree-depth>=6",
            "probe.more-than-16-bits-worth-of-elements",
            "probe.typed-instantiation(zero-sized/niche/bulky-results-and-errors)",
            "probe.operator-value-applied-more-than-once",
        ]
    }

    fn rule(&self) -> String {
        format!(
            "{} composition shapes (then / then_map / and / map over pair, array, Vec / apply_twice / apply_n_times<0,1,3> / Identity / Constant / \
             Mutate, Recombine, Select by value and by reference / GenomeExtractor / GenomeScorer via wrap) of logging probe operators, each \
             shape x every fault position 'probe call k fails' for k = none, 0..{} x seeded inputs and streams (Vec inputs of length 0-4). The \
             model interpreter predicts log (probe id, input fingerprint, word drawn), output, draw count / next word and the error path. \
             Plus seeded DYNAMIC TREES: compositions of depth 2..=10 (<= {} probe calls) generated at run time, every inner node the real \
             Then / And / Map (Vec, pair, [_;2]) / RepeatWith<0..=4> / Identity / Constant, parts erased behind a harness pointer that \
             implements Operator<Val> (some subtrees additionally routed through the crate's &dyn DynOperator), fault position drawn \
             uniformly from the fault-free call count. \
             Non-trivial iff a fault actually fired or >= 2 probe calls ran; distinct = (shape or tree, fault position, input length) cells",
            self.shapes.len(),
            MAX_FAULT - 1,
            DYN_MAX_CALLS
        )
    }

    fn runs(&self, tier: Tier) -> u64 {
        self.static_runs(tier) + if tier == Tier::Quick { DYN_QUICK } else { DYN_THOROUGH }
    }

    fn generate(&self, g: &mut Xo, tier: Tier, run: u64) -> Sc {
        if run % 20_000 == 19_999 {
            // sizes beyond 16 bits (see `exec_big`)
            let list_len = if g.chance(1, 3) {
                0
            } else {
                match g.below(4) {
                    0 => 65_536,
                    1 => 65_537,
                    _ => g.log_uniform(65_536, 200_000),
                }
            };
            let n = if list_len > 0 { list_len } else { 65_537 };
            let fault = match g.below(5) {
                0 => None,
                1 => Some(n - 1 - g.urange(0, 1500).min(n - 1)), // in the last (partial) block
                2 => Some(g.urange(0, 40)),
                _ => Some(g.usize_below(n)),
            };
            return Sc { shape: BIG, fault, input_seed: g.next_u64(), list_len, rng: RngSpec::swarm(g), tree: None, more: Vec::new() };
        }
        if run % 100 == 77 {
            // typed instantiations (see `exec_typed`): kind and fault position enumerated by run index
            let k = run / 100;
            let kind = k % TYPED_KINDS;
            let list_len = match (k / TYPED_KINDS) % 4 {
                0 => g.urange(0, 4),
                1 => g.urange(5, 70),
                _ => g.log_uniform(1, 3000),
            };
            let n = if kind < 5 { list_len } else { 5000 };
            let fault = match (k / TYPED_KINDS / 4) % 4 {
                0 => None,
                1 => Some(0),
                2 if n > 0 => Some(n - 1),
                _ => Some(g.usize_below(n.max(1))),
            };
            return Sc { shape: TYPED, fault, input_seed: (g.next_u64() / TYPED_KINDS) * TYPED_KINDS + kind, list_len, rng: RngSpec::swarm(g), tree: None, more: Vec::new() };
        }
        if run >= self.static_runs(tier) {
            return gen_dynamic(g);
        }
        let per = (self.shapes.len() * (MAX_FAULT + 1)) as u64;
        let cell = (run % per) as usize;
        let shape = cell / (MAX_FAULT + 1);
        let f = cell % (MAX_FAULT + 1);
        Sc {
            shape,
            fault: if f == 0 { None } else { Some(f - 1) },
            input_seed: g.next_u64(),
            list_len: if g.chance(1, 60) {
                g.log_uniform(5, 3000)
            } else if (run / per) % 8 == 5 {
                ((run / per / 8) % 129) as usize // dense sweep of Vec lengths 0..=128 (by run index)
            } else {
                g.urange(0, 4)
            },
            rng: RngSpec::swarm(g),
            tree: None,
            more: gen_more(g, MAX_FAULT),
        }
    }

    fn execute(&self, sc: &Sc, obs: &mut Obs) -> Vec<Violation> {
        if sc.shape == BIG && sc.tree.is_none() {
            return exec_big(sc, obs);
        }
        if sc.shape == TYPED && sc.tree.is_none() {
            return exec_typed(sc, obs);
        }
        // applications on ONE operator value: the first, then `more`
        let specs: Vec<(Option<usize>, u64, usize)> =
            std::iter::once((sc.fault, sc.input_seed, sc.list_len)).chain(sc.more.iter().copied()).collect();
        let apps: Vec<App> = specs.iter().map(|(f, seed, len)| App { input: make_input(*seed, *len), fault: *f }).collect();
        let mut real_rng = sc.rng.build();
        let sh = Shared::default();
        // ---- model: every application is predicted independently of the others (same stream, in sequence)
        let (kind, ast, name): (InKind, Ast, String) = match &sc.tree {
            Some((kind, tree)) => (*kind, tree.model(), "dyn-tree".to_string()),
            None => {
                let Some(shape) = self.shapes.get(sc.shape) else { return Vec::new() };
                (shape.input, shape.ast.clone(), shape.name.to_string())
            }
        };
        let mut model_rng = real_rng.fork();
        let mut expected: Vec<(Result<Val, Vec<String>>, Vec<LogEntry>)> = Vec::new();
        for a in &apps {
            let mut cx = ModelCtx { rng: model_rng, log: Vec::new(), fail_at: a.fault, budget: usize::MAX };
            let e = eval(&ast, a.input.val(kind), &mut cx);
            if let Err(p) = &e {
                if p.iter().any(|t| t.starts_with("model:")) {
                    return Vec::new(); // (a shrink candidate whose tree does not fit its input)
                }
            }
            model_rng = cx.rng;
            expected.push((e, cx.log));
        }
        // ---- real
        let got = if let Some((kind, tree)) = &sc.tree {
            obs.hit("probe.dynamic-tree");
            obs.count("probe.dynamic-tree-depth-sum", tree.depth() as u64);
            if tree.depth() >= 6 {
                obs.hit("probe.dynamic-tree-depth>=6");
            }
            catch(|| {
                let op = build(tree, &sh);
                apps.iter()
                    .map(|a| {
                        sh.begin(a.fault);
                        match op.apply(a.input.val(*kind), &mut real_rng) {
                            Ok(o) => Ok(o),
                            Err(e) => Err(error_path(&e)),
                        }
                    })
                    .collect::<Vec<_>>()
            })
        } else {
            let Some(shape) = self.shapes.get(sc.shape) else { return Vec::new() };
            catch(|| (shape.run)(&sh, &apps, &mut real_rng))
        };
        let mut v = Vec::new();
        let name = name.as_str();
        let key = |c: &str| format!("{c}:{name}");
        let got = match got {
            Ok(g) => g,
            Err(p) => {
                v.push(Violation::new(
                    "never-panics",
                    key("panic"),
                    format!("{name} (applications {specs:?}): panicked: {}", p.message),
                ));
                return v;
            }
        };
        let logs = sh.logs();
        obs.count("steps", logs.iter().map(Vec::len).sum::<usize>() as u64);
        obs.count("draws", real_rng.draws());
        if apps.len() > 1 {
            obs.hit("probe.operator-value-applied-more-than-once");
        }
        if apps.len() > 1000 {
            obs.hit("probe.long-session-on-one-operator-value");
        }
        let mut any_fired = false;
        let mut calls = 0usize;
        let empty: Vec<LogEntry> = Vec::new();
        for (i, a) in apps.iter().enumerate() {
            let (exp, mlog) = &expected[i];
            let log = logs.get(i).unwrap_or(&empty);
            calls += mlog.len();
            let fired = a.fault.is_some_and(|k| k < mlog.len());
            if fired {
                obs.hit("fault.component-fail");
                any_fired = true;
            }
            let nth = if apps.len() > 1 { format!(" [application #{i} of {} on the same operator value]", apps.len()) } else { String::new() };
            let cfg = match &sc.tree {
                Some((kind, tree)) => {
                    format!("tree {tree:?} on input {kind:?}, fault at probe call {:?}, Vec input length {}{nth}", a.fault, specs[i].2)
                }
                None => format!("{name}, fault at probe call {:?}, Vec input length {}{nth}", a.fault, specs[i].2),
            };
            let before = v.len();
            if log != mlog {
                let first = log.iter().zip(mlog).position(|(a, b)| a != b).unwrap_or(log.len().min(mlog.len()));
                let clause = if log.len() > mlog.len() && fired { "stops-at-first-failure" } else { "parts-run-in-order-on-the-right-input" };
                v.push(Violation::new(
                    clause,
                    key("log"),
                    format!(
                        "{cfg}: probe log differs from the model at call {first}: real {:?} (of {} calls) vs model {:?} (of {} calls)",
                        log.get(first),
                        log.len(),
                        mlog.get(first),
                        mlog.len()
                    ),
                ));
            }
            match (got.get(i), exp) {
                (Some(Ok(a)), Ok(b)) => {
                    if a != b {
                        v.push(Violation::new("output", key("output"), format!("{cfg}: output {a:?} differs from the model's {b:?}")));
                    }
                }
                (Some(Err(a)), Err(b)) => {
                    if a != b {
                        v.push(Violation::new(
                            "error-identifies-failing-part",
                            key("error-path"),
                            format!("{cfg}: error path {a:?}, model expects {b:?}"),
                        ));
                    }
                }
                (Some(Ok(a)), Err(b)) => v.push(Violation::new(
                    "stops-at-first-failure",
                    key("missing-error"),
                    format!("{cfg}: returned Ok({a:?}) although the model expects the error {b:?}"),
                )),
                (Some(Err(a)), Ok(_)) => v.push(Violation::new(
                    "error-identifies-failing-part",
                    key("spurious-error"),
                    format!("{cfg}: failed with {a:?} although no part failed"),
                )),
                (None, _) => v.push(Violation::new("harness-self-check", key("missing-result"), format!("{cfg}: no result recorded"))),
            }
            if v.len() > before {
                break; // later applications start from a diverged stream
            }
        }
        if v.is_empty() && real_rng.state_fingerprint() != model_rng.state_fingerprint() {
            v.push(Violation::new(
                "shared-stream-consumed-left-to-right-only-by-parts",
                key("rng"),
                format!(
                    "{name} (applications {specs:?}): afterwards the stream is at draw {} (model: {}); the combinators themselves must not draw and nothing may draw after a failure",
                    real_rng.draws(),
                    model_rng.draws()
                ),
            ));
        }
        if any_fired || calls >= 2 {
            let shape_fp = match &sc.tree {
                Some((kind, tree)) => simcore::fnv1a(format!("{kind:?}{tree:?}").as_bytes()),
                None => sc.shape as u64,
            };
            obs.nontrivial(mix(mix(mix(mix(7, shape_fp), sc.fault.map_or(99, |k| k as u64)), sc.list_len as u64), sc.more.len() as u64));
        }
        v
    }

    fn shrink(&self, sc: &Sc) -> Vec<Sc> {
        let mut out = Vec::new();
        for i in 0..sc.more.len() {
            let mut m = sc.more.clone();
            m.remove(i);
            out.push(Sc { more: m, ..sc.clone() });
        }
        if let Some((f, seed, len)) = sc.more.first() {
            // the later application alone
            out.push(Sc { fault: *f, input_seed: *seed, list_len: *len, more: sc.more[1..].to_vec(), ..sc.clone() });
        }
        if let Some((kind, tree)) = &sc.tree {
            // replace the tree by one of its parts, or a part by one of its own parts (candidates that
            // do not fit the input are recognised by the model and ignored)
            for c in tree.children() {
                out.push(Sc { tree: Some((*kind, c.clone())), ..sc.clone() });
            }
            for t in shrink_tree(tree) {
                out.push(Sc { tree: Some((*kind, t)), ..sc.clone() });
            }
            if let Some(k) = sc.fault {
                if k > 0 {
                    out.push(Sc { fault: Some(k - 1), ..sc.clone() });
                }
            }
        }
        if sc.list_len > 0 {
            out.push(Sc { list_len: sc.list_len - 1, ..sc.clone() });
        }
        if sc.rng.q16 != 0 {
            out.push(Sc { rng: RngSpec::seeded(sc.rng.seed), ..sc.clone() });
        }
        if sc.fault.is_some() {
            out.push(Sc { fault: None, ..sc.clone() });
        }
        for s in 0..2u64 {
            if sc.input_seed != s {
                out.push(Sc { input_seed: s, ..sc.clone() });
            }
            if sc.rng.seed != s {
                out.push(Sc { rng: RngSpec { seed: s, ..sc.rng.clone() }, ..sc.clone() });
            }
        }
        out
    }

    fn extra_coverage(
        &self,
        tier: Tier,
        _c: &std::collections::BTreeMap<String, u64>,
    ) -> serde_json::Map<String, serde_json::Value> {
        let mut m = serde_json::Map::new();
        m.insert("shapes".into(), serde_json::json!(self.shapes.iter().map(|s| s.name).collect::<Vec<_>>()));
        m.insert("fault_positions_per_shape".into(), serde_json::json!(MAX_FAULT + 1));
        m.insert("dynamic_tree_runs".into(), serde_json::json!(if tier == Tier::Quick { DYN_QUICK } else { DYN_THOROUGH }));
        let mut g = Xo::from_seed(1);
        m.insert("dynamic_tree_samples".into(), serde_json::json!((0..3).map(|_| format!("{:?}", gen_dynamic(&mut g).tree)).collect::<Vec<_>>()));
        m.insert(
            "seeds_per_cell".into(),
            serde_json::json!(if tier == Tier::Quick { SEEDS_QUICK } else { SEEDS_THOROUGH }),
        );
        m
    }

    fn assumptions(&self) -> Vec<String> {
        vec![
            "the composition-AST interpreter in c14.rs is the intended meaning of 'then / and / map / repetition'".into(),
            "the combinators' error types live in private modules: the failing part / element is read from the derived Debug structure of the error value (First / Second / MapError(inner, index)), not from message wording".into(),
            "RepeatWith passes the inner error through unchanged (its Error type is the inner operator's)".into(),
            "dynamic trees: the harness' own type erasure (HBox) forwards every rng method 1:1 and keeps the Debug structure of the error it replaces".into(),
        ]
    }

    fn real_components(&self) -> Vec<&'static str> {
        vec!["ec-core operator::composable (Then, And, Map, RepeatWith, Composable methods)", "Identity, Constant, GenomeExtractor, GenomeScorer/wrap, Select, Mutate, Recombine (by value and by reference)"]
    }

    fn stub_components(&self) -> Vec<&'static str> {
        vec!["probe operators / selector / mutator / recombinator", "composition-AST model interpreter", "SimRng stream"]
    }
}

fn main() {
    main_for(C14 { shapes: shapes() });
}
