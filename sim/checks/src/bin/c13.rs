//! C13 — weighted selector combinations choose members in proportion to their
//! weights. Marker member selectors identify the delegate exactly; exact
//! clauses per run (any stream) + seeded statistical decision per member
//! (DESIGN §5 C13, §3.7).

use std::sync::{
    atomic::{AtomicU64, Ordering},
    Arc,
};

use ec_core::{
    operator::selector::{
        dyn_weighted::{DynWeighted, DynWeightedError},
        Selector,
    },
    weighted::{
        error::{SelectionError, WeightSumOverflow, WeightedPairError},
        weighted_pair::WeightedPair,
        with_weight::WithWeight,
        with_weighted_item::WithWeightedItem,
        Weighted,
    },
};
use rand::Rng;
use serde::{Deserialize, Serialize};
use simcore::{catch, fnv1a, main_for, mix, stats, Check, FastRng, Obs, RngSpec, Tier, Violation, Xo};

type Pop = Vec<u32>;

/// Marker selector: returns `&population[i]` and counts its invocations.
#[derive(Clone)]
struct Nth {
    i: usize,
    hits: Arc<Vec<AtomicU64>>,
}

#[derive(Debug)]
struct NthErr;

impl std::fmt::Display for NthErr {
    fn fmt(&self, f: &mut std::fmt::Formatter<'_>) -> std::fmt::Result {
        f.write_str("marker selector: population too small")
    }
}

impl std::error::Error for NthErr {}

impl Selector<Pop> for Nth {
    type Error = NthErr;

    fn select<'pop, R: Rng + ?Sized>(&self, pop: &'pop Pop, _: &mut R) -> Result<&'pop u32, NthErr> {
        self.hits[self.i].fetch_add(1, Ordering::Relaxed);
        pop.get(self.i).ok_or(NthErr)
    }
}

#[derive(Debug, PartialEq, Eq)]
enum NErr {
    ZeroWeight,
    Member,
}

impl From<SelectionError<NthErr>> for NErr {
    fn from(e: SelectionError<NthErr>) -> Self {
        match e {
            SelectionError::ZeroWeight(_) => NErr::ZeroWeight,
            SelectionError::Selector(_) => NErr::Member,
            // (a maintainer may add variants / mark the enum non_exhaustive)
            #[allow(unreachable_patterns)]
            _ => NErr::Member,
        }
    }
}

impl From<SelectionError<WeightedPairError<NErr, NErr>>> for NErr {
    fn from(e: SelectionError<WeightedPairError<NErr, NErr>>) -> Self {
        match e {
            SelectionError::ZeroWeight(_) => NErr::ZeroWeight,
            SelectionError::Selector(WeightedPairError::A(x) | WeightedPairError::B(x)) => x,
            #[allow(unreachable_patterns)]
            _ => NErr::Member,
        }
    }
}

/// A dynamically shaped tree whose inner nodes are the *real* `WeightedPair`.
enum Node {
    Leaf(Weighted<Nth>),
    Pair(Box<WeightedPair<Node, Node>>),
}

impl WithWeight for Node {
    fn weight(&self) -> u32 {
        match self {
            Node::Leaf(w) => w.weight(),
            Node::Pair(p) => p.weight(),
        }
    }
}

impl Selector<Pop> for Node {
    type Error = NErr;

    fn select<'pop, R: Rng + ?Sized>(&self, pop: &'pop Pop, rng: &mut R) -> Result<&'pop u32, NErr> {
        match self {
            Node::Leaf(w) => w.select(pop, rng).map_err(Into::into),
            Node::Pair(p) => p.select(pop, rng).map_err(Into::into),
        }
    }
}

#[derive(Serialize, Deserialize, Clone, Debug, PartialEq)]
enum Shape {
    Leaf(usize),
    Pair(Box<Shape>, Box<Shape>),
}

fn build(shape: &Shape, weights: &[u32], hits: &Arc<Vec<AtomicU64>>) -> Result<Node, WeightSumOverflow> {
    match shape {
        Shape::Leaf(i) => Ok(Node::Leaf(Weighted::new(Nth { i: *i, hits: hits.clone() }, weights[*i]))),
        Shape::Pair(a, b) => {
            let (na, nb) = (build(a, weights, hits)?, build(b, weights, hits)?);
            Ok(Node::Pair(Box::new(WeightedPair::new(na, nb)?)))
        }
    }
}

/// Model of `build`: the first overflowing node in build order (post-order).
fn model_build(shape: &Shape, weights: &[u32]) -> Result<u32, (u32, u32)> {
    match shape {
        Shape::Leaf(i) => Ok(weights[*i]),
        Shape::Pair(a, b) => {
            let wa = model_build(a, weights)?;
            let wb = model_build(b, weights)?;
            wa.checked_add(wb).ok_or((wa, wb))
        }
    }
}

#[derive(Serialize, Deserialize, Clone, Copy, Debug, PartialEq, Eq)]
enum Api {
    /// real WeightedPair at every inner node of an arbitrary tree
    Tree,
    /// the real left-nested `with_item_and_weight` chain (2-5 members)
    Chain,
    /// DynWeighted list
    Dyn,
}

#[derive(Serialize, Deserialize, Clone, Debug)]
enum Sc {
    One {
        api: Api,
        shape: Shape,
        weights: Vec<u32>,
        rng: RngSpec,
        /// members with index >= pop_len fail (the population is too short for them); None = nobody fails
        #[serde(default)]
        pop_len: Option<usize>,
        /// DynWeighted only: after this many members were added the list is USED (a few selections), then
        /// the remaining members are added — "no matter in which order it was built"
        #[serde(default)]
        warm_after: Option<usize>,
    },
    Dist {
        api: Api,
        shape: Shape,
        weights: Vec<u32>,
        trials: u64,
        seed: u64,
        cells_total: u64,
        #[serde(default)]
        warm_after: Option<usize>,
    },
}

enum Built {
    Tree(Node),
    Chain(Box<dyn Fn(&Pop, &mut dyn rand::RngCore) -> Result<u32, String> + Send + Sync>),
    Dyn(DynWeighted<Pop>),
    BuildError(u32, u32),
}

fn build_any(api: Api, shape: &Shape, weights: &[u32], hits: &Arc<Vec<AtomicU64>>, warm_after: Option<usize>) -> Built {
    let nth = |i: usize| Nth { i, hits: hits.clone() };
    match api {
        Api::Tree => match build(shape, weights, hits) {
            Ok(n) => Built::Tree(n),
            Err(WeightSumOverflow(a, b)) => Built::BuildError(a, b),
        },
        Api::Dyn => {
            // odd-length lists use the weights scaled by 2^32 (same proportions, same zero pattern):
            // a usize weight must not be narrowed on the way in
            // ... and small weights (total <= 15) are scaled by 2^60: totals of about 2^62 .. 2^64, where reducing a
            // random word modulo the total is visibly biased
            let total: u64 = weights.iter().map(|w| u64::from(*w)).sum();
            let scale: usize = if total <= 15 && weights.len() % 3 != 1 {
                1 << 60
            } else if weights.len() % 2 == 1 && weights.iter().all(|w| *w < 1 << 20) {
                1 << 32
            } else {
                1
            };
            let mut d: DynWeighted<Pop> = DynWeighted::new(nth(0), weights[0] as usize * scale);
            let warm = |d: &DynWeighted<Pop>, added: usize| {
                if warm_after == Some(added) {
                    // use the partially built list, then forget what the markers counted
                    let pop: Pop = (0..weights.len() as u32).map(|i| 100 + i).collect();
                    let mut r = FastRng::new(0x5eed ^ added as u64);
                    for _ in 0..3 {
                        let _ = d.select(&pop, &mut r);
                    }
                    for h in hits.iter() {
                        h.store(0, Ordering::Relaxed);
                    }
                }
            };
            warm(&d, 1);
            for (i, w) in weights.iter().enumerate().skip(1) {
                d = d.with_selector(nth(i), *w as usize * scale);
                warm(&d, i + 1);
            }
            Built::Dyn(d)
        }
        Api::Chain => {
            macro_rules! finish {
                ($c:expr) => {
                    match $c {
                        Ok(c) => Built::Chain(Box::new(move |pop: &Pop, mut rng: &mut dyn rand::RngCore| {
                            c.select(pop, &mut rng).map(|x| *x).map_err(|e| format!("{e:?}"))
                        })),
                        Err(WeightSumOverflow(a, b)) => Built::BuildError(a, b),
                    }
                };
            }
            let w = weights;
            match w.len() {
                2 => finish!(Weighted::new(nth(0), w[0]).with_item_and_weight(nth(1), w[1])),
                3 => finish!(Weighted::new(nth(0), w[0]).with_item_and_weight(nth(1), w[1]).with_item_and_weight(nth(2), w[2])),
                4 => finish!(Weighted::new(nth(0), w[0])
                    .with_item_and_weight(nth(1), w[1])
                    .with_item_and_weight(nth(2), w[2])
                    .with_item_and_weight(nth(3), w[3])),
                _ => finish!(Weighted::new(nth(0), w[0])
                    .with_item_and_weight(nth(1), w[1])
                    .with_item_and_weight(nth(2), w[2])
                    .with_item_and_weight(nth(3), w[3])
                    .with_item_and_weight(nth(4), w[4])),
            }
        }
    }
}

/// One selection; returns Ok(Some(value)) / Ok(None) = zero-weight error / Err(text) = anything else.
fn select_once<R: Rng>(b: &Built, pop: &Pop, rng: &mut R) -> Result<Option<u32>, String> {
    match b {
        Built::Tree(n) => match n.select(pop, rng) {
            Ok(x) => Ok(Some(*x)),
            Err(NErr::ZeroWeight) => Ok(None),
            Err(NErr::Member) => Err("member error".into()),
        },
        Built::Chain(f) => match f(pop, rng) {
            Ok(x) => Ok(Some(x)),
            // derived Debug names the leaf error type (robust against message rewording)
            Err(e) if e.contains("ZeroWeight") => Ok(None),
            Err(e) => Err(e),
        },
        Built::Dyn(d) => match d.select(pop, rng) {
            Ok(x) => Ok(Some(*x)),
            Err(DynWeightedError::ZeroWeightSum(_)) => Ok(None),
            Err(e) => Err(e.to_string()),
        },
        Built::BuildError(..) => Err("not built".into()),
    }
}

fn left_chain(n: usize) -> Shape {
    let mut s = Shape::Leaf(0);
    for i in 1..n {
        s = Shape::Pair(Box::new(s), Box::new(Shape::Leaf(i)));
    }
    s
}

#[allow(clippy::too_many_lines)]
fn exec_one(
    api: Api,
    shape: &Shape,
    weights: &[u32],
    spec: &RngSpec,
    pop_len: Option<usize>,
    warm_after: Option<usize>,
    obs: &mut Obs,
) -> Vec<Violation> {
    let n = weights.len();
    let hits: Arc<Vec<AtomicU64>> = Arc::new((0..n).map(|_| AtomicU64::new(0)).collect());
    let live = pop_len.unwrap_or(n).min(n);
    let pop: Pop = (0..live as u32).map(|i| 100 + i).collect();
    let site = format!("{api:?}");
    let cfg = format!(
        "{api:?} {shape:?} weights {weights:?}{}{}",
        if live < n { format!(" (members #{live}.. fail)") } else { String::new() },
        warm_after.map_or(String::new(), |k| format!(" (list used after {k} member(s) were added, then extended)"))
    );
    let mut v = Vec::new();
    let built = match catch(|| build_any(api, shape, weights, &hits, warm_after)) {
        Ok(b) => b,
        Err(p) => {
            v.push(Violation::new("never-panics", format!("panic-build:{site}"), format!("{cfg}: building panicked: {}", p.message)));
            return v;
        }
    };
    let total: u64 = weights.iter().map(|w| u64::from(*w)).sum();
    // static chains: a total that does not fit in 32 bits is rejected at build time
    if api != Api::Dyn {
        let model = if api == Api::Chain { model_build(&left_chain(n), weights) } else { model_build(shape, weights) };
        match (&built, model) {
            (Built::BuildError(a, b), Err((ma, mb))) => {
                obs.hit("fault.weight-sum-overflow");
                if (*a, *b) != (ma, mb) {
                    v.push(Violation::new(
                        "overflow-rejected-at-build",
                        format!("overflow-fields:{site}"),
                        format!("{cfg}: rejected with WeightSumOverflow({a},{b}), expected ({ma},{mb})"),
                    ));
                }
                return v;
            }
            (Built::BuildError(a, b), Ok(_)) => {
                v.push(Violation::new(
                    "overflow-rejected-at-build",
                    format!("spurious-overflow:{site}"),
                    format!("{cfg}: rejected with WeightSumOverflow({a},{b}) although the total {total} fits in 32 bits"),
                ));
                return v;
            }
            (_, Err((ma, mb))) => {
                v.push(Violation::new(
                    "overflow-rejected-at-build",
                    format!("overflow-accepted:{site}"),
                    format!("{cfg}: accepted although the weight total {total} does not fit in 32 bits (first overflowing sum {ma}+{mb})"),
                ));
                return v;
            }
            _ => {
                if total == u64::from(u32::MAX) {
                    obs.hit("probe.total-exactly-u32-max-accepted");
                }
            }
        }
    }
    let mut rng = spec.build();
    let r = catch(|| select_once(&built, &pop, &mut rng));
    obs.count("draws", rng.draws());
    obs.count("fault.adversarial-stream-words", rng.boundary_fired());
    let invoked: Vec<u64> = hits.iter().map(|h| h.load(Ordering::Relaxed)).collect();
    let n_invoked: u64 = invoked.iter().sum();
    match r {
        Err(p) => v.push(Violation::new("never-panics", format!("panic:{site}"), format!("{cfg}: selection panicked: {}", p.message))),
        Ok(Err(e)) => {
            // a member's own failure is passed on — by exactly the one member that was chosen
            let failing_chosen = n_invoked == 1 && invoked.iter().position(|h| *h > 0).is_some_and(|i| i >= live && weights[i] > 0);
            if failing_chosen {
                obs.hit("fault.component-fail");
            } else if pop.is_empty() && n_invoked == 0 {
                // nobody can be selected from an empty population: a combination may say so itself, before it
                // chooses a member (and before it looks at its weights) — no selection was delegated at all
                obs.hit("probe.empty-population-reported-by-the-combination-itself");
            } else {
                v.push(Violation::new(
                    "delegates-to-exactly-one-member",
                    format!("unexpected-error:{site}"),
                    format!("{cfg}: selection failed with `{e}`; members invoked {invoked:?}"),
                ));
            }
        }
        Ok(Ok(None)) => {
            obs.hit("fault.zero-total-weight");
            if total != 0 {
                v.push(Violation::new(
                    "zero-weight-error-only-for-all-zero",
                    format!("spurious-zero-weight:{site}"),
                    format!("{cfg}: reported a zero-weight error although the total weight is {total}"),
                ));
            }
            if n_invoked != 0 {
                v.push(Violation::new(
                    "zero-weight-members-never-used",
                    format!("member-used-despite-zero-total:{site}"),
                    format!("{cfg}: zero-weight error, but members were invoked: {invoked:?}"),
                ));
            }
        }
        Ok(Ok(Some(x))) => {
            if total == 0 {
                v.push(Violation::new(
                    "all-zero-weights-report-an-error",
                    format!("selected-despite-zero-total:{site}"),
                    format!("{cfg}: all weights are zero but a selection was made"),
                ));
            }
            if n_invoked != 1 {
                v.push(Violation::new(
                    "delegates-to-exactly-one-member",
                    format!("member-invocations:{site}"),
                    format!("{cfg}: one selection invoked members {invoked:?} times"),
                ));
            }
            if let Some(i) = invoked.iter().position(|h| *h > 0) {
                if weights[i] == 0 {
                    v.push(Violation::new(
                        "zero-weight-members-never-used",
                        format!("zero-weight-member-used:{site}"),
                        format!("{cfg}: member #{i} has weight 0 but was used"),
                    ));
                }
                if i >= live && n_invoked == 1 {
                    v.push(Violation::new(
                        "delegates-to-exactly-one-member",
                        format!("failure-swallowed:{site}"),
                        format!("{cfg}: member #{i} was chosen and failed, but the selection returned {x}"),
                    ));
                } else if x != 100 + i as u32 && n_invoked == 1 {
                    v.push(Violation::new(
                        "delegates-to-exactly-one-member",
                        format!("result-not-from-delegate:{site}"),
                        format!("{cfg}: member #{i} was invoked but the result is {x}"),
                    ));
                }
            }
            if weights.contains(&0) && total > 0 {
                obs.hit("probe.some-zero-weights-in-a-live-combination");
            }
        }
    }
    if n >= 2 {
        let mut fp = fnv1a(cfg.as_bytes());
        fp = mix(fp, invoked.iter().position(|h| *h > 0).map_or(99, |i| i as u64));
        obs.nontrivial(fp);
    }
    v
}

#[allow(clippy::too_many_arguments)]
fn exec_dist(
    api: Api,
    shape: &Shape,
    weights: &[u32],
    trials: u64,
    seed: u64,
    cells_total: u64,
    warm_after: Option<usize>,
    obs: &mut Obs,
) -> Vec<Violation> {
    let n = weights.len();
    let hits: Arc<Vec<AtomicU64>> = Arc::new((0..n).map(|_| AtomicU64::new(0)).collect());
    let pop: Pop = (0..n as u32).map(|i| 100 + i).collect();
    let Ok(built) = catch(|| build_any(api, shape, weights, &hits, warm_after)) else { return Vec::new() };
    if matches!(built, Built::BuildError(..)) {
        return Vec::new();
    }
    let total: u64 = weights.iter().map(|w| u64::from(*w)).sum();
    if total == 0 {
        return Vec::new();
    }
    let mut rng = FastRng::new(seed);
    for _ in 0..trials {
        match catch(|| select_once(&built, &pop, &mut rng)) {
            Ok(Ok(Some(_))) => {}
            _ => return Vec::new(), // exact clauses report these
        }
    }
    obs.count("steps", trials);
    obs.nontrivial(fnv1a(format!("{api:?}{shape:?}{weights:?}").as_bytes()));
    let mut v = Vec::new();
    for i in 0..n {
        let p = f64::from(weights[i]) / total as f64;
        let x = hits[i].load(Ordering::Relaxed);
        obs.hit("stat-cells");
        let verdict = stats::decide(trials, x, p, cells_total);
        if verdict.violated {
            let (clause, key) = if weights[i] == 0 {
                ("zero-weight-members-never-used", format!("zero-weight-member-used:{api:?}"))
            } else {
                ("members-chosen-in-proportion-to-weights", format!("proportion:{api:?}"))
            };
            v.push(Violation::new(
                clause,
                key,
                format!(
                    "{api:?} {shape:?} weights {weights:?} (warm-up after {warm_after:?}): member #{i} was used in {x} of {trials} seeded selections; w_i/sum = {p:.5} \
                     (n*KL = {:.1}, threshold {:.1})",
                    verdict.stat, verdict.threshold
                ),
            ));
            break;
        }
    }
    v
}

fn gen_shape(g: &mut Xo, leaves: &mut Vec<usize>, lo: usize, hi: usize, style: u64) -> Shape {
    // leaves lo..hi (indices into the weight vector), in order
    if hi - lo == 1 {
        leaves.push(lo);
        return Shape::Leaf(lo);
    }
    let split = match style {
        0 => hi - 1,                      // left-nested
        1 => lo + 1,                      // right-nested
        2 => lo + (hi - lo) / 2,          // balanced
        _ => lo + 1 + g.usize_below(hi - lo - 1), // random
    };
    Shape::Pair(Box::new(gen_shape(g, leaves, lo, split, style)), Box::new(gen_shape(g, leaves, split, hi, style)))
}

fn gen_case(g: &mut Xo, for_dist: bool) -> (Api, Shape, Vec<u32>) {
    let api = *g.pick(&[Api::Tree, Api::Tree, Api::Chain, Api::Dyn]);
    let n = match api {
        Api::Chain => g.urange(2, 5),
        // (single selections only) long lists / big trees: size-dependent paths of the weighted choice
        Api::Dyn if !for_dist && g.chance(1, 30) => g.log_uniform(7, 500),
        Api::Tree if !for_dist && g.chance(1, 30) => g.log_uniform(7, 60),
        Api::Dyn => g.urange(1, 6),
        Api::Tree => g.urange(1, 6),
    };
    let big = !for_dist && api != Api::Dyn && g.chance(1, 4);
    let weights: Vec<u32> = (0..n)
        .map(|_| {
            if big {
                *g.pick(&[0, 1, u32::MAX, u32::MAX - 1, u32::MAX / 2, u32::MAX / 2 + 1, 1 << 31])
            } else {
                match g.below(10) {
                    0 | 1 => 0,
                    2 => u32::MAX / 2,
                    3 => 5,
                    // large weights of different magnitudes: totals that are a
                    // sizeable, non-power-of-two fraction of 2^32 expose biased
                    // reductions of a random word
                    4 | 5 => *g.pick(&[1u32 << 30, 1 << 31, 3 << 29, u32::MAX / 3, u32::MAX / 5, 1 << 28, 5 << 27]),
                    _ => g.range(1, 3) as u32,
                }
            }
        })
        .collect();
    let weights = if for_dist && api == Api::Dyn {
        // usize weights are summed by the library; keep them small here
        weights.into_iter().map(|w| w.min(1000)).collect()
    } else if !big {
        // keep ordinary totals inside 32 bits
        let mut acc = 0u64;
        weights
            .into_iter()
            .map(|w| {
                if acc + u64::from(w) > u64::from(u32::MAX) {
                    1
                } else {
                    acc += u64::from(w);
                    w
                }
            })
            .collect()
    } else {
        weights
    };
    let mut leaves = Vec::new();
    let style = g.below(4);
    // (chains and dynamic lists have no shape of their own: the placeholder keeps the recorded scenario flat; a
    // left-nested chain of 500 members would be a 500-level structure)
    let shape = if api == Api::Tree { gen_shape(g, &mut leaves, 0, n, style) } else { Shape::Leaf(0) };
    (api, shape, weights)
}

/// ENUMERATED single selections: every weight vector over {0, 1, 2, 5} of 1..=4 members x {tree (left-nested,
/// right-nested), chain, dynamic list} x {nobody fails, members from index k on fail} x {list used after j members}
/// x 4 streams. Zero patterns such as "a zero after a positive weight" or "all equal" are all met.
const ENUM_W: [u32; 4] = [0, 1, 2, 5];

fn right_chain(n: usize) -> Shape {
    let mut s = Shape::Leaf(n - 1);
    for i in (0..n - 1).rev() {
        s = Shape::Pair(Box::new(Shape::Leaf(i)), Box::new(s));
    }
    s
}

fn enum_cells() -> u64 {
    // per n: 4^n weight vectors x 4 apis x (n + 1) failure patterns x n warm points x 4 streams
    (1..=4u64).map(|n| 4u64.pow(n as u32) * 4 * (n + 1) * n * 4).sum()
}

fn enum_cell(mut idx: u64) -> Sc {
    let mut n = 1u64;
    loop {
        let block = 4u64.pow(n as u32) * 4 * (n + 1) * n * 4;
        if idx < block || n == 4 {
            break;
        }
        idx -= block;
        n += 1;
    }
    let stream = idx % 4;
    idx /= 4;
    let warm = idx % n;
    idx /= n;
    let fail = idx % (n + 1);
    idx /= n + 1;
    let api_k = idx % 4;
    idx /= 4;
    let n = n as usize;
    let weights: Vec<u32> = (0..n).map(|i| ENUM_W[((idx >> (2 * i)) & 3) as usize]).collect();
    let (api, shape) = match api_k {
        0 => (Api::Tree, left_chain(n)),
        1 => (Api::Tree, right_chain(n)),
        2 if n >= 2 => (Api::Chain, Shape::Leaf(0)),
        2 => (Api::Tree, left_chain(n)),
        _ => (Api::Dyn, Shape::Leaf(0)),
    };
    let rng = match stream {
        0 => RngSpec::seeded(1),
        1 => RngSpec::seeded(0x9e37_79b9 ^ idx),
        2 => RngSpec { q16: 16, ..RngSpec::seeded(3) },
        _ => RngSpec { q16: 5, ..RngSpec::seeded(4 ^ idx) },
    };
    Sc::One {
        api,
        shape,
        weights,
        rng,
        pop_len: if fail as usize == n { None } else { Some(fail as usize) },
        warm_after: if api == Api::Dyn && warm >= 1 && n >= 2 { Some(warm as usize) } else { None },
    }
}

struct C13;

const EXPERIMENTS_QUICK: u64 = 60;
const EXPERIMENTS_THOROUGH: u64 = 600;

impl Check for C13 {
    type Scenario = Sc;

    fn id(&self) -> &'static str {
        "C13"
    }

    fn declared_probes(&self) -> Vec<&'static str> {
        vec![
            "fault.adversarial-stream-words",
            "fault.component-fail",
            "fault.weight-sum-overflow",
            "fault.zero-total-weight",
            "probe.some-zero-weights-in-a-live-combination",
            "probe.total-exactly-u32-max-accepted",
        ]
    }

    fn rule(&self) -> String {
        "marker member selectors Nth(i) (return &population[i], count invocations) inside (a) arbitrary trees whose inner nodes are the real \
         WeightedPair (left-, right-nested, balanced, random; 1-6 members), (b) the real with_item_and_weight chain (2-5 members), \
         (c) DynWeighted lists (1-6). (1) distribution experiments: N seeded selections per configuration, every member's use frequency vs \
         w_i/sum (KL rule, total false-alarm budget 1e-9; weight-0 members exact); (2) seeded single selections under seeded and boundary \
         streams: exactly one member invoked, never a weight-0 member, all-zero => zero-weight error without invoking anyone, totals beyond \
         32 bits rejected at build time with the right fields (also when the overflow happened earlier), totals of exactly u32::MAX accepted; \
         in a third of the runs some members FAIL (component-fail fault): the failure must come from exactly the one member chosen and be \
         passed on (no fallback to another member); DynWeighted lists are also used after k members and then extended (build order / \
         interleaving of building and use must not matter), in single selections and in half of the Dyn experiments. \
         Non-trivial: experiments always; single selections with >= 2 members; distinct = (configuration, delegate) fingerprints"
            .into()
    }

    fn chunk(&self) -> u64 {
        2
    }

    fn runs(&self, tier: Tier) -> u64 {
        match tier {
            Tier::Quick => EXPERIMENTS_QUICK + 3_000_000,
            Tier::Thorough => EXPERIMENTS_THOROUGH + 300_000_000,
        }
    }

    fn generate(&self, g: &mut Xo, tier: Tier, run: u64) -> Sc {
        let exps = if tier == Tier::Quick { EXPERIMENTS_QUICK } else { EXPERIMENTS_THOROUGH };
        if run < exps {
            // the first experiments are FIXED (the same under every seed): totals that are a large, non-power-of-two
            // fraction of the 64-bit (dynamic lists: small weights are scaled by 2^60 when built) resp. 32-bit range,
            // where a biased reduction of a random word is visible
            let fixed: [(Api, Shape, Vec<u32>, Option<usize>); 10] = [
                (Api::Dyn, Shape::Leaf(0), vec![1, 2], None),
                (Api::Dyn, Shape::Leaf(0), vec![5, 5, 5], Some(2)),
                (Api::Dyn, Shape::Leaf(0), vec![2, 1, 0, 0, 3], None),
                (Api::Tree, left_chain(2), vec![1 << 30, 1 << 31], None),
                (Api::Chain, Shape::Leaf(0), vec![1 << 31, 1 << 30, 1 << 29], None),
                (Api::Tree, right_chain(3), vec![3 << 29, 0, 5 << 28], None),
                // long dynamic lists that are used while they are being built (a sampling structure that is kept
                // between calls and only exists for longer lists must follow the list)
                (Api::Dyn, Shape::Leaf(0), vec![1, 2, 3, 1, 2, 3, 1, 2, 3, 9], Some(9)),
                (Api::Dyn, Shape::Leaf(0), vec![0, 0, 0, 0, 0, 0, 0, 0, 0, 0, 0, 0, 4, 1], Some(12)),
                (Api::Dyn, Shape::Leaf(0), (0..40).map(|i| 1 + i % 3).collect(), Some(33)),
                (Api::Dyn, Shape::Leaf(0), (0..300).map(|i| if i < 290 { 1 } else { 100 }).collect(), Some(290)),
            ];
            let (api, shape, weights, warm_fixed) = match fixed.get(run as usize) {
                Some(f) => f.clone(),
                None => {
                    let (a, s, w) = gen_case(g, true);
                    (a, s, w, None)
                }
            };
            let warm_after = if run < 10 {
                warm_fixed
            } else if api == Api::Dyn && weights.len() >= 2 && run % 2 == 1 {
                Some(g.urange(1, weights.len() - 1))
            } else {
                None
            };
            return Sc::Dist {
                api,
                shape,
                weights,
                trials: if tier == Tier::Quick { 100_000 } else { 400_000 },
                seed: g.next_u64(),
                cells_total: exps * 6,
                warm_after,
            };
        }
        if run < exps + enum_cells() {
            return enum_cell(run - exps);
        }
        let (mut api, mut shape, mut weights) = gen_case(g, false);
        if run % 6 == 3 {
            // dense sweep (by run index) of the number of members 1..=96 of a dynamic list
            let n = 1 + ((run / 6) % 96) as usize;
            api = Api::Dyn;
            shape = Shape::Leaf(0);
            weights = (0..n).map(|_| if g.chance(1, 4) { 0 } else { g.range(1, 9) as u32 }).collect();
        }
        let n = weights.len();
        let pop_len = if g.chance(1, 3) { Some(g.urange(0, n)) } else { None };
        let warm_after = if api == Api::Dyn && n >= 2 && g.chance(1, 3) { Some(g.urange(1, n - 1)) } else { None };
        Sc::One { api, shape, weights, rng: RngSpec::swarm(g), pop_len, warm_after }
    }

    fn execute(&self, sc: &Sc, obs: &mut Obs) -> Vec<Violation> {
        match sc {
            Sc::One { api, shape, weights, rng, pop_len, warm_after } => exec_one(*api, shape, weights, rng, *pop_len, *warm_after, obs),
            Sc::Dist { api, shape, weights, trials, seed, cells_total, warm_after } => {
                exec_dist(*api, shape, weights, *trials, *seed, *cells_total, *warm_after, obs)
            }
        }
    }

    fn shrink(&self, sc: &Sc) -> Vec<Sc> {
        let mut out = Vec::new();
        if let Sc::One { api, shape, weights, rng, pop_len, warm_after } = sc {
            let (pop_len, warm_after) = (*pop_len, *warm_after);
            if rng.q16 != 0 {
                out.push(Sc::One { api: *api, shape: shape.clone(), weights: weights.clone(), rng: RngSpec::seeded(rng.seed), pop_len, warm_after });
            }
            if pop_len.is_some() {
                out.push(Sc::One { api: *api, shape: shape.clone(), weights: weights.clone(), rng: rng.clone(), pop_len: None, warm_after });
            }
            if warm_after.is_some() {
                out.push(Sc::One { api: *api, shape: shape.clone(), weights: weights.clone(), rng: rng.clone(), pop_len, warm_after: None });
            }
            for (i, w) in weights.iter().enumerate() {
                for r in [0u32, 1] {
                    if *w != r {
                        let mut ws = weights.clone();
                        ws[i] = r;
                        out.push(Sc::One { api: *api, shape: shape.clone(), weights: ws, rng: rng.clone(), pop_len, warm_after });
                    }
                }
            }
        }
        out
    }

    fn extra_coverage(
        &self,
        tier: Tier,
        _c: &std::collections::BTreeMap<String, u64>,
    ) -> serde_json::Map<String, serde_json::Value> {
        let exps = if tier == Tier::Quick { EXPERIMENTS_QUICK } else { EXPERIMENTS_THOROUGH };
        let trials = if tier == Tier::Quick { 100_000 } else { 400_000 };
        let mut m = serde_json::Map::new();
        m.insert("enumerated_small_configurations".into(), serde_json::json!(enum_cells()));
        m.insert(
            "stat_budget".into(),
            serde_json::json!({
                "delta_total": stats::DELTA_TOTAL,
                "cells": exps * 6,
                "trials_per_experiment": trials,
                "threshold_nKL": stats::threshold(exps * 6),
                "resolution_at_p_0.2": stats::resolution(trials, 0.2, exps * 6),
            }),
        );
        m
    }

    fn assumptions(&self) -> Vec<String> {
        vec![
            "a tree's build order is post-order (left subtree, right subtree, node); the first overflowing sum in that order is the reported one".into(),
            "DynWeighted sums usize weights; totals that overflow usize are outside the statement and not generated".into(),
            "distributional clauses: Chernoff-KL rule, total false-alarm budget 1e-9 per invocation".into(),
        ]
    }

    fn real_components(&self) -> Vec<&'static str> {
        vec!["ec-core weighted (Weighted, WeightedPair, WithWeightedItem, errors)", "ec-core DynWeighted", "rand 0.9.0 Bernoulli::from_ratio / choose_weighted"]
    }

    fn stub_components(&self) -> Vec<&'static str> {
        vec!["marker member selectors", "Node enum that lets WeightedPair hold dynamically shaped children", "FastRng / SimRng streams"]
    }
}

fn main() {
    main_for(C13);
}
