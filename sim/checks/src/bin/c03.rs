//! C03 — program evaluation is total and bounded; only stack overflow aborts
//! it. Bounded liveness + safety monitored at every step boundary, under
//! resource exhaustion (DESIGN §5 C03).

use checks::{
    vmgen::{self, Bias},
    vmsim::{self, Prop, VmSc},
};
use simcore::{fnv1a, main_for, Check, Obs, Tier, Violation, Xo};

struct C03;

impl Check for C03 {
    type Scenario = VmSc;

    fn id(&self) -> &'static str {
        "C03"
    }

    fn declared_probes(&self) -> Vec<&'static str> {
        vec![
            "fault.capacity-shrink",
            "fault.operand-starve",
            "fault.pause-rebuild-resume",
            "fault.step-budget-cut",
            "probe.deep-nesting-fully-unwrapped",
            "probe.deep-nesting-run",
            "probe.deep-nesting>200",
            "probe.fatal-error",
            "probe.giant-block>=65536-children",
            "probe.long-run",
            "probe.long-run-of-millions-of-steps",
            "probe.long-run-output>64KiB",
            "probe.long-run-without-exact-prediction",
            "probe.model-allowed-set-wider-than-one",
            "probe.real-loop-fatal",
            "probe.real-loop-runs",
            "probe.recoverable-error",
            "probe.skip-equals-noop-compared",
            "probe.whole-vs-chunked-evaluation",
        ]
    }

    fn rule(&self) -> String {
        "ENUMERATED: every int / float instruction on every ordered pair of boundary literals, and every program of <= 5 nodes built \
         from <= 2 distinct instructions (one of them exec-structural); SEEDED: loop- and growth-biased Push programs (block duplication, exec dup/swap/push, nesting <= 8 generated structurally plus the whole program wrapped 65..=1200 blocks deep in 1/200 of the runs, i64/f64 extremes, \
         capacities 0..=12 / 64, all inputs bound) run harness-stepped (<= 400 steps + nesting depth) and by the real loop for a sweep of \
         step limits (0..=k for a seeded k <= 60, T-1, T, T+1, 10^4, usize::MAX); plus, in 1/700 of the runs, LONG executions: a self-re-creating loop [exec.dup [body exec.dup]] run by the real loop for 1000..=30000 steps (some bodies print > 64 KiB per step) and compared with a model-only run at the end, and ONE very long evaluation of 6*10^6 (quick) / 2*10^7 (thorough) steps (evaluation must not depend on elapsed time); monitored: returns (catch_unwind + watchdog), \
         Err only for overflow and only where the model says a stack would overflow, every stack size <= its maximum at every \
         step boundary, state(L) == stepped state after min(L,T) steps; non-trivial iff >= 5 steps ran and (a fatal overflow \
         struck or the exec stack grew beyond its initial size); distinct = distinct scenario fingerprints"
            .into()
    }

    fn runs(&self, tier: Tier) -> u64 {
        match tier {
            Tier::Quick => 300_000 + (vmgen::operand_cells() + vmgen::small_cells()) as u64,
            Tier::Thorough => 15_000_000 + (vmgen::operand_cells() + vmgen::small_cells()) as u64,
        }
    }

    fn generate(&self, g: &mut Xo, tier: Tier, run: u64) -> VmSc {
        if run >= 100 && run < 100 + vmgen::operand_cells() as u64 {
            // the enumerated operand grid: every int / float instruction x every ordered pair of boundary literals
            return vmgen::gen_operand_cell((run - 100) as usize);
        }
        let small0 = 100 + vmgen::operand_cells() as u64;
        if run >= small0 && run < small0 + vmgen::small_cells() as u64 {
            // the small-scope enumeration of exec-structural programs (<= 5 nodes, <= 2 distinct instructions)
            return vmgen::gen_small_cell((run - small0) as usize);
        }
        if run == 7 {
            // one very long evaluation per invocation (millions of steps = a sizeable fraction of a second)
            return vmgen::gen_very_long(g, if tier == Tier::Quick { 6_000_000 } else { 20_000_000 });
        }
        if run % 30_000 == 17 {
            // one giant block (>= 65 536 children): limits and capacities at sizes beyond 16 bits
            return vmgen::gen_giant_nth(g, run / 30000);
        }
        if run % 700 == 349 {
            // a long execution (1000..=30000 steps) of a self-re-creating loop
            return vmgen::gen_long(g);
        }
        let bias = if g.chance(3, 4) { Bias::Growth } else { Bias::Balanced };
        let mut sc = vmgen::gen_scenario(g, bias);
        if g.chance(1, 3) {
            // full sweep of small limits: exposes every intermediate state of the real loop
            let k = g.urange(5, 60);
            sc.limits.extend(0..=k);
            sc.limits.sort_unstable();
            sc.limits.dedup();
        }
        sc
    }

    fn execute(&self, sc: &VmSc, obs: &mut Obs) -> Vec<Violation> {
        let c = |o: &Obs, k: &str| o.counters.get(k).copied().unwrap_or(0);
        let (s0, f0, l0) = (c(obs, "steps"), c(obs, "probe.fatal-error"), c(obs, "probe.real-loop-fatal"));
        let tagged = vmsim::simulate(sc, obs);
        let steps = c(obs, "steps") - s0;
        let fatal = c(obs, "probe.fatal-error") - f0 + c(obs, "probe.real-loop-fatal") - l0;
        if steps >= 5 && (fatal >= 1 || steps > sc.init.program.len() as u64 + 4) {
            obs.nontrivial(fnv1a(format!("{sc:?}").as_bytes()));
        }
        tagged.into_iter().filter(|t| t.prop == Prop::C03).map(|t| t.v).collect()
    }

    fn extra_coverage(
        &self,
        _tier: Tier,
        _c: &std::collections::BTreeMap<String, u64>,
    ) -> serde_json::Map<String, serde_json::Value> {
        let mut m = serde_json::Map::new();
        m.insert("enumerated_operand_grid_cells".into(), serde_json::json!(vmgen::operand_cells()));
        m.insert("enumerated_small_scope_programs".into(), serde_json::json!(vmgen::small_cells()));
        m.insert(
            "enumeration_note".into(),
            serde_json::json!("complete: every int/float instruction x every ordered pair of boundary literals; every program of <= 5 nodes over <= 2 distinct instructions (one exec-structural) x 3 bool stacks x 2 exec capacities; the same under every VERIF_SEED"),
        );
        m
    }

    fn shrink(&self, sc: &VmSc) -> Vec<VmSc> {
        vmgen::shrink(sc)
    }

    fn watchdog_secs(&self) -> u64 {
        240 // (the very long evaluation takes tens of seconds at the thorough tier; everything else microseconds)
    }

    fn hang_is_violation(&self) -> bool {
        true
    }

    fn assumptions(&self) -> Vec<String> {
        vec![
            "nesting depth of generated programs <= 8 + pushed literals; deeper nesting is not explored (derived Clone/Drop/PartialEq of the recursive PushProgram recurse per level)".into(),
            "every input variable a program mentions is bound (the property's proviso)".into(),
            "the 120 s watchdog only turns a genuine hang into a report; the bounded work of a run is < 10 ms".into(),
            "pushmodel decides where a stack 'would overflow'".into(),
        ]
    }

    fn real_components(&self) -> Vec<&'static str> {
        vec!["push (run_to_completion loop, perform, try_recover, Stack capacity checks, all instructions)"]
    }

    fn stub_components(&self) -> Vec<&'static str> {
        vec!["pushmodel reference interpreter"]
    }
}

fn main() {
    main_for(C03);
}
