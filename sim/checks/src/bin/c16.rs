//! C16 — all randomness comes from the supplied generator; evaluation is
//! deterministic. The DST determinism audit turned on the library itself: a
//! registry of every rng-consuming public operation is run (R1) twice from
//! forked streams, (R2) in fresh OS threads and fresh processes, (R3) in
//! interleaved / concurrent call histories on one operator value, and (R5)
//! Push programs with their inputs declared in every order (DESIGN §5 C16).

use std::num::NonZeroUsize;

use checks::{
    vm::{build_real, exec_contents, snap, Lit, VmInit},
    vmgen::{self, Bias},
};
use ec_core::{
    distributions::{
        collection::{ConvertToCollectionGenerator, Generator},
        conversion::{IntoDistribution, ToDistribution},
    },
    individual::{
        ec::{EcIndividual, WithScorer},
        scorer::FnScorer,
    },
    operator::{
        composable::Composable,
        genome_extractor::GenomeExtractor,
        genome_scorer::GenomeScorer,
        mutator::{Mutate, Mutator},
        recombinator::{Recombinator, Recombine},
        selector::{
            best::Best, dyn_weighted::DynWeighted, lexicase::Lexicase, random::Random, tournament::Tournament,
            worst::Worst, DynSelector, Select, Selector,
        },
        Operator,
    },
    test_results::{Score, TestResults},
    uniform_distribution_of,
    weighted::{with_weighted_item::WithWeightedItem, Weighted},
};
use ec_linear::{
    genome::{
        bitstring::{Bitstring, BoolGenerator},
        vector::Vector,
    },
    mutator::{umad::Umad, with_one_over_length::WithOneOverLength, with_rate::WithRate},
    recombinator::{two_point_xo::TwoPointXo, uniform_xo::UniformXo},
};
use push::{
    error::{into_state::IntoState, Error as PushError},
    genome::plushy::{ConvertToGeneGenerator, Plushy, PushGene},
    instruction::{variable_name::VariableName, BoolInstruction, FloatInstruction, IntInstruction, PushInstruction},
    push_vm::State,
};
use rand::{
    distr::{Distribution, StandardUniform},
    Rng,
};
use serde::{Deserialize, Serialize};
use simcore::{catch, fnv1a, main_for, mix, Check, Obs, RngSpec, SimRng, Tier, Violation, Xo};

type Ind = EcIndividual<Bitstring, TestResults<Score<i64>>>;
type Pop = Vec<Ind>;
type OpFn = Box<dyn Fn(u64, &mut SimRng) -> String + Send + Sync>;

struct RegOp {
    name: &'static str,
    f: OpFn,
}

fn count_ones(b: &Bitstring) -> TestResults<Score<i64>> {
    b.bits.iter().copied().map(i64::from).collect()
}

/// Size of a population / genome / collection derived from a data seed. Most are small (0..=small); a
/// fixed fraction is medium (<= 70), large (<= 300), huge (<= 1500) or giant (<= 20000), so that size-dependent fast paths
/// (thresholds such as "16 x the tournament size", 64-bit words, chunked loops) are part of the registry.
/// The class comes from the seed's top byte, so the Miri leg can restrict itself to small/medium sizes.
fn sz(seed: u64, small: usize) -> usize {
    let class = seed >> 56;
    let r = fnv1a(&seed.to_le_bytes());
    let span = |lo: usize, hi: usize| lo + (r % (hi - lo + 1) as u64) as usize;
    match class {
        0..=165 => span(0, small),
        166..=216 => span(small + 1, 70.max(small + 2)),
        217..=247 => span(71, 300),
        248..=253 => span(301, 1500),
        _ => span(1501, 20_000),
    }
}

thread_local! {
    /// R6: build every Vec-backed argument with spare capacity (an EQUAL value in a different in-memory
    /// representation); the outcome must not depend on it.
    static ALT_REPR: std::cell::Cell<bool> = const { std::cell::Cell::new(false) };
    /// R7: build an EQUAL operator configuration through another history (a dynamic weighted list that is
    /// selected from between its builder calls)
    static ALT_BUILD: std::cell::Cell<bool> = const { std::cell::Cell::new(false) };
}

/// The vector itself, or an equal one that went through a different allocation history.
fn repr<T>(v: Vec<T>) -> Vec<T> {
    if ALT_REPR.with(std::cell::Cell::get) {
        let mut w = Vec::with_capacity(v.len() * 2 + 9);
        w.extend(v);
        w.push_within_capacity_dummy();
        w
    } else {
        v
    }
}

trait PushPopDummy {
    fn push_within_capacity_dummy(&mut self);
}

impl<T> PushPopDummy for Vec<T> {
    /// (spare capacity is all that differs; nothing is pushed — kept as a hook for future representations)
    fn push_within_capacity_dummy(&mut self) {}
}

fn make_pop(seed: u64) -> Pop {
    let mut g = Xo::from_seed(seed);
    let n = sz(seed, 7);
    // few bits => many tied totals; some populations have wider genomes
    let width = if g.chance(1, 4) { g.urange(5, 12) } else { g.urange(1, 4) };
    (0..n)
        .map(|_| {
            let b = Bitstring { bits: repr((0..width).map(|_| g.coin()).collect()) };
            let r = count_ones(&b);
            EcIndividual::new(b, r)
        })
        .collect::<Vec<_>>()
        .pipe(repr)
}

trait Pipe: Sized {
    fn pipe<R>(self, f: impl FnOnce(Self) -> R) -> R {
        f(self)
    }
}

impl<T> Pipe for T {}

fn show<T: std::fmt::Debug, E: std::fmt::Display>(r: Result<T, E>) -> String {
    match r {
        Ok(t) => format!("Ok({t:?})"),
        Err(e) => format!("Err({e})"),
    }
}

fn sel_op<S>(name: &'static str, s: S) -> RegOp
where
    S: Selector<Pop> + Send + Sync + 'static,
    S::Error: std::fmt::Display,
{
    RegOp {
        name,
        f: Box::new(move |seed, rng| {
            let pop = make_pop(seed);
            let r = s.select(&pop, rng).map(|x| pop.iter().position(|y| std::ptr::eq(x, y)));
            show(r)
        }),
    }
}

fn instr_dist() -> impl Distribution<PushInstruction> + ec_core::distributions::choices::ChoicesDistribution + Clone + Send + Sync {
    // built from an array, as the examples do
    #[derive(Clone)]
    struct D(Vec<PushInstruction>);
    impl Distribution<PushInstruction> for D {
        fn sample<R: Rng + ?Sized>(&self, rng: &mut R) -> PushInstruction {
            let d = ToDistribution::<PushInstruction>::to_distribution(&self.0).expect("non-empty");
            d.sample(rng)
        }
    }
    impl ec_core::distributions::choices::ChoicesDistribution for D {
        fn num_choices(&self) -> NonZeroUsize {
            NonZeroUsize::new(self.0.len()).expect("non-empty")
        }
    }
    D(vec![
        FloatInstruction::Add.into(),
        FloatInstruction::Subtract.into(),
        IntInstruction::Multiply.into(),
        BoolInstruction::And.into(),
        VariableName::from("x").into(),
        push::instruction::ExecInstruction::if_else().into(),
    ])
}

#[allow(clippy::too_many_lines)]
fn registry() -> Vec<RegOp> {
    let k3 = NonZeroUsize::new(3).expect("3");
    let mut v: Vec<RegOp> = vec![
        sel_op("Best", Best),
        sel_op("Worst", Worst),
        sel_op("Random", Random),
        sel_op("Tournament(3)", Tournament::new(k3)),
        sel_op("Tournament::binary", Tournament::binary()),
        sel_op("Lexicase(4)", Lexicase::new(4)),
        sel_op("Lexicase(2)", Lexicase::new(2)),
        sel_op(
            "Weighted chain",
            Weighted::new(Best, 1)
                .with_item_and_weight(Worst, 2)
                .with_item_and_weight(Random, 3)
                .with_item_and_weight(Tournament::new(k3), 1)
                .expect("small weights"),
        ),
        sel_op(
            "DynWeighted",
            DynWeighted::<Pop>::new(Best, 1).with_selector(Lexicase::new(4), 5).with_selector(Tournament::binary(), 3),
        ),
        sel_op("Select(&Random) via &S", Random),
    ];
    // a selection that FAILS (a result is missing / the tournament is larger than the population), then an
    // ordinary selection with the same selector value on the same thread: an error path must leave nothing behind
    v.push(RegOp {
        name: "Lexicase(3): failed selection, then a selection",
        f: {
            let l = Lexicase::new(3);
            Box::new(move |seed, rng| {
                let pop = make_pop(seed);
                // ragged: the second individual has no results at all
                let mut ragged: Pop = make_pop(seed ^ 0x5a5a);
                if ragged.len() >= 2 {
                    let b = Bitstring { bits: Vec::new() };
                    let r = count_ones(&b);
                    ragged[1] = EcIndividual::new(b, r);
                }
                let first = l.select(&ragged, rng).is_ok();
                let r = l.select(&pop, rng).map(|x| pop.iter().position(|y| std::ptr::eq(x, y)));
                format!("{first} {}", show(r))
            })
        },
    });
    v.push(RegOp {
        name: "Tournament(3): failed selection, then a selection",
        f: {
            let t = Tournament::new(k3);
            Box::new(move |seed, rng| {
                let pop = make_pop(seed);
                let tiny: Pop = make_pop(seed ^ 0xa5a5).into_iter().take(2).collect();
                let first = t.select(&tiny, rng).is_ok();
                let r = t.select(&pop, rng).map(|x| pop.iter().position(|y| std::ptr::eq(x, y)));
                format!("{first} {}", show(r))
            })
        },
    });
    v.push(RegOp {
        name: "DynWeighted (built per call)",
        f: Box::new(move |seed, rng| {
            let pop = make_pop(seed);
            let used = ALT_BUILD.with(std::cell::Cell::get);
            let warm = |d: &DynWeighted<Pop>| {
                if used {
                    let mut r = SimRng::seeded(seed ^ 0x77);
                    let _ = d.select(&pop, &mut r);
                    let _ = d.select(&Vec::new(), &mut r);
                }
            };
            let mut d = DynWeighted::<Pop>::new(Best, if seed % 3 == 0 { 0 } else { 1 });
            warm(&d);
            d = d.with_selector(Lexicase::new(4), 5);
            warm(&d);
            d = d.with_selector(Tournament::binary(), 3);
            warm(&d);
            show(d.select(&pop, rng).map(|x| pop.iter().position(|y| std::ptr::eq(x, y))))
        }),
    });
    v.push(RegOp {
        name: "Box<dyn DynSelector>(Tournament)",
        f: {
            let b: Box<dyn DynSelector<Pop> + Send + Sync> = Box::new(Tournament::binary());
            Box::new(move |seed, rng| {
                let pop = make_pop(seed);
                show(b.select(&pop, rng).map(|x| pop.iter().position(|y| std::ptr::eq(x, y))))
            })
        },
    });
    // mutators
    let bits = |seed: u64| -> Vec<bool> {
        let mut g = Xo::from_seed(seed);
        let n = sz(seed, 12);
        repr((0..n).map(|_| g.coin()).collect())
    };
    v.push(RegOp { name: "WithRate(0.3)/Vec<bool>", f: Box::new(move |s, rng| show(WithRate::new(0.3).mutate(bits(s), rng))) });
    v.push(RegOp {
        name: "WithRate(0.5)/Bitstring",
        f: Box::new(move |s, rng| show(WithRate::new(0.5).mutate(Bitstring { bits: bits(s) }, rng))),
    });
    v.push(RegOp {
        name: "WithOneOverLength/Bitstring",
        f: Box::new(move |s, rng| show(WithOneOverLength.mutate(Bitstring { bits: bits(s) }, rng))),
    });
    v.push(RegOp {
        name: "WithOneOverLength/Vec<bool>",
        f: Box::new(move |s, rng| show(WithOneOverLength.mutate(bits(s), rng))),
    });
    {
        let umad = Umad::new(0.3, 0.2, uniform_distribution_of![<u32> 7u32, 8u32, 9u32, 10u32, 11u32]);
        v.push(RegOp {
            name: "Umad/Vector<u32> with OneOfCloning generator",
            f: Box::new(move |s, rng| {
                let n = sz(s, 9) as u32;
                let parent: Vector<u32> = Vector { genes: repr((0..n).collect()) };
                show(umad.mutate(parent, rng).map(|c| c.genes))
            }),
        });
    }
    {
        let gg = instr_dist().into_gene_generator();
        let umad = Umad::new_with_empty_rate(0.2, 0.5, 0.15, gg);
        v.push(RegOp {
            name: "Umad/Plushy with GeneGenerator",
            f: Box::new(move |s, rng| {
                let n = sz(s, 7) as i64;
                let parent = Plushy::new((0..n).map(|i| {
                    if i % 3 == 2 {
                        PushGene::Close
                    } else {
                        PushGene::Instruction(PushInstruction::push_int(i))
                    }
                }));
                show(umad.mutate(parent, rng))
            }),
        });
    }
    // recombinators
    let parents = |seed: u64| -> (Vec<u32>, Vec<u32>) {
        let n = sz(seed, 8) as u32;
        let m = if seed % 11 == 0 { n + 1 } else { n };
        // (only the FIRST parent gets the alternative representation: the two then differ in capacity)
        (repr((0..n).collect()), (100..100 + m).collect())
    };
    v.push(RegOp { name: "TwoPointXo/[Vec;2]", f: Box::new(move |s, rng| { let (a, b) = parents(s); show(TwoPointXo.recombine([a, b], rng)) }) });
    v.push(RegOp { name: "TwoPointXo/(Vec,Vec)", f: Box::new(move |s, rng| show(TwoPointXo.recombine(parents(s), rng))) });
    v.push(RegOp { name: "UniformXo/[Vec;2]", f: Box::new(move |s, rng| { let (a, b) = parents(s); show(UniformXo.recombine([a, b], rng)) }) });
    v.push(RegOp { name: "UniformXo/(Vec,Vec)", f: Box::new(move |s, rng| show(UniformXo.recombine(parents(s), rng))) });
    v.push(RegOp {
        name: "TwoPointXo/[Bitstring;2]",
        f: Box::new(move |s, rng| {
            let n = sz(s, 8);
            show(TwoPointXo.recombine([Bitstring { bits: repr(vec![false; n]) }, Bitstring { bits: vec![true; n] }], rng))
        }),
    });
    v.push(RegOp {
        name: "UniformXo/(Bitstring,Bitstring)",
        f: Box::new(move |s, rng| {
            let n = sz(s, 8);
            show(UniformXo.recombine((Bitstring { bits: repr(vec![false; n]) }, Bitstring { bits: vec![true; n] }), rng))
        }),
    });
    // generators and distributions
    v.push(RegOp {
        name: "Generator<StandardUniform>/Vec<bool>",
        f: Box::new(|s, rng| {
            let x: Vec<bool> = Generator::new(StandardUniform, sz(s, 19)).sample(rng);
            format!("{x:?}")
        }),
    });
    v.push(RegOp { name: "Bitstring::random", f: Box::new(|s, rng| format!("{:?}", Bitstring::random(sz(s, 19), rng))) });
    v.push(RegOp {
        name: "Bitstring::random_with_probability",
        f: Box::new(|s, rng| format!("{:?}", Bitstring::random_with_probability(sz(s, 19), 0.2, rng))),
    });
    v.push(RegOp {
        name: "Generator<BoolGenerator>/Bitstring",
        f: Box::new(|s, rng| {
            let x: Bitstring = BoolGenerator::new(0.7).into_collection_generator(sz(s, 19)).sample(rng);
            format!("{x:?}")
        }),
    });
    v.push(RegOp {
        name: "OneOfCloning (into_distribution of Vec)",
        f: {
            let d = IntoDistribution::<u32>::into_distribution(vec![3u32, 1, 4, 1, 5, 9, 2]).expect("non-empty");
            Box::new(move |_, rng| format!("{:?}", (d.sample(rng), d.sample(rng), d.sample(rng))))
        },
    });
    v.push(RegOp {
        name: "ChooseCloning / Choose (to_distribution of array)",
        f: Box::new(|_, rng| {
            let a = [2u32, 7, 1, 8, 2, 8];
            let c = ToDistribution::<u32>::to_distribution(&a).expect("non-empty");
            let r = ToDistribution::<&u32>::to_distribution(&a).expect("non-empty");
            format!("{:?}", (c.sample(rng), *r.sample(rng), c.sample(rng)))
        }),
    });
    {
        let gg = instr_dist().into_gene_generator();
        v.push(RegOp {
            name: "GeneGenerator sample",
            f: Box::new(move |_, rng| {
                let a: PushGene = gg.sample(rng);
                let b: PushGene = gg.sample(rng);
                format!("{a:?} {b:?}")
            }),
        });
    }
    {
        let gg = instr_dist().into_gene_generator_with_close_probability(0.3);
        v.push(RegOp {
            name: "Plushy generation (collection generator)",
            f: Box::new(move |s, rng| {
                let p: Plushy = gg.to_collection_generator(sz(s, 11)).sample(rng);
                format!("{p:?}")
            }),
        });
    }
    v.push(RegOp {
        name: "IndividualGenerator + population generator",
        f: Box::new(|s, rng| {
            let pop: Pop = StandardUniform
                .to_collection_generator(5)
                .with_scorer(FnScorer(|b: &Bitstring| count_ones(b)))
                .into_collection_generator(sz(s, 5).min(200))
                .sample(rng);
            format!("{pop:?}")
        }),
    });
    // whole pipelines, as in the examples
    v.push(RegOp {
        name: "pipeline count_ones (Select.apply_twice.then_map(Extract).then(TwoPointXo).then(WithOneOverLength).wrap(Scorer))",
        f: {
            let selector = DynWeighted::<Pop>::new(Best, 1).with_selector(Lexicase::new(4), 5).with_selector(Tournament::binary(), 4);
            let op = Select::new(selector)
                .apply_twice()
                .then_map(GenomeExtractor)
                .then(Recombine::new(TwoPointXo))
                .then(Mutate::new(WithOneOverLength))
                .wrap::<GenomeScorer<_, _>>(FnScorer(|b: &Bitstring| count_ones(b)));
            Box::new(move |s, rng| {
                let pop = make_pop(s);
                show(op.apply(&pop, rng))
            })
        },
    });
    v.push(RegOp {
        name: "pipeline (Select(Tournament).then(Extract).then(Mutate(WithRate)).and(Select(Random)))",
        f: {
            let op = Select::new(Tournament::binary())
                .then(GenomeExtractor)
                .then(Mutate::new(WithRate::new(0.25)))
                .and(Select::new(Random).then(GenomeExtractor));
            Box::new(move |s, rng| {
                let pop = make_pop(s);
                show(op.apply(&pop, rng))
            })
        },
    });
    v
}

// ---------------------------------------------------------------------------

#[derive(Serialize, Deserialize, Clone, Debug)]
enum Sc {
    /// R1 + R3 on registry operation `op`
    Op { op: usize, data: Vec<u64>, rng_a: RngSpec, rng_b: RngSpec, threads: usize },
    /// R2: a fresh process recomputes `count` (op, seed) digests
    Proc { chunk_seed: u64, count: usize },
    /// R5: Push evaluation vs input declaration order
    Push { init: VmInit, perm_seed: u64 },
    /// R5 at scale: `n` (8000 .. 30 000; an input is looked up by a linear scan, so the cost is quadratic) distinct input names, each bound to its own number, declared in a seeded order
    /// and read in another: every read must give the value declared for exactly that name (whatever names are
    /// keyed by internally — a hash, an interned id — distinct names must stay distinct)
    ManyInputs { n: usize, scheme: u8, seed: u64 },
    /// lexicase selection over very many cases, several times on one thread with the same stream
    BigLexicase { cases: usize, seed: u64 },
}

fn many_name(scheme: u8, i: usize, seed: u64) -> String {
    match scheme % 3 {
        0 => format!("in{i}"),
        1 => {
            // seeded lowercase words of 5..=9 letters followed by the number (so that they are distinct)
            let mut h = mix(seed, i as u64);
            let len = 5 + (h % 5) as usize;
            let mut t = String::new();
            for _ in 0..len {
                h = mix(h, 0x9e37);
                t.push((b'a' + (h % 26) as u8) as char);
            }
            format!("{t}{i}")
        }
        _ => format!("{:x}", mix(seed, i as u64) ^ ((i as u64) << 40)),
    }
}

/// Lexicase selection over `cases` (>= 2^20) cases on three individuals, of which two take turns at being the best
/// (so the order of the cases decides) and one is never selected: repeated on one thread with the same stream, and
/// once more on a fresh thread, every call must select the same individual — nothing (buffers kept per thread
/// included) may be carried from one call to the next.
fn exec_big_lexicase(cases: usize, seed: u64, obs: &mut Obs) -> Vec<Violation> {
    let mut v = Vec::new();
    let pop: Vec<EcIndividual<u8, TestResults<Score<i64>>>> = (0..3u8)
        .map(|who| {
            let results: TestResults<Score<i64>> = (0..cases)
                .map(|c| match who {
                    0 => i64::from(c % 2 == 0),
                    1 => i64::from(c % 2 == 1),
                    _ => 0,
                })
                .collect();
            EcIndividual::new(who, results)
        })
        .collect();
    let l = Lexicase::new(cases);
    let once = |l: &Lexicase, s: u64| -> String {
        let mut r = simcore::FastRng::new(s);
        show(l.select(&pop, &mut r).map(|x| pop.iter().position(|y| std::ptr::eq(x, y))))
    };
    obs.hit("probe.lexicase-over-2^20-or-more-cases");
    obs.nontrivial(mix(0xb191e, cases as u64));
    let r = catch(|| {
        let mut outcomes: Vec<(u64, String)> = Vec::new();
        for k in 0..6u64 {
            let s = seed ^ (k % 2);
            outcomes.push((s, once(&l, s)));
            outcomes.push((s, once(&l, s)));
        }
        let fresh: Vec<(u64, String)> = std::thread::scope(|sc| sc.spawn(|| (0..2u64).map(|k| (seed ^ k, once(&Lexicase::new(cases), seed ^ k))).collect()).join().unwrap_or_default());
        (outcomes, fresh)
    });
    obs.count("steps", 14);
    match r {
        Err(p) => v.push(Violation::new("never-panics", "big-lexicase:panic".to_string(), format!("Lexicase over {cases} cases panicked: {}", p.message))),
        Ok((outcomes, fresh)) => {
            for (s, reference) in &fresh {
                if let Some((i, (_, got))) = outcomes.iter().enumerate().find(|(_, (s2, got))| s2 == s && got != reference) {
                    v.push(Violation::new(
                        "no-hidden-state-across-calls",
                        "big-lexicase:history".to_string(),
                        format!(
                            "Lexicase::new({cases}) on three individuals, stream seeded {s:#x}: call #{i} of a series on one thread selected {got}, \
                             the same call on a fresh thread selects {reference}"
                        ),
                    ));
                    break;
                }
            }
        }
    }
    v
}

fn exec_many_inputs(n: usize, scheme: u8, seed: u64, obs: &mut Obs) -> Vec<Violation> {
    use checks::vm::{build_real_from, Caps};
    use push::{instruction::{variable_name::VariableName, PushInstruction}, push_vm::program::PushProgram};
    let mut v = Vec::new();
    let mut g = Xo::from_seed(seed);
    let mut names: Vec<(String, i64)> = (0..n).map(|i| (many_name(scheme, i, seed), i as i64)).collect();
    {
        // (distinctness of the generated names is the harness's business)
        let mut sorted: Vec<&String> = names.iter().map(|(s, _)| s).collect();
        sorted.sort_unstable();
        sorted.dedup();
        if sorted.len() != n {
            return v;
        }
    }
    // distinct names are distinct keys: a million of them in the key type's own hash set (whatever a name is keyed
    // by internally, two different names must never become one entry)
    {
        const MANY: usize = 1_000_000;
        let mut set: std::collections::HashSet<VariableName> = std::collections::HashSet::with_capacity(MANY);
        let mut clash: Option<(String, String)> = None;
        let mut by_key: std::collections::HashMap<VariableName, String> = std::collections::HashMap::new();
        let mut strings: std::collections::HashSet<String> = std::collections::HashSet::with_capacity(MANY);
        for i in 0..MANY {
            let name = many_name(scheme, i, seed ^ 0x77);
            if !strings.insert(name.clone()) {
                continue; // (the harness produced the same string twice: not a second name)
            }
            let key = VariableName::from(name.as_str());
            if !set.insert(key.clone()) {
                // (schemes 0 and 2 cannot repeat a string; scheme 1 appends the index)
                clash = Some((name, String::new()));
                break;
            }
            if i < 50_000 {
                by_key.insert(key, name);
            }
        }
        obs.hit("probe.one-million-distinct-input-names-as-keys");
        if let Some((name, _)) = clash {
            let other = by_key.get(&VariableName::from(name.as_str())).cloned().unwrap_or_else(|| "an earlier, different name".into());
            v.push(Violation::new(
                "push-evaluation-independent-of-declaration-order",
                "many-inputs:distinct-names-collide".to_string(),
                format!("the input names `{name}` and `{other}` are different strings but compare equal as `VariableName`s (one map entry for two inputs)"),
            ));
            return v;
        }
    }
    g.shuffle(&mut names);
    let declared: Vec<(String, Lit)> = names.iter().map(|(s, i)| (s.clone(), Lit::Int(*i))).collect();
    g.shuffle(&mut names);
    let program: Vec<PushProgram> =
        names.iter().map(|(s, _)| PushProgram::Instruction(PushInstruction::InputVar(VariableName::from(s.as_str())))).collect();
    let caps = Caps { exec: usize::MAX, int: usize::MAX, float: 4, bool: 4 };
    let Ok(st) = build_real_from(&caps, Vec::new(), Vec::new(), Vec::new(), program, &declared, usize::MAX) else { return v };
    obs.hit("probe.evaluation-with>=8000-distinct-inputs");
    obs.count("steps", n as u64);
    obs.nontrivial(mix(mix(0x3a4, n as u64), u64::from(scheme)));
    match catch(move || st.run_to_completion().map(|s| snap(&s).int)) {
        Err(p) => v.push(Violation::new(
            "push-evaluation-independent-of-declaration-order",
            "many-inputs:panic".to_string(),
            format!("evaluating a program that reads {n} declared inputs panicked: {}", p.message),
        )),
        Ok(Err(_)) => v.push(Violation::new(
            "push-evaluation-independent-of-declaration-order",
            "many-inputs:error".to_string(),
            format!("evaluating a program that reads {n} declared inputs failed"),
        )),
        Ok(Ok(ints)) => {
            // bottom-first = in the order read
            if ints.len() != n {
                v.push(Violation::new(
                    "push-evaluation-independent-of-declaration-order",
                    "many-inputs:count".to_string(),
                    format!("{n} inputs read, {} values on the int stack", ints.len()),
                ));
            } else if let Some(k) = (0..n).find(|k| ints[*k] != names[*k].1) {
                let other = names.iter().find(|(_, i)| *i == ints[k]).map(|(s, _)| s.clone()).unwrap_or_default();
                v.push(Violation::new(
                    "push-evaluation-independent-of-declaration-order",
                    "many-inputs:wrong-value".to_string(),
                    format!(
                        "{n} distinct inputs declared, each with its own number: reading `{}` gave {} (the value declared for `{other}`), declared {}",
                        names[k].0, ints[k], names[k].1
                    ),
                ));
            }
        }
    }
    v
}

const FIXED_UNDECLARED: [(&[&str], &str); 10] = [
    (&["in1", "IN1"], "In1"),
    (&["total", "TOTAL", "ToTaL"], "Total"),
    (&["ab", "AB", "aB"], "Ab"),
    (&["in10", "in11", "in12"], "in1"),
    (&["x ", " x", " x "], "x"),
    (&["x", "X"], "x "),
    (&["é", "É"], "e"),
    (&["a", "b", "c", "d", "e", "f", "g", "h"], ""),
    (&["value_1", "value_2", "value_3"], "value"),
    (&["A", "B"], "a"),
];

const ODD_NAMES: [&str; 12] = ["x", "X", "in1", "IN1", "In1", "in10", "é", "É", "", " ", "x ", "xX"];

fn rename_in_prog(p: &mut checks::vm::Prog, map: &std::collections::BTreeMap<String, String>) {
    use checks::vm::{Ins, Prog};
    match p {
        Prog::I(Ins::Input(n)) => {
            if let Some(m) = map.get(n) {
                *n = m.clone();
            }
        }
        Prog::I(Ins::PushExec(b)) => rename_in_prog(b, map),
        Prog::B(v) => v.iter_mut().for_each(|x| rename_in_prog(x, map)),
        Prog::I(_) => {}
    }
}

fn rename_inputs(init: &mut VmInit, g: &mut Xo) {
    let mut pool: Vec<&str> = ODD_NAMES.to_vec();
    g.shuffle(&mut pool);
    let mut map = std::collections::BTreeMap::new();
    for (n, _) in &init.inputs {
        if !map.contains_key(n) {
            if let Some(new) = pool.pop() {
                map.insert(n.clone(), new.to_string());
            }
        }
    }
    for (n, _) in &mut init.inputs {
        if let Some(m) = map.get(n) {
            *n = m.clone();
        }
    }
    for p in &mut init.program {
        rename_in_prog(p, &map);
    }
}

struct C16 {
    reg: Vec<RegOp>,
}

/// One call: (result text, stream state afterwards).
fn call(op: &RegOp, data: u64, rng: &mut SimRng) -> (String, (u64, u64, u64)) {
    let r = (op.f)(data, rng);
    (r, rng.state_fingerprint())
}

/// `small_only`: restrict the data seeds to the small / medium size classes (used by the Miri leg, where
/// every operation costs ~100x).
fn proc_items(reg_len: usize, chunk_seed: u64, count: usize, small_only: bool) -> Vec<(usize, u64, u64)> {
    let mut g = Xo::from_seed(chunk_seed);
    (0..count)
        .map(|_| {
            let (op, mut data, seed) = (g.usize_below(reg_len), g.next_u64(), g.next_u64());
            if small_only {
                data = (data & 0x00ff_ffff_ffff_ffff) | (((data >> 56) % 217) << 56);
            }
            (op, data, seed)
        })
        .collect()
}

fn proc_digest(reg: &[RegOp], item: (usize, u64, u64)) -> u64 {
    let (op, data, seed) = item;
    let mut rng = SimRng::seeded(seed);
    let (r, st) = call(&reg[op], data, &mut rng);
    mix(mix(mix(fnv1a(r.as_bytes()), st.0), st.1), st.2)
}

impl C16 {
    fn exec_op(&self, op: usize, data: &[u64], spec_a: &RngSpec, spec_b: &RngSpec, threads: usize, obs: &mut Obs) -> Vec<Violation> {
        let mut v = Vec::new();
        let Some(o) = self.reg.get(op) else { return v };
        let name = o.name;
        let base_a = spec_a.build();
        let base_b = spec_b.build();
        // reference: fresh streams, calls A1 A2 .. and B1 B2 .. separately
        let reference = |base: &SimRng| -> Result<Vec<(String, (u64, u64, u64))>, simcore::Panicked> {
            catch(|| {
                let mut r = base.fork();
                data.iter().map(|d| call(o, *d, &mut r)).collect()
            })
        };
        let (ra, rb) = match (reference(&base_a), reference(&base_b)) {
            (Ok(a), Ok(b)) => (a, b),
            (Err(p), _) | (_, Err(p)) => {
                // panics are other properties' business (C06/C10/C11); not a determinism finding
                obs.hit("probe.operation-panicked");
                let _ = p;
                return v;
            }
        };
        obs.count("steps", 2 * data.len() as u64);
        // R1: again from equal generator states
        if let Ok(ra2) = reference(&base_a) {
            obs.count("steps", data.len() as u64);
            if ra2 != ra {
                let i = ra.iter().zip(&ra2).position(|(x, y)| x != y).unwrap_or(0);
                v.push(Violation::new(
                    "equal-generator-states-give-equal-results-and-states",
                    format!("rerun-differs:{name}"),
                    format!("{name}: call #{i} from an equal generator state gave {:?} the first time and {:?} the second", ra[i], ra2[i]),
                ));
            }
        }
        // R6: equal arguments in another in-memory representation (Vec-backed genomes / populations built with
        // spare capacity): capacity is not part of a value, so nothing may depend on it
        {
            ALT_REPR.with(|a| a.set(true));
            let alt = reference(&base_a);
            ALT_REPR.with(|a| a.set(false));
            if let Ok(alt) = alt {
                obs.hit("fault.ambient-equal-arguments-with-spare-capacity");
                obs.count("steps", data.len() as u64);
                if alt != ra {
                    let i = ra.iter().zip(&alt).position(|(x, y)| x != y).unwrap_or(0);
                    v.push(Violation::new(
                        "nothing-else-influences-the-outcome",
                        format!("capacity-dependent:{name}"),
                        format!(
                            "{name}: call #{i} gave {:?} on arguments built exactly and {:?} on EQUAL arguments built with spare capacity",
                            ra[i], alt[i]
                        ),
                    ));
                }
            }
        }
        // R7: an equal configuration built through another history
        {
            ALT_BUILD.with(|a| a.set(true));
            let alt = reference(&base_a);
            ALT_BUILD.with(|a| a.set(false));
            if let Ok(alt) = alt {
                obs.count("steps", data.len() as u64);
                if alt != ra {
                    let i = ra.iter().zip(&alt).position(|(x, y)| x != y).unwrap_or(0);
                    v.push(Violation::new(
                        "nothing-else-influences-the-outcome",
                        format!("build-history-dependent:{name}"),
                        format!(
                            "{name}: call #{i} gave {:?} on an operator built in one go and {:?} on an EQUAL configuration that was used between its builder calls",
                            ra[i], alt[i]
                        ),
                    ));
                }
            }
        }
        // R2a: the same in a freshly spawned OS thread (fresh thread-locals)
        {
            let got = std::thread::scope(|s| s.spawn(|| reference(&base_a)).join());
            if let Ok(Ok(rt)) = got {
                obs.hit("fault.ambient-fresh-thread");
                obs.count("steps", data.len() as u64);
                if rt != ra {
                    let i = ra.iter().zip(&rt).position(|(x, y)| x != y).unwrap_or(0);
                    v.push(Violation::new(
                        "nothing-else-influences-the-outcome",
                        format!("fresh-thread-differs:{name}"),
                        format!("{name}: call #{i} gave {:?} on this thread and {:?} on a fresh thread", ra[i], rt[i]),
                    ));
                }
            }
        }
        // R3a: interleaved history A1 B1 A2 B2 .. on the one operator value
        if let Ok(inter) = catch(|| {
            let (mut xa, mut xb) = (base_a.fork(), base_b.fork());
            let mut out_a = Vec::new();
            let mut out_b = Vec::new();
            for d in data {
                out_a.push(call(o, *d, &mut xa));
                out_b.push(call(o, *d, &mut xb));
            }
            (out_a, out_b)
        }) {
            obs.hit("fault.interleaved-history");
            obs.count("steps", 2 * data.len() as u64);
            if inter.0 != ra || inter.1 != rb {
                v.push(Violation::new(
                    "no-hidden-state-across-calls",
                    format!("interleaving-differs:{name}"),
                    format!("{name}: interleaving two independent call histories on one operator value changed a result or a stream state"),
                ));
            }
        }
        // R3b: the same operator value called concurrently from several threads
        if threads >= 2 {
            let results: Vec<_> = std::thread::scope(|s| {
                let hs: Vec<_> = (0..threads)
                    .map(|t| {
                        let base = if t % 2 == 0 { &base_a } else { &base_b };
                        s.spawn(move || reference(base))
                    })
                    .collect();
                hs.into_iter().map(|h| h.join()).collect()
            });
            obs.hit("fault.concurrent-callers");
            for (t, r) in results.into_iter().enumerate() {
                if let Ok(Ok(r)) = r {
                    obs.count("steps", data.len() as u64);
                    let want = if t % 2 == 0 { &ra } else { &rb };
                    if &r != want {
                        v.push(Violation::new(
                            "no-hidden-state-across-calls",
                            format!("concurrent-differs:{name}"),
                            format!("{name}: called from {threads} threads at once, thread {t} got a different result or stream state than alone"),
                        ));
                        break;
                    }
                }
            }
        }
        let mut fp = fnv1a(name.as_bytes());
        for (r, _) in &ra {
            fp = mix(fp, fnv1a(r.as_bytes()));
        }
        obs.nontrivial(fp);
        v
    }

    fn exec_proc(&self, chunk_seed: u64, count: usize, obs: &mut Obs) -> Vec<Violation> {
        let items = proc_items(self.reg.len(), chunk_seed, count, false);
        let mine: Vec<u64> = items.iter().map(|it| catch(|| proc_digest(&self.reg, *it)).unwrap_or(0)).collect();
        let out = std::env::current_exe().ok().and_then(|exe| {
            std::process::Command::new(exe).arg("--digest").arg(chunk_seed.to_string()).arg(count.to_string()).output().ok()
        });
        let Some(out) = out else {
            obs.hit("probe.child-process-failed-to-start");
            return Vec::new();
        };
        let theirs: Vec<u64> = String::from_utf8_lossy(&out.stdout)
            .lines()
            .filter_map(|l| l.strip_prefix("D ").and_then(|h| u64::from_str_radix(h, 16).ok()))
            .collect();
        obs.hit("fault.ambient-fresh-process");
        obs.count("steps", 2 * count as u64);
        obs.nontrivial(chunk_seed);
        let mut v = Vec::new();
        if theirs.len() != mine.len() {
            obs.hit("probe.child-process-incomplete");
            return v;
        }
        if let Some(i) = mine.iter().zip(&theirs).position(|(a, b)| a != b) {
            let name = self.reg[items[i].0].name;
            v.push(Violation::new(
                "nothing-else-influences-the-outcome",
                format!("fresh-process-differs:{name}"),
                format!(
                    "{name} (data seed {}, stream seed {}): result/stream-state digest {:016x} in this process, {:016x} in a fresh process",
                    items[i].1, items[i].2, mine[i], theirs[i]
                ),
            ));
        }
        v
    }

    fn exec_push(init: &VmInit, perm_seed: u64, obs: &mut Obs) -> Vec<Violation> {
        let mut v = Vec::new();
        // distinct names only (re-declaring a name is "last wins", not an order-free operation)
        let mut inputs: Vec<(String, Lit)> = Vec::new();
        for (n, l) in &init.inputs {
            if !inputs.iter().any(|(m, _)| m == n) {
                inputs.push((n.clone(), l.clone()));
            }
        }
        let run = |order: &[(String, Lit)]| -> Option<Result<(String, bool), String>> {
            let mut i2 = init.clone();
            i2.inputs = order.to_vec();
            let st = build_real(&i2).ok()?;
            let r = catch(move || st.run_to_completion());
            Some(match r {
                Err(p) => Err(p.message),
                Ok(Ok(s)) => Ok((format!("{:?} {:?}", snap(&s), exec_contents(&s)), true)),
                Ok(Err(e)) => {
                    let e = PushError::Fatal(e);
                    let text = format!("{}", e.error());
                    let s = e.into_state();
                    Ok((format!("{text} {:?} {:?}", snap(&s), exec_contents(&s)), false))
                }
            })
        };
        // (a panic — reading an undeclared input — is an outcome like any other; its message is not compared)
        let class = |r: Result<(String, bool), String>| r.map_err(|_| "evaluation panicked".to_string());
        let Some(base) = run(&inputs).map(class) else { return v };
        if base.is_err() {
            obs.hit("probe.evaluation-panics(undeclared-input)-compared-across-states");
        }
        let text = |r: &Result<(String, bool), String>| match r {
            Ok((t, _)) => t.clone(),
            Err(t) => t.clone(),
        };
        obs.count("steps", 1);
        let mut g = Xo::from_seed(perm_seed);
        let perms = if inputs.len() <= 1 { 1 } else { 6 };
        for k in 0..perms {
            let mut order = inputs.clone();
            if k > 0 {
                g.shuffle(&mut order);
            } // k == 0: same order, separately built state (fresh hash keys)
            let Some(r) = run(&order).map(class) else { continue };
            obs.hit("fault.input-declaration-order-permuted");
            obs.count("steps", 1);
            if r != base {
                v.push(Violation::new(
                    "push-evaluation-independent-of-declaration-order",
                    "input-order".to_string(),
                    format!(
                        "declaring the inputs as {:?} instead of {:?} changed the outcome: {} vs {}",
                        order.iter().map(|(n, _)| n).collect::<Vec<_>>(),
                        inputs.iter().map(|(n, _)| n).collect::<Vec<_>>(),
                        text(&r),
                        text(&base)
                    ),
                ));
                break;
            }
        }
        if inputs.len() >= 2 {
            obs.nontrivial(fnv1a(format!("{init:?}").as_bytes()));
        }
        v
    }
}

impl Check for C16 {
    type Scenario = Sc;

    fn id(&self) -> &'static str {
        "C16"
    }

    fn declared_probes(&self) -> Vec<&'static str> {
        vec![
            "fault.ambient-equal-arguments-with-spare-capacity",
            "fault.ambient-fresh-process",
            "fault.ambient-fresh-thread",
            "fault.concurrent-callers",
            "fault.input-declaration-order-permuted",
            "fault.interleaved-history",
            "probe.evaluation-panics(undeclared-input)-compared-across-states",
            "probe.evaluation-with>=8000-distinct-inputs",
            "probe.one-million-distinct-input-names-as-keys",
        ]
    }

    fn rule(&self) -> String {
        format!(
            "registry of {} rng-consuming public operations of ec-core / ec-linear / push (all selectors incl. weighted, dynamic and erased; \
             all mutators; both recombinators on every genome type; collection / bitstring / Plushy / individual / population generators; \
             OneOfCloning, ChooseCloning, Choose; GeneGenerator; two example pipelines). Per scenario one operator value is called 1-4 times \
             from two seeded/boundary streams: R1 rerun from equal states, R2 in a fresh OS thread and (Proc scenarios) in a fresh process, \
             R3 interleaved A1 B1 A2 B2 and concurrently from 2-4 threads; R5: Push programs with inputs declared in up to 6 permuted orders \
             and in separately built states. Non-trivial: every Op scenario, every Proc chunk, Push scenarios with >= 2 inputs; \
             distinct = (operation, results) fingerprints",
            self.reg.len()
        )
    }

    fn watchdog_secs(&self) -> u64 {
        300 // (statistical experiments / child processes / real thread pools: single runs take seconds)
    }

    fn runs(&self, tier: Tier) -> u64 {
        match tier {
            Tier::Quick => 40_000,
            Tier::Thorough => 2_000_000,
        }
    }

    fn chunk(&self) -> u64 {
        8
    }

    fn nondeterminism_is_finding(&self) -> bool {
        true
    }

    fn custom_command(&self, args: &[String]) -> Option<i32> {
        if args.first().map(String::as_str) != Some("--digest") {
            return None;
        }
        let seed: u64 = args.get(1)?.parse().ok()?;
        let count: usize = args.get(2)?.parse().ok()?;
        let small_only = args.get(3).map(String::as_str) == Some("small");
        simcore::driver::install_quiet_panic_hook();
        for it in proc_items(self.reg.len(), seed, count, small_only) {
            let d = catch(|| proc_digest(&self.reg, it)).unwrap_or(0);
            println!("D {d:016x}");
        }
        Some(0)
    }

    fn generate(&self, g: &mut Xo, tier: Tier, run: u64) -> Sc {
        let procs = if tier == Tier::Quick { 8 } else { 64 };
        if run < procs {
            return Sc::Proc { chunk_seed: g.next_u64(), count: 2000 };
        }
        if run % 16_000 == 6001 {
            // (sizes fixed by the run index: the same under every seed)
            let cases = [1usize << 20, (1 << 20) + 1, 1 << 21][((run / 16_000) % 3) as usize];
            return Sc::BigLexicase { cases, seed: g.next_u64() };
        }
        if run % 8000 == 4001 {
            return Sc::ManyInputs { n: g.log_uniform(8_000, 30_000), scheme: (run / 8000) as u8, seed: g.next_u64() };
        }
        if run % 4 == 3 && run / 4 < FIXED_UNDECLARED.len() as u64 {
            // FIXED (the same under every seed): a program reads an input that is NOT declared while near misses
            // of its name are (other case, a longer name, surrounding blanks) with different values. Whatever
            // evaluation does then, it must do the same in every separately built state.
            let (declared, read) = FIXED_UNDECLARED[(run / 4) as usize];
            let init = VmInit {
                caps: checks::vm::Caps { exec: 16, int: 16, float: 4, bool: 4 },
                int: vec![7],
                float: Vec::new(),
                bool: Vec::new(),
                program: vec![
                    checks::vm::Prog::I(checks::vm::Ins::PushInt(5)),
                    checks::vm::Prog::I(checks::vm::Ins::Input(read.to_string())),
                    checks::vm::Prog::I(checks::vm::Ins::PushInt(6)),
                ],
                inputs: declared.iter().enumerate().map(|(i, n)| (n.to_string(), Lit::Int(10 + i as i64))).collect(),
                limit: 100,
                wrap: 0,
                giant: 0,
            };
            return Sc::Push { init, perm_seed: g.next_u64() };
        }
        if run % 4 == 3 {
            let sc = vmgen::gen_scenario(g, Bias::Balanced);
            let mut init = sc.init;
            if init.limit > 300 {
                init.limit = 300;
            }
            if g.coin() {
                // unusual but legal names: differing only in case, prefixes of
                // each other, non-ASCII — lookups must still be exact
                rename_inputs(&mut init, g);
                if init.inputs.len() >= 2 && g.chance(1, 3) {
                    // ... and one of them is NOT declared although the program reads it (whatever evaluation does
                    // then — today it panics — it must do the same in every separately built state)
                    let k = g.usize_below(init.inputs.len());
                    init.inputs.remove(k);
                }
            }
            return Sc::Push { init, perm_seed: g.next_u64() };
        }
        let n = g.urange(1, 4);
        Sc::Op {
            op: g.usize_below(self.reg.len()),
            data: (0..n).map(|_| g.next_u64()).collect(),
            rng_a: RngSpec::swarm(g),
            rng_b: RngSpec::swarm(g),
            threads: if g.chance(1, 8) { g.urange(2, 4) } else { 0 },
        }
    }

    fn execute(&self, sc: &Sc, obs: &mut Obs) -> Vec<Violation> {
        match sc {
            Sc::Op { op, data, rng_a, rng_b, threads } => self.exec_op(*op, data, rng_a, rng_b, *threads, obs),
            Sc::Proc { chunk_seed, count } => self.exec_proc(*chunk_seed, *count, obs),
            Sc::Push { init, perm_seed } => Self::exec_push(init, *perm_seed, obs),
            Sc::ManyInputs { n, scheme, seed } => exec_many_inputs(*n, *scheme, *seed, obs),
            Sc::BigLexicase { cases, seed } => exec_big_lexicase(*cases, *seed, obs),
        }
    }

    fn shrink(&self, sc: &Sc) -> Vec<Sc> {
        let mut out = Vec::new();
        match sc {
            Sc::Op { op, data, rng_a, rng_b, threads } => {
                for d in simcore::drop_chunks(data) {
                    if !d.is_empty() {
                        out.push(Sc::Op { op: *op, data: d, rng_a: rng_a.clone(), rng_b: rng_b.clone(), threads: *threads });
                    }
                }
                if *threads != 0 {
                    out.push(Sc::Op { op: *op, data: data.clone(), rng_a: rng_a.clone(), rng_b: rng_b.clone(), threads: 0 });
                }
            }
            Sc::Proc { chunk_seed, count } => {
                if *count > 1 {
                    out.push(Sc::Proc { chunk_seed: *chunk_seed, count: count / 2 });
                }
            }
            Sc::Push { init, perm_seed } => {
                let vm = checks::vmsim::VmSc { init: init.clone(), faults: vec![], limits: vec![], rebuild_at: None, long: false };
                for s in vmgen::shrink(&vm) {
                    out.push(Sc::Push { init: s.init, perm_seed: *perm_seed });
                }
            }
            Sc::BigLexicase { .. } => {}
            Sc::ManyInputs { n, scheme, seed } => {
                if *n > 2 {
                    out.push(Sc::ManyInputs { n: n / 2, scheme: *scheme, seed: *seed });
                    out.push(Sc::ManyInputs { n: n - n / 8 - 1, scheme: *scheme, seed: *seed });
                }
            }
        }
        out
    }

    fn extra_coverage(
        &self,
        _tier: Tier,
        _c: &std::collections::BTreeMap<String, u64>,
    ) -> serde_json::Map<String, serde_json::Value> {
        let mut m = serde_json::Map::new();
        m.insert("registry".into(), serde_json::json!(self.reg.iter().map(|o| o.name).collect::<Vec<_>>()));
        m
    }

    fn assumptions(&self) -> Vec<String> {
        vec![
            "results are compared through Debug/Display text, stream states through (draw count, typed-trace digest, next word)".into(),
            "Generation::serial_next/par_next deliberately use rand::rng() (C09's 'live randomness') and are not part of this registry".into(),
            "R4 (the registry under several Miri seeds) is run by tools/c16_miri.py after this binary and merged into the same evidence file".into(),
            "an operation that panics is not a determinism finding here (C06/C10/C11 own 'never panics')".into(),
        ]
    }

    fn real_components(&self) -> Vec<&'static str> {
        vec!["ec-core, ec-linear, push (every registered operation)", "rand 0.9.0", "std HashMap RandomState / thread-locals / process state (varied, not stubbed)"]
    }

    fn stub_components(&self) -> Vec<&'static str> {
        vec!["SimRng streams"]
    }
}

fn main() {
    main_for(C16 { reg: registry() });
}
