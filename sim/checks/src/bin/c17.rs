//! C17 — type-erased (dyn) forms behave exactly like the operators they wrap.
//! For each of the five erasable traits every one of the 28 generated pointer
//! flavours (&, &mut, Box, Arc, Rc, Ref, RefMut × {–, Send, Sync, Send+Sync})
//! plus the blanket `dyn_*` method is called from a fork of the same stream as
//! the concrete value; result, error text/source chain, typed rng trace and
//! next word must agree, and the wrapped value must be called exactly once
//! (DESIGN §5 C17).

use std::{
    cell::{Ref, RefCell, RefMut},
    error::Error as StdError,
    fmt,
    num::NonZeroUsize,
    rc::Rc,
    sync::{
        atomic::{AtomicUsize, Ordering},
        Arc,
    },
};

use ec_core::{
    child_maker::{ChildMaker, DynChildMaker},
    individual::ec::EcIndividual,
    operator::{
        composable::Composable,
        identity::Identity,
        mutator::{DynMutator, Mutator},
        recombinator::{DynRecombinator, Recombinator},
        selector::{
            best::Best, lexicase::Lexicase, random::Random, tournament::Tournament, worst::Worst, DynSelector,
            Selector,
        },
        DynOperator, Operator,
    },
    test_results::{Score, TestResults},
};
use ec_linear::{
    genome::{bitstring::Bitstring, vector::Vector},
    mutator::{umad::Umad, with_one_over_length::WithOneOverLength, with_rate::WithRate},
    recombinator::{two_point_xo::TwoPointXo, uniform_xo::UniformXo},
};
use rand::{distr::Distribution, Rng, RngCore};
use serde::{Deserialize, Serialize};
use simcore::{catch, main_for, mix, Check, Obs, RngSpec, SimRng, Tier, Violation, Xo};

type BoxErr = Box<dyn StdError + Send + Sync>;
type Ind = EcIndividual<u32, TestResults<Score<i64>>>;
type Pop = Vec<Ind>;

#[derive(Debug)]
struct PErr(u32);

impl fmt::Display for PErr {
    fn fmt(&self, f: &mut fmt::Formatter<'_>) -> fmt::Result {
        write!(f, "probe {} failed", self.0)
    }
}

impl StdError for PErr {}

/// Probe implementing all five traits: counts calls, draws two typed words
/// (u32 then u64), optionally fails *after* drawing.
#[derive(Clone)]
struct Probe {
    calls: Arc<AtomicUsize>,
    fail: bool,
}

impl Composable for Probe {}

impl Probe {
    fn fire<R: Rng + ?Sized>(&self, rng: &mut R) -> Result<u64, PErr> {
        self.calls.fetch_add(1, Ordering::Relaxed);
        // three kinds of typed draws: a u32, a u64 and a short byte request
        let a = rng.next_u32();
        let b = rng.next_u64();
        let mut bytes = [0u8; 11];
        rng.fill_bytes(&mut bytes[..3 + (a % 9) as usize]);
        if self.fail {
            Err(PErr(7))
        } else {
            Ok(mix(mix(u64::from(a), b), u64::from_le_bytes(bytes[..8].try_into().unwrap_or([0; 8]))))
        }
    }
}

impl Selector<Pop> for Probe {
    type Error = PErr;

    fn select<'pop, R: Rng + ?Sized>(&self, pop: &'pop Pop, rng: &mut R) -> Result<&'pop Ind, PErr> {
        let w = self.fire(rng)?;
        pop.get((w % (pop.len().max(1) as u64)) as usize).ok_or(PErr(8))
    }
}

impl Mutator<Vec<bool>> for Probe {
    type Error = PErr;

    fn mutate<R: Rng + ?Sized>(&self, mut genome: Vec<bool>, rng: &mut R) -> Result<Vec<bool>, PErr> {
        let w = self.fire(rng)?;
        if let Some(b) = genome.first_mut() {
            *b = w & 1 == 1;
        }
        Ok(genome)
    }
}

/// Zero-sized genome: nothing to change, but the wrapped mutator still draws and may still fail.
impl Mutator<()> for Probe {
    type Error = PErr;

    fn mutate<R: Rng + ?Sized>(&self, genome: (), rng: &mut R) -> Result<(), PErr> {
        self.fire(rng).map(|_| genome)
    }
}

impl Recombinator<[(); 2]> for Probe {
    type Output = ();
    type Error = PErr;

    fn recombine<R: Rng + ?Sized>(&self, _: [(); 2], rng: &mut R) -> Result<(), PErr> {
        self.fire(rng).map(|_| ())
    }
}

impl Operator<()> for Probe {
    type Output = u64;
    type Error = PErr;

    fn apply<R: Rng + ?Sized>(&self, (): (), rng: &mut R) -> Result<u64, PErr> {
        self.fire(rng)
    }
}

impl Recombinator<[Vec<u32>; 2]> for Probe {
    type Output = Vec<u32>;
    type Error = PErr;

    fn recombine<R: Rng + ?Sized>(&self, [a, b]: [Vec<u32>; 2], rng: &mut R) -> Result<Vec<u32>, PErr> {
        let w = self.fire(rng)?;
        Ok(if w & 1 == 1 { a } else { b })
    }
}

impl Operator<u64> for Probe {
    type Output = u64;
    type Error = PErr;

    fn apply<R: Rng + ?Sized>(&self, input: u64, rng: &mut R) -> Result<u64, PErr> {
        self.fire(rng).map(|w| mix(w, input))
    }
}

impl<S: Selector<Pop>> ChildMaker<Pop, S> for Probe
where
    S::Error: StdError + Send + Sync + 'static,
{
    type Error = BoxErr;

    fn make_child<R: Rng + ?Sized>(&self, rng: &mut R, population: &Pop, selector: &S) -> Result<Ind, BoxErr> {
        let a = selector.select(population, rng)?;
        let b = selector.select(population, rng)?;
        let w = self.fire(rng)?;
        let mut child = a.clone();
        child.genome = a.genome.wrapping_mul(31).wrapping_add(b.genome).wrapping_add(w as u32);
        Ok(child)
    }
}

/// Stateless gene generator (Send + Sync) for UMAD.
#[derive(Clone, Copy)]
struct Gen;

impl Distribution<u32> for Gen {
    fn sample<R: Rng + ?Sized>(&self, rng: &mut R) -> u32 {
        1000 + (rng.next_u32() % 50)
    }
}

// ---------------------------------------------------------------------------

/// What one call produced, in comparable form.
#[derive(Clone, Debug, PartialEq, Eq)]
struct Observed {
    /// Ok(debug text / position) or Err(error text + source chain)
    result: Result<String, Vec<String>>,
    rng: (u64, u64, u64),
}

thread_local! {
    /// "is this the wrapped value's own error type?" — set by the case that knows the concrete error type
    static OWN_ERROR: std::cell::Cell<Option<fn(&(dyn StdError + 'static)) -> bool>> = const { std::cell::Cell::new(None) };
}

fn is_a<E: StdError + 'static>(e: &(dyn StdError + 'static)) -> bool {
    e.is::<E>()
}

fn chain(e: &(dyn StdError + 'static)) -> Vec<String> {
    let mut v = vec![e.to_string()];
    let own = OWN_ERROR.with(std::cell::Cell::get);
    let mut found = own.is_some_and(|f| f(e));
    let mut cur = e.source();
    while let Some(s) = cur {
        v.push(s.to_string());
        found |= own.is_some_and(|f| f(s));
        cur = s.source();
    }
    if own.is_some() {
        // the error reported through an erased form is the wrapped value's own error (converted into the erased
        // type, possibly wrapped), not a copy of its text
        v.push(format!("carries the wrapped value's own error: {found}"));
    }
    v
}

struct Ctx<'a> {
    site: String,
    base: &'a SimRng,
    reference: Observed,
    calls: Option<Arc<AtomicUsize>>,
    /// how often the concrete value's own method ran in the reference call
    expected_calls: usize,
    out: Vec<Violation>,
    flavours_run: u64,
}

impl Ctx<'_> {
    fn compare(&mut self, flavour: &str, auto: &str, got: Result<Observed, simcore::Panicked>, calls_before: usize) {
        self.flavours_run += 1;
        let fl = format!("{flavour}<dyn{}>", if auto.is_empty() { String::new() } else { format!(" {auto}") });
        match got {
            Err(p) => self.out.push(Violation::new(
                "never-panics",
                format!("panic:{}:{flavour}", self.site),
                format!("{} through {fl} panicked: {}", self.site, p.message),
            )),
            Ok(o) => {
                if o.result != self.reference.result {
                    let clause = if o.result.is_err() || self.reference.result.is_err() { "same-error" } else { "same-result" };
                    self.out.push(Violation::new(
                        clause,
                        format!("{clause}:{}:{flavour}", self.site),
                        format!("{} through {fl}: {:?}, concrete value: {:?}", self.site, o.result, self.reference.result),
                    ));
                }
                if o.rng != self.reference.rng {
                    self.out.push(Violation::new(
                        "same-stream-consumption",
                        format!("rng:{}:{flavour}", self.site),
                        format!(
                            "{} through {fl}: stream state after the call (draws, typed-trace digest, next word) = {:?}, concrete: {:?}",
                            self.site, o.rng, self.reference.rng
                        ),
                    ));
                }
                if let Some(c) = &self.calls {
                    let n = c.load(Ordering::Relaxed) - calls_before;
                    if n != self.expected_calls {
                        self.out.push(Violation::new(
                            "exactly-one-underlying-call",
                            format!("calls:{}:{flavour}", self.site),
                            format!(
                                "{} through {fl}: the wrapped value's method ran {n} times, {} time(s) when called directly",
                                self.site, self.expected_calls
                            ),
                        ));
                    }
                }
            }
        }
    }
}

/// Expands `$body` (a block using `$w`) once per pointer flavour and auto-trait
/// combination of `dyn $($d)+`, constructing a fresh concrete value with `$mk`.
macro_rules! each_flavour {
    ($cx:ident, $mk:expr, [$($d:tt)+], |$w:ident| $body:expr) => {
        each_flavour!(@auto $cx, $mk, [$($d)+], [], "", |$w| $body);
        each_flavour!(@auto $cx, $mk, [$($d)+], [+ Send], "+ Send", |$w| $body);
        each_flavour!(@auto $cx, $mk, [$($d)+], [+ Sync], "+ Sync", |$w| $body);
        each_flavour!(@auto $cx, $mk, [$($d)+], [+ Send + Sync], "+ Send + Sync", |$w| $body);
    };
    (@auto $cx:ident, $mk:expr, [$($d:tt)+], [$($a:tt)*], $an:literal, |$w:ident| $body:expr) => {{
        let before = |cx: &Ctx<'_>| cx.calls.as_ref().map_or(0, |c| c.load(Ordering::Relaxed));
        {
            let c = $mk;
            let $w: &(dyn $($d)+ $($a)*) = &c;
            let b = before(&$cx);
            let r = catch(|| $body);
            $cx.compare("&", $an, r, b);
        }
        {
            let mut c = $mk;
            let $w: &mut (dyn $($d)+ $($a)*) = &mut c;
            let b = before(&$cx);
            let r = catch(|| $body);
            $cx.compare("&mut", $an, r, b);
        }
        {
            let $w: Box<dyn $($d)+ $($a)*> = Box::new($mk);
            let b = before(&$cx);
            let r = catch(|| $body);
            $cx.compare("Box", $an, r, b);
        }
        {
            let $w: Arc<dyn $($d)+ $($a)*> = Arc::new($mk);
            let b = before(&$cx);
            let r = catch(|| $body);
            $cx.compare("Arc", $an, r, b);
        }
        {
            let $w: Rc<dyn $($d)+ $($a)*> = Rc::new($mk);
            let b = before(&$cx);
            let r = catch(|| $body);
            $cx.compare("Rc", $an, r, b);
        }
        {
            let cell = RefCell::new($mk);
            let $w: Ref<'_, dyn $($d)+ $($a)*> = Ref::map(cell.borrow(), |c| c as &(dyn $($d)+ $($a)*));
            let b = before(&$cx);
            let r = catch(|| $body);
            $cx.compare("Ref", $an, r, b);
        }
        {
            let cell = RefCell::new($mk);
            let $w: RefMut<'_, dyn $($d)+ $($a)*> = RefMut::map(cell.borrow_mut(), |c| c as &mut (dyn $($d)+ $($a)*));
            let b = before(&$cx);
            let r = catch(|| $body);
            $cx.compare("RefMut", $an, r, b);
        }
    }};
}

fn observe<T, E: StdError + 'static>(r: Result<T, E>, show: impl FnOnce(&T) -> String, rng: &SimRng) -> Observed {
    Observed {
        result: match &r {
            Ok(t) => Ok(show(t)),
            Err(e) => Err(chain(e)),
        },
        rng: rng.state_fingerprint(),
    }
}

fn observe_boxed<T>(r: Result<T, BoxErr>, show: impl FnOnce(&T) -> String, rng: &SimRng) -> Observed {
    Observed {
        result: match &r {
            Ok(t) => Ok(show(t)),
            Err(e) => Err(chain(&**e)),
        },
        rng: rng.state_fingerprint(),
    }
}

fn pos(pop: &Pop, r: &Ind) -> String {
    format!("member #{:?}", pop.iter().position(|x| std::ptr::eq(x, r)))
}

// ----- the five traits -------------------------------------------------------

fn sel_case<S>(name: &str, mk: impl Fn() -> S, calls: Option<Arc<AtomicUsize>>, pop: &Pop, base: &SimRng, obs: &mut Obs) -> Vec<Violation>
where
    S: Selector<Pop> + Send + Sync + 'static,
    S::Error: StdError + Send + Sync + 'static,
{
    OWN_ERROR.with(|c| c.set(Some(is_a::<S::Error>)));
    let reference = {
        let mut r = base.fork();
        let c = mk();
        let res = c.select(pop, &mut r);
        observe(res, |x| pos(pop, x), &r)
    };
    let expected_calls = calls.as_ref().map_or(0, |c| c.swap(0, Ordering::Relaxed));
    let mut cx = Ctx { site: format!("Selector/{name}"), base, reference, calls, expected_calls, out: Vec::new(), flavours_run: 0 };
    // the blanket dyn_ method, called directly
    {
        let c = mk();
        let mut r = cx.base.fork();
        let b = cx.calls.as_ref().map_or(0, |c| c.load(Ordering::Relaxed));
        let got = catch(|| {
            let res: Result<&Ind, BoxErr> = c.dyn_select(pop, &mut r);
            observe_boxed(res, |x| pos(pop, x), &r)
        });
        cx.compare("dyn_select", "", got, b);
    }
    each_flavour!(cx, mk(), [DynSelector<Pop>], |w| {
        let mut r = cx.base.fork();
        let res = w.select(pop, &mut r);
        observe_boxed(res, |x| pos(pop, x), &r)
    });
    // an erased selector is a selector again: wrapped 2 .. 100 times over (Box and Arc alternating) it must still
    // select the same member / fail the same way, consume the stream identically and call the wrapped value once
    {
        type Erased = dyn DynSelector<Pop> + Send + Sync;
        // (one in 32: more than a thousand levels — a structure assembled at run time is as deep as its data)
        let fp = cx.base.state_fingerprint().2;
        let levels = if fp % 32 == 7 { 1000 + ((fp / 32) % 600) as usize } else { 2 + (fp % 99) as usize };
        if levels > 1024 {
            obs.hit("probe.erased-selector-wrapped-more-than-1024-times");
        }
        let b = cx.calls.as_ref().map_or(0, |c| c.load(Ordering::Relaxed));
        let mut r = cx.base.fork();
        let got = catch(|| {
            let mut wrapped: Box<Erased> = Box::new(mk());
            for level in 1..levels {
                wrapped = if level % 2 == 0 {
                    Box::new(wrapped)
                } else {
                    let shared: Arc<Erased> = Arc::from(wrapped);
                    Box::new(shared)
                };
            }
            let res = wrapped.select(pop, &mut r);
            (res.as_ref().map(|x| pos(pop, x)).map_err(|e| e.to_string()), r.state_fingerprint())
        });
        obs.hit("probe.erased-selector-wrapped-2..100-times");
        cx.flavours_run += 1;
        let site = cx.site.clone();
        let reference = cx.reference.result.clone().map_err(|c| c.first().cloned().unwrap_or_default());
        match got {
            Err(p) => cx.out.push(Violation::new(
                "never-panics",
                format!("panic:{site}:nested"),
                format!("{site} wrapped {levels} times over panicked: {}", p.message),
            )),
            Ok((res, rng)) => {
                if res.is_ok() != reference.is_ok() || (res.is_ok() && res != reference) {
                    cx.out.push(Violation::new(
                        "same-result",
                        format!("same-result:{site}:nested"),
                        format!("{site} wrapped {levels} times over: {res:?}, concrete value: {reference:?}"),
                    ));
                }
                if rng != cx.reference.rng {
                    cx.out.push(Violation::new(
                        "same-stream-consumption",
                        format!("rng:{site}:nested"),
                        format!("{site} wrapped {levels} times over: stream state after the call {rng:?}, concrete: {:?}", cx.reference.rng),
                    ));
                }
                if let Some(c) = &cx.calls {
                    let n = c.load(Ordering::Relaxed) - b;
                    if n != cx.expected_calls {
                        cx.out.push(Violation::new(
                            "exactly-one-underlying-call",
                            format!("calls:{site}:nested"),
                            format!("{site} wrapped {levels} times over: the wrapped value's method ran {n} times, {} when called directly", cx.expected_calls),
                        ));
                    }
                }
            }
        }
    }
    obs.count("steps", cx.flavours_run);
    cx.out
}

fn mut_case<G, M>(name: &str, mk: impl Fn() -> M, calls: Option<Arc<AtomicUsize>>, genome: &G, base: &SimRng, obs: &mut Obs) -> Vec<Violation>
where
    G: Clone + fmt::Debug + 'static,
    M: Mutator<G> + Send + Sync + 'static,
    M::Error: StdError + Send + Sync + 'static,
{
    OWN_ERROR.with(|c| c.set(Some(is_a::<M::Error>)));
    let reference = {
        let mut r = base.fork();
        let res = mk().mutate(genome.clone(), &mut r);
        observe(res, |x| format!("{x:?}"), &r)
    };
    let expected_calls = calls.as_ref().map_or(0, |c| c.swap(0, Ordering::Relaxed));
    let mut cx = Ctx { site: format!("Mutator/{name}"), base, reference, calls, expected_calls, out: Vec::new(), flavours_run: 0 };
    {
        let c = mk();
        let mut r = cx.base.fork();
        let b = cx.calls.as_ref().map_or(0, |c| c.load(Ordering::Relaxed));
        let got = catch(|| {
            let res: Result<G, BoxErr> = c.dyn_mutate(genome.clone(), &mut r);
            observe_boxed(res, |x| format!("{x:?}"), &r)
        });
        cx.compare("dyn_mutate", "", got, b);
    }
    each_flavour!(cx, mk(), [DynMutator<G>], |w| {
        let mut r = cx.base.fork();
        let res = w.mutate(genome.clone(), &mut r);
        observe_boxed(res, |x| format!("{x:?}"), &r)
    });
    obs.count("steps", cx.flavours_run);
    cx.out
}

fn rec_case<GS, O, Rc_>(name: &str, mk: impl Fn() -> Rc_, calls: Option<Arc<AtomicUsize>>, genomes: &GS, base: &SimRng, obs: &mut Obs) -> Vec<Violation>
where
    GS: Clone + 'static,
    O: fmt::Debug + 'static,
    Rc_: Recombinator<GS, Output = O> + Send + Sync + 'static,
    Rc_::Error: StdError + Send + Sync + 'static,
{
    OWN_ERROR.with(|c| c.set(Some(is_a::<Rc_::Error>)));
    let reference = {
        let mut r = base.fork();
        let res = mk().recombine(genomes.clone(), &mut r);
        observe(res, |x| format!("{x:?}"), &r)
    };
    let expected_calls = calls.as_ref().map_or(0, |c| c.swap(0, Ordering::Relaxed));
    let mut cx = Ctx { site: format!("Recombinator/{name}"), base, reference, calls, expected_calls, out: Vec::new(), flavours_run: 0 };
    {
        let c = mk();
        let mut r = cx.base.fork();
        let b = cx.calls.as_ref().map_or(0, |c| c.load(Ordering::Relaxed));
        let got = catch(|| {
            let res: Result<O, BoxErr> = c.dyn_recombine(genomes.clone(), &mut r);
            observe_boxed(res, |x| format!("{x:?}"), &r)
        });
        cx.compare("dyn_recombine", "", got, b);
    }
    each_flavour!(cx, mk(), [DynRecombinator<GS, Output = O>], |w| {
        let mut r = cx.base.fork();
        let res = w.recombine(genomes.clone(), &mut r);
        observe_boxed(res, |x| format!("{x:?}"), &r)
    });
    obs.count("steps", cx.flavours_run);
    cx.out
}

fn op_case<I, O, Op>(name: &str, mk: impl Fn() -> Op, calls: Option<Arc<AtomicUsize>>, input: &I, base: &SimRng, obs: &mut Obs) -> Vec<Violation>
where
    I: Clone + 'static,
    O: fmt::Debug + 'static,
    Op: Operator<I, Output = O> + Send + Sync + 'static,
    Op::Error: StdError + Send + Sync + 'static,
{
    OWN_ERROR.with(|c| c.set(Some(is_a::<Op::Error>)));
    let reference = {
        let mut r = base.fork();
        let res = mk().apply(input.clone(), &mut r);
        observe(res, |x| format!("{x:?}"), &r)
    };
    let expected_calls = calls.as_ref().map_or(0, |c| c.swap(0, Ordering::Relaxed));
    let mut cx = Ctx { site: format!("Operator/{name}"), base, reference, calls, expected_calls, out: Vec::new(), flavours_run: 0 };
    {
        let c = mk();
        let mut r = cx.base.fork();
        let b = cx.calls.as_ref().map_or(0, |c| c.load(Ordering::Relaxed));
        let got = catch(|| {
            let res: Result<O, BoxErr> = c.dyn_apply(input.clone(), &mut r);
            observe_boxed(res, |x| format!("{x:?}"), &r)
        });
        cx.compare("dyn_apply", "", got, b);
    }
    each_flavour!(cx, mk(), [DynOperator<I, BoxErr, Output = O>], |w| {
        let mut r = cx.base.fork();
        let res = w.apply(input.clone(), &mut r);
        observe_boxed(res, |x| format!("{x:?}"), &r)
    });
    // an erased operator is an operator again: wrapped many times over (Box and Arc alternating; one in 16: more than
    // a thousand levels) it must behave as the concrete value does
    {
        type Erased<I, O> = dyn DynOperator<I, BoxErr, Output = O> + Send + Sync;
        let fp = cx.base.state_fingerprint().2;
        let levels = if fp % 16 == 3 { 1000 + ((fp / 16) % 600) as usize } else { 2 + (fp % 99) as usize };
        if levels > 1024 {
            obs.hit("probe.erased-operator-wrapped-more-than-1024-times");
        }
        let b = cx.calls.as_ref().map_or(0, |c| c.load(Ordering::Relaxed));
        let mut r = cx.base.fork();
        let got = catch(|| {
            let mut wrapped: Box<Erased<I, O>> = Box::new(mk());
            for level in 1..levels {
                wrapped = if level % 2 == 0 {
                    Box::new(wrapped)
                } else {
                    let shared: Arc<Erased<I, O>> = Arc::from(wrapped);
                    Box::new(shared)
                };
            }
            let res = wrapped.apply(input.clone(), &mut r);
            observe_boxed(res, |x| format!("{x:?}"), &r)
        });
        cx.compare("Box/Arc nested", "", got, b);
    }
    obs.count("steps", cx.flavours_run);
    cx.out
}

/// (`mk_sel` makes the selector ARGUMENT afresh for every call: what is compared is the wrapper around the child
/// maker, not whether a selector value happens to carry something from one call to the next — that is C16's.)
fn child_case<S>(name: &str, mk_sel: &dyn Fn() -> S, fail: bool, pop: &Pop, base: &SimRng, obs: &mut Obs) -> Vec<Violation>
where
    S: Selector<Pop> + 'static,
    S::Error: StdError + Send + Sync + 'static,
{
    OWN_ERROR.with(|c| c.set(None));
    let calls = Arc::new(AtomicUsize::new(0));
    let mk = || Probe { calls: calls.clone(), fail };
    let reference = {
        let mut r = base.fork();
        let res = mk().make_child(&mut r, pop, &mk_sel());
        observe_boxed(res, |x| format!("{x:?}"), &r)
    };
    let expected_calls = calls.swap(0, Ordering::Relaxed);
    let mut cx = Ctx {
        site: format!("ChildMaker/{name}"),
        base,
        reference,
        calls: Some(calls.clone()),
        expected_calls,
        out: Vec::new(),
        flavours_run: 0,
    };
    {
        let c = mk();
        let mut r = cx.base.fork();
        let b = calls.load(Ordering::Relaxed);
        let got = catch(|| {
            let res: Result<Ind, BoxErr> = c.dyn_make_child(&mut r, pop, &mk_sel());
            observe_boxed(res, |x| format!("{x:?}"), &r)
        });
        cx.compare("dyn_make_child", "", got, b);
    }
    each_flavour!(cx, mk(), [DynChildMaker<Pop, S>], |w| {
        let mut r = cx.base.fork();
        let res = w.make_child(&mut r, pop, &mk_sel());
        observe_boxed(res, |x| format!("{x:?}"), &r)
    });
    obs.count("steps", cx.flavours_run);
    cx.out
}

// ---------------------------------------------------------------------------

#[derive(Serialize, Deserialize, Clone, Debug)]
struct Sc {
    /// 0 selector, 1 mutator, 2 recombinator, 3 operator, 4 child maker
    tr: u8,
    imp: u8,
    n: usize,
    param: usize,
    data_seed: u64,
    rng: RngSpec,
}

const IMPLS: [u8; 5] = [7, 8, 7, 7, 4];

fn make_pop(n: usize, seed: u64) -> Pop {
    let mut g = Xo::from_seed(seed);
    (0..n)
        .map(|i| {
            let results: Vec<Score<i64>> = (0..3).map(|_| Score(g.range(0, 2) as i64)).collect();
            let total_result = Score(results.iter().map(|s| s.0).sum());
            EcIndividual::new(i as u32, TestResults { results, total_result })
        })
        .collect()
}

struct C17;

impl Check for C17 {
    type Scenario = Sc;

    fn id(&self) -> &'static str {
        "C17"
    }

    fn rule(&self) -> String {
        "for each of the five erasable traits x wrapped implementation (real: Best, Worst, Random, Tournament, Lexicase, WithRate, \
         WithOneOverLength, Umad, TwoPointXo, UniformXo, Then/Identity; probes that count calls, draw typed words and can fail) one scenario \
         calls the concrete value and all 28 generated pointer flavours plus the blanket dyn_* method from forks of one seeded/boundary \
         stream (populations 0-6, genomes 0-8 incl. unequal parents so that errors occur). Non-trivial: every scenario (29 erased calls \
         each); distinct = (trait, implementation, size, parameter, error-or-ok) cells"
            .into()
    }

    fn runs(&self, tier: Tier) -> u64 {
        match tier {
            Tier::Quick => 400_000,
            Tier::Thorough => 40_000_000,
        }
    }

    fn generate(&self, g: &mut Xo, _tier: Tier, run: u64) -> Sc {
        let tr = (run % 5) as u8;
        Sc {
            tr,
            imp: g.below(u64::from(IMPLS[tr as usize])) as u8,
            n: match g.below(6) {
                0 => 0,
                1 => 1,
                _ => g.urange(0, 8),
            },
            param: g.urange(0, 5),
            data_seed: g.next_u64(),
            rng: RngSpec::swarm(g),
        }
    }

    #[allow(clippy::too_many_lines)]
    fn execute(&self, sc: &Sc, obs: &mut Obs) -> Vec<Violation> {
        let base = sc.rng.build();
        let mut g = Xo::from_seed(sc.data_seed);
        let calls = Arc::new(AtomicUsize::new(0));
        let probe = |fail: bool| {
            let calls = calls.clone();
            move || Probe { calls: calls.clone(), fail }
        };
        let k = NonZeroUsize::new(sc.param.max(1)).unwrap_or(NonZeroUsize::MIN);
        let v = match sc.tr {
            0 => {
                let pop = make_pop(sc.n.min(6), sc.data_seed);
                match sc.imp {
                    0 => sel_case("Best", || Best, None, &pop, &base, obs),
                    1 => sel_case("Worst", || Worst, None, &pop, &base, obs),
                    2 => sel_case("Random", || Random, None, &pop, &base, obs),
                    3 => sel_case("Tournament", || Tournament::new(k), None, &pop, &base, obs),
                    4 => sel_case("Lexicase", || Lexicase::new(sc.param), None, &pop, &base, obs),
                    5 => sel_case("probe", probe(false), Some(calls.clone()), &pop, &base, obs),
                    _ => sel_case("probe-failing", probe(true), Some(calls.clone()), &pop, &base, obs),
                }
            }
            1 => {
                let bools: Vec<bool> = (0..sc.n).map(|_| g.coin()).collect();
                match sc.imp {
                    0 => mut_case("WithRate/Vec<bool>", || WithRate::new(0.3), None, &bools, &base, obs),
                    1 => mut_case("WithOneOverLength/Bitstring", || WithOneOverLength, None, &Bitstring { bits: bools.clone() }, &base, obs),
                    2 => {
                        let v: Vector<u32> = (0..sc.n as u32).collect();
                        mut_case("Umad/Vector<u32>", || Umad::new(0.3, 0.2, Gen), None, &DebugVector(v), &base, obs)
                    }
                    3 => mut_case("WithRate/Bitstring", || WithRate::new(0.5), None, &Bitstring { bits: bools.clone() }, &base, obs),
                    4 => mut_case("probe", probe(false), Some(calls.clone()), &bools, &base, obs),
                    5 => mut_case("probe-failing", probe(true), Some(calls.clone()), &bools, &base, obs),
                    // zero-sized genomes: the wrapper must still dispatch (draws, errors)
                    6 => mut_case("probe/zero-sized-genome", probe(false), Some(calls.clone()), &(), &base, obs),
                    _ => mut_case("probe-failing/zero-sized-genome", probe(true), Some(calls.clone()), &(), &base, obs),
                }
            }
            2 => {
                let la = sc.n;
                let lb = if sc.param == 0 { sc.n + 1 } else { sc.n };
                let a: Vec<u32> = (0..la as u32).collect();
                let b: Vec<u32> = (100..100 + lb as u32).collect();
                match sc.imp {
                    0 => rec_case("TwoPointXo/[Vec;2]", || TwoPointXo, None, &[a, b], &base, obs),
                    1 => rec_case("UniformXo/(Vec,Vec)", || UniformXo, None, &(a, b), &base, obs),
                    2 => {
                        let ba = Bitstring { bits: vec![false; la] };
                        let bb = Bitstring { bits: vec![true; lb] };
                        rec_case("TwoPointXo/[Bitstring;2]", || TwoPointXo, None, &[ba, bb], &base, obs)
                    }
                    3 => rec_case("probe", probe(false), Some(calls.clone()), &[a, b], &base, obs),
                    4 => rec_case("probe-failing", probe(true), Some(calls.clone()), &[a, b], &base, obs),
                    5 => rec_case("probe/zero-sized-genomes", probe(false), Some(calls.clone()), &[(), ()], &base, obs),
                    _ => rec_case("probe-failing/zero-sized-genomes", probe(true), Some(calls.clone()), &[(), ()], &base, obs),
                }
            }
            3 => {
                let x = g.next_u64();
                match sc.imp {
                    0 => op_case("probe", probe(false), Some(calls.clone()), &x, &base, obs),
                    1 => op_case("probe-failing", probe(true), Some(calls.clone()), &x, &base, obs),
                    2 => op_case("Identity", || Identity, None, &x, &base, obs),
                    5 => op_case("probe/zero-sized-input", probe(false), Some(calls.clone()), &(), &base, obs),
                    6 => op_case("probe-failing/zero-sized-input", probe(true), Some(calls.clone()), &(), &base, obs),
                    3 => {
                        let (c1, c2) = (Arc::new(AtomicUsize::new(0)), Arc::new(AtomicUsize::new(0)));
                        op_case(
                            "Then<probe,probe>",
                            move || Probe { calls: c1.clone(), fail: false }.then(Probe { calls: c2.clone(), fail: false }),
                            None,
                            &x,
                            &base,
                            obs,
                        )
                    }
                    _ => {
                        let (c1, c2) = (Arc::new(AtomicUsize::new(0)), Arc::new(AtomicUsize::new(0)));
                        op_case(
                            "Then<probe,probe-failing>",
                            move || Probe { calls: c1.clone(), fail: false }.then(Probe { calls: c2.clone(), fail: true }),
                            None,
                            &x,
                            &base,
                            obs,
                        )
                    }
                }
            }
            _ => {
                let pop = make_pop(sc.n.min(6), sc.data_seed);
                match sc.imp {
                    0 => child_case("probe+Tournament", &|| Tournament::new(k), false, &pop, &base, obs),
                    1 => child_case("probe+Best", &|| Best, false, &pop, &base, obs),
                    2 => child_case("probe-failing+Random", &|| Random, true, &pop, &base, obs),
                    _ => child_case("probe+Lexicase", &|| Lexicase::new(sc.param), false, &pop, &base, obs),
                }
            }
        };
        obs.count("draws", 0);
        obs.nontrivial(mix(
            mix(mix(u64::from(sc.tr), u64::from(sc.imp)), (sc.n * 16 + sc.param) as u64),
            u64::from(sc.rng.q16),
        ));
        v
    }

    fn shrink(&self, sc: &Sc) -> Vec<Sc> {
        let mut out = Vec::new();
        if sc.n > 0 {
            out.push(Sc { n: sc.n - 1, ..sc.clone() });
        }
        if sc.rng.q16 != 0 {
            out.push(Sc { rng: RngSpec::seeded(sc.rng.seed), ..sc.clone() });
        }
        for s in 0..2u64 {
            if sc.data_seed != s {
                out.push(Sc { data_seed: s, ..sc.clone() });
            }
            if sc.rng.seed != s {
                out.push(Sc { rng: RngSpec { seed: s, ..sc.rng.clone() }, ..sc.clone() });
            }
        }
        out
    }

    fn extra_coverage(
        &self,
        _tier: Tier,
        _c: &std::collections::BTreeMap<String, u64>,
    ) -> serde_json::Map<String, serde_json::Value> {
        let mut m = serde_json::Map::new();
        m.insert("flavours_per_trait".into(), serde_json::json!(28));
        m.insert("traits".into(), serde_json::json!(["Selector", "Mutator", "Recombinator", "Operator", "ChildMaker"]));
        m
    }

    fn assumptions(&self) -> Vec<String> {
        vec![
            "'the same error (converted into the erased error type)' is compared through Display text and the Error::source() chain".into(),
            "results are compared by pointer position (selectors) or Debug text (genomes / values / individuals)".into(),
        ]
    }

    fn real_components(&self) -> Vec<&'static str> {
        vec![
            "ec-core erased modules (DynSelector, DynMutator, DynRecombinator, DynOperator, DynChildMaker and all generated pointer impls)",
            "ec-macros dyn_ref_impls (at compile time)",
            "the wrapped real selectors / mutators / recombinators / combinators",
        ]
    }

    fn stub_components(&self) -> Vec<&'static str> {
        vec!["probe implementations of the five traits", "SimRng stream"]
    }
}

/// `Vector<T>` has no `Debug`-comparable wrapper issues, but it is not
/// `Clone + Debug` as required generically only through its `genes`.
#[derive(Clone, Debug)]
struct DebugVector(Vector<u32>);

impl Mutator<DebugVector> for Umad<Gen> {
    type Error = std::convert::Infallible;

    fn mutate<R: Rng + ?Sized>(&self, genome: DebugVector, rng: &mut R) -> Result<DebugVector, Self::Error> {
        <Self as Mutator<Vector<u32>>>::mutate(self, genome.0, rng).map(DebugVector)
    }
}

fn main() {
    let _: fn(&mut SimRng) -> u32 = RngCore::next_u32;
    main_for(C17);
}
