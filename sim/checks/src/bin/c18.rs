//! C18 — generators deliver exactly the requested collections and uniform
//! member choices. Exact clauses through logging probe element generators and
//! pointer/position identity; seeded statistical decision for uniformity
//! (DESIGN §5 C18, §3.7).

use std::cell::RefCell;

use ec_core::{
    distributions::{
        choices::ChoicesDistribution,
        collection::{ConvertToCollectionGenerator, Generator},
        conversion::{IntoDistribution, ToDistribution},
    },
    individual::{
        ec::{EcIndividual, WithScorer},
        scorer::FnScorer,
    },
    uniform_distribution_of,
};
use ec_linear::genome::bitstring::Bitstring;
use push::{
    genome::plushy::{Plushy, PushGene},
    instruction::PushInstruction,
};
use rand::{distr::Distribution, Rng};
use serde::{Deserialize, Serialize};
use simcore::{catch, main_for, mix, stats, Check, FastRng, Obs, RngSpec, Tier, Violation, Xo};

/// Probe element generator: hands out serials, logs every sample, draws one
/// word from the stream it is handed.
struct Probe {
    log: RefCell<Vec<u32>>,
    /// the harness's bound on the number of samples (a generator that never stops must not hang the run)
    limit: std::cell::Cell<usize>,
}

impl Probe {
    fn new() -> Self {
        Self { log: RefCell::new(Vec::new()), limit: std::cell::Cell::new(usize::MAX) }
    }

    fn next(&self, rng: &mut (impl Rng + ?Sized)) -> u32 {
        let w = rng.next_u32();
        let mut l = self.log.borrow_mut();
        let v = (l.len() as u32) * 2 + (w & 1); // serial in the high bits, one random bit
        l.push(v);
        v
    }
}

impl Distribution<u32> for Probe {
    fn sample<R: Rng + ?Sized>(&self, rng: &mut R) -> u32 {
        self.next(rng)
    }
}

impl Distribution<()> for Probe {
    fn sample<R: Rng + ?Sized>(&self, rng: &mut R) {
        assert!(
            self.log.borrow().len() < self.limit.get(),
            "the element generator was sampled more than {} times (far more often than elements were requested)",
            self.limit.get()
        );
        let _ = self.next(rng);
    }
}

/// A bulky element (4 KiB): collections of a modest number of them are large in bytes.
#[derive(Clone)]
struct Slab([u32; 1024]);

impl Distribution<Slab> for Probe {
    fn sample<R: Rng + ?Sized>(&self, rng: &mut R) -> Slab {
        Slab([self.next(rng); 1024])
    }
}

impl Distribution<bool> for Probe {
    fn sample<R: Rng + ?Sized>(&self, rng: &mut R) -> bool {
        self.next(rng) & 1 == 1
    }
}

impl Distribution<PushGene> for Probe {
    fn sample<R: Rng + ?Sized>(&self, rng: &mut R) -> PushGene {
        let v = self.next(rng);
        if v % 5 == 4 {
            PushGene::Close
        } else {
            PushGene::Instruction(PushInstruction::push_int(i64::from(v)))
        }
    }
}

#[derive(Serialize, Deserialize, Clone, Copy, Debug, PartialEq, Eq)]
enum GenKind {
    VecU32,
    Bits,
    Plushy,
    Nested,
    Individual,
    Population,
    /// `Vec<()>`: zero-sized elements (a collection whose capacity says nothing about the requested size)
    VecUnit,
    /// `Bitstring::random(size)` / `Bitstring::random_with_probability(size, p)`: the direct constructors (no
    /// element generator to observe: only "exactly the configured size" is decided here, the law is C12's)
    BitsRandom,
    /// `Vec<Slab>`: 4 KiB elements (more than 2^28 bytes for 70 000 of them)
    VecSlab,
}

#[derive(Serialize, Deserialize, Clone, Debug)]
enum Sc {
    Gen { kind: GenKind, size: usize, inner: usize, by_ref: bool, rng: RngSpec },
    Choice { flavour: u8, len: usize, dup: bool, samples: usize, rng: RngSpec },
    Dist { flavour: u8, len: usize, trials: u64, seed: u64, cells_total: u64 },
    /// a source with more members than an f32 / a 24-bit index can address:
    /// members at odd and at even positions must both be chosen about half the time
    BigDist { flavour: u8, log2_len: u32, trials: u64, seed: u64, cells_total: u64, #[serde(default)] tri: u8 },
    /// a source of 2^32 + plus zero-sized members (cheap to build): more members than a 32-bit index can
    /// address; it is non-empty, so every conversion flavour must accept it and report its member count
    Zst { plus: usize, rng: RngSpec },
}

const FLAVOURS: u8 = 16;

fn flavour_name(f: u8) -> &'static str {
    match f {
        0 => "Vec.into_distribution (OneOfCloning)",
        1 => "&Vec.into_distribution -> &T (Choose)",
        2 => "&Vec.into_distribution -> T (ChooseCloning)",
        3 => "Vec.to_distribution -> T (ChooseCloning)",
        4 => "Vec.to_distribution -> &T (Choose)",
        5 => "[T;N].into_distribution (OneOfCloning)",
        6 => "&[T;N].into_distribution -> &T (Choose)",
        7 => "&[T;N].into_distribution -> T (ChooseCloning)",
        8 => "[T;N].to_distribution -> T (ChooseCloning)",
        9 => "[T;N].to_distribution -> &T (Choose)",
        10 => "&[T].into_distribution -> &T (Choose)",
        11 => "&[T].into_distribution -> T (ChooseCloning)",
        12 => "[T].to_distribution -> &T (Choose)",
        13 => "[T].to_distribution -> T (ChooseCloning)",
        14 => "uniform_distribution_of![..]",
        _ => "uniform_distribution_of![<T> ..]",
    }
}

/// What a constructed choice distribution gives back for `k` samples: the
/// *positions* of the sampled members (None = not a member), and num_choices.
struct Sampled {
    num_choices: usize,
    positions: Vec<Option<usize>>,
}

fn by_identity<'a>(items: &'a [u32], k: usize, d: &impl Distribution<&'a u32>, n: usize, rng: &mut impl Rng) -> Sampled {
    Sampled {
        num_choices: n,
        positions: (0..k)
            .map(|_| {
                let r: &u32 = d.sample(rng);
                items.iter().position(|x| std::ptr::eq(x, r))
            })
            .collect(),
    }
}

fn by_value(items: &[u32], k: usize, d: &impl Distribution<u32>, n: usize, rng: &mut impl Rng) -> Sampled {
    Sampled {
        num_choices: n,
        positions: (0..k)
            .map(|_| {
                let v: u32 = d.sample(rng);
                items.iter().position(|x| *x == v)
            })
            .collect(),
    }
}

/// Err(()) = construction rejected with EmptySlice.
fn array_flavour<const N: usize>(f: u8, items: &[u32], k: usize, rng: &mut impl Rng) -> Option<Result<Sampled, ()>> {
    let arr: [u32; N] = items.try_into().ok()?;
    Some(match f {
        5 => match IntoDistribution::<u32>::into_distribution(arr) {
            Ok(d) => Ok(by_value(items, k, &d, d.num_choices().get(), rng)),
            Err(_) => Err(()),
        },
        6 => match IntoDistribution::<&u32>::into_distribution(&arr) {
            Ok(d) => Ok(by_identity(&arr, k, &d, ChoicesDistribution::num_choices(&d).get(), rng)),
            Err(_) => Err(()),
        },
        7 => match IntoDistribution::<u32>::into_distribution(&arr) {
            Ok(d) => Ok(by_value(items, k, &d, d.num_choices().get(), rng)),
            Err(_) => Err(()),
        },
        8 => match ToDistribution::<u32>::to_distribution(&arr) {
            Ok(d) => Ok(by_value(items, k, &d, d.num_choices().get(), rng)),
            Err(_) => Err(()),
        },
        _ => match ToDistribution::<&u32>::to_distribution(&arr) {
            Ok(d) => Ok(by_identity(&arr, k, &d, ChoicesDistribution::num_choices(&d).get(), rng)),
            Err(_) => Err(()),
        },
    })
}

fn run_flavour(f: u8, items: &[u32], k: usize, rng: &mut impl Rng) -> Option<Result<Sampled, ()>> {
    let v: Vec<u32> = items.to_vec();
    Some(match f {
        0 => match IntoDistribution::<u32>::into_distribution(v) {
            Ok(d) => Ok(by_value(items, k, &d, d.num_choices().get(), rng)),
            Err(_) => Err(()),
        },
        1 => match IntoDistribution::<&u32>::into_distribution(&v) {
            Ok(d) => Ok(by_identity(&v, k, &d, ChoicesDistribution::num_choices(&d).get(), rng)),
            Err(_) => Err(()),
        },
        2 => match IntoDistribution::<u32>::into_distribution(&v) {
            Ok(d) => Ok(by_value(items, k, &d, d.num_choices().get(), rng)),
            Err(_) => Err(()),
        },
        3 => match ToDistribution::<u32>::to_distribution(&v) {
            Ok(d) => Ok(by_value(items, k, &d, d.num_choices().get(), rng)),
            Err(_) => Err(()),
        },
        4 => match ToDistribution::<&u32>::to_distribution(&v) {
            Ok(d) => Ok(by_identity(&v, k, &d, ChoicesDistribution::num_choices(&d).get(), rng)),
            Err(_) => Err(()),
        },
        5..=9 => {
            return match items.len() {
                0 => array_flavour::<0>(f, items, k, rng),
                1 => array_flavour::<1>(f, items, k, rng),
                2 => array_flavour::<2>(f, items, k, rng),
                3 => array_flavour::<3>(f, items, k, rng),
                4 => array_flavour::<4>(f, items, k, rng),
                5 => array_flavour::<5>(f, items, k, rng),
                6 => array_flavour::<6>(f, items, k, rng),
                7 => array_flavour::<7>(f, items, k, rng),
                8 => array_flavour::<8>(f, items, k, rng),
                _ => None,
            }
        }
        10 => {
            let s: &[u32] = &v;
            match IntoDistribution::<&u32>::into_distribution(s) {
                Ok(d) => Ok(by_identity(s, k, &d, ChoicesDistribution::num_choices(&d).get(), rng)),
                Err(_) => Err(()),
            }
        }
        11 => {
            let s: &[u32] = &v;
            match IntoDistribution::<u32>::into_distribution(s) {
                Ok(d) => Ok(by_value(items, k, &d, d.num_choices().get(), rng)),
                Err(_) => Err(()),
            }
        }
        12 => {
            let s: &[u32] = &v;
            match ToDistribution::<&u32>::to_distribution(s) {
                Ok(d) => Ok(by_identity(s, k, &d, ChoicesDistribution::num_choices(&d).get(), rng)),
                Err(_) => Err(()),
            }
        }
        13 => {
            let s: &[u32] = &v;
            match ToDistribution::<u32>::to_distribution(s) {
                Ok(d) => Ok(by_value(items, k, &d, d.num_choices().get(), rng)),
                Err(_) => Err(()),
            }
        }
        14 | 15 => {
            // the macro needs >= 1 item and unwraps; fixed arities
            macro_rules! mac {
                ($($i:expr),+) => {{
                    if f == 14 {
                        let d = uniform_distribution_of![$(items[$i]),+];
                        Ok(by_value(items, k, &d, d.num_choices().get(), rng))
                    } else {
                        let d = uniform_distribution_of![<u64> $(items[$i]),+];
                        let n = d.num_choices().get();
                        Ok(Sampled {
                            num_choices: n,
                            positions: (0..k)
                                .map(|_| {
                                    let v: u64 = d.sample(rng);
                                    items.iter().position(|x| u64::from(*x) == v)
                                })
                                .collect(),
                        })
                    }
                }};
            }
            match items.len() {
                1 => mac!(0),
                2 => mac!(0, 1),
                3 => mac!(0, 1, 2),
                4 => mac!(0, 1, 2, 3),
                5 => mac!(0, 1, 2, 3, 4),
                6 => mac!(0, 1, 2, 3, 4, 5),
                7 => mac!(0, 1, 2, 3, 4, 5, 6),
                8 => mac!(0, 1, 2, 3, 4, 5, 6, 7),
                _ => return None, // the macro cannot be invoked with zero items
            }
        }
        _ => return None,
    })
}

fn borrowing(f: u8) -> bool {
    matches!(f, 1 | 4 | 6 | 9 | 10 | 12)
}

fn exec_choice(f: u8, len: usize, dup: bool, samples: usize, spec: &RngSpec, obs: &mut Obs) -> Vec<Violation> {
    // duplicate values are only distinguishable by identity (borrowing forms)
    let items: Vec<u32> = (0..len as u32).map(|i| if dup && borrowing(f) { 10 + i / 2 } else { 10 + i }).collect();
    let mut rng = spec.build();
    let name = flavour_name(f);
    let r = catch(|| run_flavour(f, &items, samples, &mut rng));
    obs.count("draws", rng.draws());
    obs.count("fault.adversarial-stream-words", rng.boundary_fired());
    let mut v = Vec::new();
    match r {
        Err(p) => v.push(Violation::new(
            "never-panics",
            format!("panic:{name}"),
            format!("{name} over {len} members panicked: {}", p.message),
        )),
        Ok(None) => {}
        Ok(Some(Err(()))) => {
            obs.hit("fault.empty-source-collection");
            if len != 0 {
                v.push(Violation::new(
                    "empty-rejected-only-when-empty",
                    format!("spurious-empty-error:{name}"),
                    format!("{name} over {len} members was rejected as empty"),
                ));
            }
        }
        Ok(Some(Ok(s))) => {
            if len == 0 {
                v.push(Violation::new(
                    "empty-source-rejected-at-construction",
                    format!("empty-accepted:{name}"),
                    format!("{name} accepted an empty source (num_choices {})", s.num_choices),
                ));
                return v;
            }
            if s.num_choices != len {
                v.push(Violation::new(
                    "reports-number-of-members",
                    format!("num-choices:{name}"),
                    format!("{name} over {len} members reports num_choices() = {}", s.num_choices),
                ));
            }
            if let Some(i) = s.positions.iter().position(Option::is_none) {
                v.push(Violation::new(
                    "returns-only-members",
                    format!("non-member:{name}"),
                    format!("{name} over {items:?}: sample #{i} is not a member of the source collection"),
                ));
            }
            if len >= 2 {
                let mut fp = mix(u64::from(f), len as u64);
                for p in &s.positions {
                    fp = mix(fp, p.map_or(99, |x| x as u64));
                }
                obs.nontrivial(fp);
            }
        }
    }
    v
}

fn exec_dist(f: u8, len: usize, trials: u64, seed: u64, cells_total: u64, obs: &mut Obs) -> Vec<Violation> {
    let items: Vec<u32> = (0..len as u32).map(|i| if borrowing(f) { 10 + i / 2 } else { 10 + i }).collect();
    let mut rng = FastRng::new(seed);
    let name = flavour_name(f);
    let mut counts = vec![0u64; len];
    let mut done = 0u64;
    while done < trials {
        let k = 1000usize.min((trials - done) as usize);
        match catch(|| run_flavour(f, &items, k, &mut rng)) {
            Ok(Some(Ok(s))) => {
                for p in s.positions {
                    match p {
                        Some(i) => counts[i] += 1,
                        None => return Vec::new(), // exact clause reports it
                    }
                }
            }
            _ => return Vec::new(),
        }
        done += k as u64;
    }
    obs.count("steps", trials);
    obs.nontrivial(mix(mix(3, u64::from(f)), len as u64));
    let mut v = Vec::new();
    for (i, x) in counts.iter().enumerate() {
        obs.hit("stat-cells");
        let verdict = stats::decide(trials, *x, 1.0 / len as f64, cells_total);
        if verdict.violated {
            v.push(Violation::new(
                "members-equally-likely",
                format!("not-uniform:{name}"),
                format!(
                    "{name} over {len} members: member #{i} was chosen {x} times in {trials} seeded samples; uniform share {:.5} (n*KL = {:.1}, threshold {:.1})",
                    1.0 / len as f64,
                    verdict.stat,
                    verdict.threshold
                ),
            ));
            break;
        }
    }
    v
}

fn exec_big(f: u8, log2_len: u32, trials: u64, seed: u64, cells_total: u64, tri: u8, obs: &mut Obs) -> Vec<Violation> {
    // `tri`: 3 * 2^k members, every third one marked (a length that is a large non-power-of-two fraction of 2^32:
    // a reduction of one 32-bit word without rejection favours a third of the members by 2^k / 2^32 each)
    // (tri = 1) or the first third marked (tri = 2: what a remainder of one 32-bit word favours)
    let len = if tri > 0 { 3usize << log2_len } else { (1usize << log2_len) + 1 };
    let items: Vec<u8> = match tri {
        0 => (0..len).map(|i| u8::from(i % 2 == 1)).collect(),
        1 => (0..len).map(|i| u8::from(i % 3 == 0)).collect(),
        _ => (0..len).map(|i| u8::from(i < len / 3)).collect(),
    };
    let what = ["every 2. position", "every 3. position", "the first third"][usize::from(tri.min(2))];
    let mut rng = FastRng::new(seed);
    let name = flavour_name(f);
    let r = catch(|| -> Option<u64> {
        let mut odd = 0u64;
        match f {
            0 => {
                let d = IntoDistribution::<u8>::into_distribution(items).ok()?;
                for _ in 0..trials {
                    odd += u64::from(d.sample(&mut rng));
                }
            }
            2 => {
                let d = IntoDistribution::<u8>::into_distribution(&items).ok()?;
                for _ in 0..trials {
                    odd += u64::from(d.sample(&mut rng));
                }
            }
            _ => {
                let s: &[u8] = &items;
                let d = IntoDistribution::<&u8>::into_distribution(s).ok()?;
                for _ in 0..trials {
                    odd += u64::from(*d.sample(&mut rng));
                }
            }
        }
        Some(odd)
    });
    let mut v = Vec::new();
    let Ok(Some(odd)) = r else { return v };
    obs.count("steps", trials);
    obs.hit("stat-cells");
    obs.hit("probe.source-larger-than-2^24-members");
    obs.nontrivial(mix(mix(5, u64::from(f)), u64::from(log2_len)));
    let marked = if tri > 0 { len / 3 } else { len / 2 };
    let verdict = stats::decide(trials, odd, marked as f64 / len as f64, cells_total);
    if verdict.violated {
        v.push(Violation::new(
            "members-equally-likely",
            format!("not-uniform-in-large-source:{name}"),
            format!(
                "{name} over {len} members: one of the {marked} marked members ({what}) was chosen {odd} times in {trials} seeded samples (expected about {:.0}; n*KL = {:.1}, threshold {:.1})",
                trials as f64 * marked as f64 / len as f64, verdict.stat, verdict.threshold
            ),
        ));
    }
    v
}

/// Sources of 2^32 + plus zero-sized members: non-empty, so construction must succeed in every flavour
/// that accepts a Vec / slice, `num_choices` must be the length, sampling must not panic.
fn exec_zst(plus: usize, spec: &RngSpec, obs: &mut Obs) -> Vec<Violation> {
    #[derive(Clone, Copy, Debug, PartialEq)]
    struct Token;
    let mut v = Vec::new();
    let Some(n) = (1usize << 32).checked_add(plus) else { return v };
    let src: Vec<Token> = vec![Token; n];
    obs.hit("probe.zero-sized-members-2^32");
    let mut rng = spec.build();
    type R = Result<usize, String>;
    let mut report = |name: &str, r: Result<R, simcore::Panicked>| match r {
        Ok(Ok(c)) if c == n => {}
        Ok(Ok(c)) => v.push(Violation::new(
            "reports-the-number-of-members",
            format!("num-choices:{name}:zst"),
            format!("{name} built from {n} zero-sized members reports {c} choices"),
        )),
        Ok(Err(e)) => v.push(Violation::new(
            "non-empty-source-accepted",
            format!("non-empty-rejected:{name}:zst"),
            format!("{name} rejected a source of {n} (zero-sized) members: {e}"),
        )),
        Err(p) => v.push(Violation::new(
            "never-panics",
            format!("panic:{name}:zst"),
            format!("{name} on a source of {n} zero-sized members panicked: {}", p.message),
        )),
    };
    let r = catch(|| -> R {
        let d = IntoDistribution::<Token>::into_distribution(src.clone()).map_err(|e| format!("{e:?}"))?;
        let _: Token = d.sample(&mut rng);
        Ok(d.num_choices().get())
    });
    report("Vec.into_distribution (OneOfCloning)", r);
    let r = catch(|| -> R {
        let d = ToDistribution::<Token>::to_distribution(&src).map_err(|e| format!("{e:?}"))?;
        let _: Token = d.sample(&mut rng);
        Ok(d.num_choices().get())
    });
    report("Vec.to_distribution -> T (ChooseCloning)", r);
    let r = catch(|| -> R {
        let d = ToDistribution::<&Token>::to_distribution(&src).map_err(|e| format!("{e:?}"))?;
        let _: &Token = d.sample(&mut rng);
        Ok(ChoicesDistribution::num_choices(&d).get())
    });
    report("Vec.to_distribution -> &T (Choose)", r);
    let r = catch(|| -> R {
        let sl: &[Token] = &src;
        let d = ToDistribution::<&Token>::to_distribution(sl).map_err(|e| format!("{e:?}"))?;
        let _: &Token = d.sample(&mut rng);
        Ok(ChoicesDistribution::num_choices(&d).get())
    });
    report("&[T].to_distribution -> &T (Choose)", r);
    obs.count("draws", rng.draws());
    obs.nontrivial(mix(0x25f, plus as u64));
    v
}

fn exec_gen(kind: GenKind, size: usize, inner: usize, by_ref: bool, spec: &RngSpec, obs: &mut Obs) -> Vec<Violation> {
    let mut rng = spec.build();
    if size > 100_000 {
        // (the per-operation draw cap of the owned stream exists to catch starved rejection samplers; a huge
        // requested collection legitimately draws a lot)
        rng.set_cap(8 * size as u64 + 1_000_000);
        obs.hit("probe.collection-larger-than-100k");
    }
    let probe = Probe::new();
    let site = format!("{kind:?}{}", if by_ref { "/to_collection_generator" } else { "/Generator::new" });
    // returns (element count, flattened observed serials or bools, extra check message)
    let r = catch(|| -> (Vec<usize>, Vec<u32>, Option<String>) {
        match kind {
            GenKind::VecU32 => {
                let v: Vec<u32> = if by_ref {
                    probe.to_collection_generator(size).sample(&mut rng)
                } else {
                    Generator::new(&probe, size).sample(&mut rng)
                };
                (vec![v.len()], v, None)
            }
            GenKind::BitsRandom => {
                let b: Bitstring = match inner % 4 {
                    0 => Bitstring::random(size, &mut rng),
                    1 => Bitstring::random_with_probability(size, 0.5, &mut rng),
                    2 => Bitstring::random_with_probability(size, 0.0, &mut rng),
                    _ => Bitstring::random_with_probability(size, 1.0, &mut rng),
                };
                let exact = match inner % 4 {
                    2 => b.bits.iter().any(|x| *x).then(|| "random_with_probability(_, 0.0) produced a set bit".to_string()),
                    3 => b.bits.iter().any(|x| !*x).then(|| "random_with_probability(_, 1.0) produced a clear bit".to_string()),
                    _ => None,
                };
                (vec![b.bits.len()], Vec::new(), exact)
            }
            GenKind::VecSlab => {
                let v: Vec<Slab> = if by_ref {
                    probe.to_collection_generator(size).sample(&mut rng)
                } else {
                    Generator::new(&probe, size).sample(&mut rng)
                };
                obs.hit("probe.collection-of-more-than-2^28-bytes");
                let torn = v.iter().position(|s| s.0.iter().any(|x| *x != s.0[0])).map(|i| format!("element {i} is not one value of the element generator"));
                (vec![v.len()], v.iter().map(|s| s.0[0]).collect(), torn)
            }
            GenKind::VecUnit => {
                probe.limit.set(size + 16);
                let v: Vec<()> = if by_ref {
                    probe.to_collection_generator(size).sample(&mut rng)
                } else {
                    Generator::new(&probe, size).sample(&mut rng)
                };
                (vec![v.len()], probe.log.borrow().clone(), None)
            }
            GenKind::Bits => {
                let b: Bitstring = if by_ref {
                    probe.to_collection_generator(size).sample(&mut rng)
                } else {
                    Generator::new(&probe, size).sample(&mut rng)
                };
                (vec![b.bits.len()], b.bits.iter().map(|x| u32::from(*x)).collect(), None)
            }
            GenKind::Plushy => {
                let p: Plushy = if by_ref {
                    probe.to_collection_generator(size).sample(&mut rng)
                } else {
                    Generator::new(&probe, size).sample(&mut rng)
                };
                let genes = p.get_genes();
                (
                    vec![genes.len()],
                    genes
                        .iter()
                        .map(|g| match g {
                            PushGene::Close => u32::MAX,
                            PushGene::Instruction(PushInstruction::IntInstruction(push::instruction::IntInstruction::Push(pv))) => pv.0 as u32,
                            PushGene::Instruction(_) => u32::MAX - 1,
                        })
                        .collect(),
                    None,
                )
            }
            GenKind::Nested => {
                let g = Generator::new(Generator::new(&probe, inner), size);
                let vv: Vec<Vec<u32>> = g.sample(&mut rng);
                let mut shape = vec![vv.len()];
                shape.extend(vv.iter().map(Vec::len));
                (shape, vv.into_iter().flatten().collect(), None)
            }
            GenKind::Individual => {
                let ig = Generator::new(&probe, size).with_scorer(FnScorer(|b: &Bitstring| b.bits.iter().filter(|x| **x).count() as i64));
                let ind: EcIndividual<Bitstring, i64> = ig.sample(&mut rng);
                let ones = ind.genome.bits.iter().filter(|x| **x).count() as i64;
                let msg = (ind.test_results != ones).then(|| format!("scored {} but the genome has {ones} ones", ind.test_results));
                (vec![ind.genome.bits.len()], ind.genome.bits.iter().map(|x| u32::from(*x)).collect(), msg)
            }
            GenKind::Population => {
                let pg = Generator::new(&probe, inner)
                    .with_scorer(FnScorer(|b: &Bitstring| b.bits.len() as i64))
                    .into_collection_generator(size);
                let pop: Vec<EcIndividual<Bitstring, i64>> = pg.sample(&mut rng);
                let mut shape = vec![pop.len()];
                shape.extend(pop.iter().map(|i| i.genome.bits.len()));
                (shape, pop.iter().flat_map(|i| i.genome.bits.iter().map(|x| u32::from(*x))).collect(), None)
            }
        }
    });
    obs.count("draws", rng.draws());
    obs.count("fault.adversarial-stream-words", rng.boundary_fired());
    let mut v = Vec::new();
    let (shape, flat, extra) = match r {
        Ok(x) => x,
        Err(p) => {
            v.push(Violation::new(
                "never-panics",
                format!("panic:{site}"),
                format!("{site} size {size} (inner {inner}) panicked: {}", p.message),
            ));
            return v;
        }
    };
    let log = probe.log.borrow().clone();
    let nested = matches!(kind, GenKind::Nested | GenKind::Population);
    let expected_shape: Vec<usize> = if nested { std::iter::once(size).chain(std::iter::repeat_n(inner, size)).collect() } else { vec![size] };
    if size == 0 {
        obs.hit("probe.size-0");
    }
    if shape != expected_shape {
        v.push(Violation::new(
            "exactly-the-requested-number-of-elements",
            format!("size:{site}"),
            format!("{site}: requested size {size} (inner {inner}); produced collection sizes {shape:?}"),
        ));
    }
    let expected_total: usize = if nested { size * inner } else if kind == GenKind::BitsRandom { 0 } else { size };
    let as_seen: Vec<u32> = match kind {
        GenKind::VecU32 | GenKind::Nested | GenKind::VecUnit | GenKind::BitsRandom | GenKind::VecSlab => log.clone(),
        GenKind::Bits | GenKind::Individual | GenKind::Population => log.iter().map(|x| x & 1).collect(),
        GenKind::Plushy => log.iter().map(|x| if x % 5 == 4 { u32::MAX } else { *x }).collect(),
    };
    if flat != as_seen {
        v.push(Violation::new(
            "elements-drawn-from-the-element-generator",
            format!("elements:{site}"),
            format!(
                "{site}: the collection's elements {:?}... are not exactly the {} elements the element generator produced, in order ({:?}...)",
                &flat[..flat.len().min(8)],
                as_seen.len(),
                &as_seen[..as_seen.len().min(8)]
            ),
        ));
    } else if log.len() != expected_total && shape == expected_shape {
        v.push(Violation::new(
            "elements-drawn-from-the-element-generator",
            format!("extra-samples:{site}"),
            format!("{site}: the element generator was sampled {} times for {expected_total} elements", log.len()),
        ));
    }
    if let Some(m) = extra {
        if kind == GenKind::BitsRandom {
            v.push(Violation::new("elements-drawn-from-the-element-generator", format!("endpoint:{site}"), format!("{site} size {size}: {m}")));
        } else {
            v.push(Violation::new("individual-scored-from-its-genome", format!("score:{site}"), m));
        }
    }
    if expected_total >= 2 {
        obs.nontrivial(mix(mix(mix(kind as u64, size as u64), inner as u64), u64::from(by_ref)));
    }
    v
}

struct C18;

fn dist_cells() -> Vec<(u8, usize)> {
    let mut v = Vec::new();
    for f in 0..FLAVOURS {
        for len in 1..=8usize {
            v.push((f, len));
        }
    }
    v
}

impl Check for C18 {
    type Scenario = Sc;

    fn id(&self) -> &'static str {
        "C18"
    }

    fn declared_probes(&self) -> Vec<&'static str> {
        vec![
            "fault.adversarial-stream-words",
            "fault.empty-source-collection",
            "probe.collection-larger-than-100k",
            "probe.size-0",
            "probe.source-larger-than-2^24-members",
            "probe.zero-sized-members-2^32",
        ]
    }

    fn rule(&self) -> String {
        "(1) uniformity experiments: every conversion flavour (16: owning / borrowing / cloning forms over Vec, array, slice, both macro arms) x \
         every length 1..=8, N seeded samples, each member's frequency vs 1/len (KL rule, total false-alarm budget 1e-9; borrowing forms \
         over duplicate values are counted by position through pointer identity); (2) seeded single constructions + 1-20 samples under \
         seeded and boundary streams: empty source => EmptySlice at construction, num_choices == len, every sample a member, no panic; \
         (3) collection generators over a logging probe element generator: Vec, Bitstring, Plushy, nested (population of genomes), \
         IndividualGenerator, population generator, sizes 0..64: exactly the requested counts and exactly the logged elements in order. \
         Non-trivial: experiments always; constructions with >= 2 members; generators with >= 2 elements; distinct = configuration cells"
            .into()
    }

    fn chunk(&self) -> u64 {
        4
    }

    fn runs(&self, tier: Tier) -> u64 {
        dist_cells().len() as u64
            + 14
            + match tier {
                Tier::Quick => 3_000_000,
                Tier::Thorough => 300_000_000,
            }
    }

    fn generate(&self, g: &mut Xo, tier: Tier, run: u64) -> Sc {
        let cells = dist_cells();
        if (run as usize) < cells.len() {
            let (f, len) = cells[run as usize];
            return Sc::Dist {
                flavour: f,
                len,
                trials: if tier == Tier::Quick { 100_000 } else { 1_000_000 },
                seed: g.next_u64(),
                cells_total: cells.iter().map(|(_, l)| *l as u64).sum(),
            };
        }
        let big = run as usize - cells.len();
        if (3..6).contains(&big) {
            return Sc::Zst { plus: [0usize, 1, 12345][big - 3], rng: RngSpec::swarm(g) };
        }
        if (12..14).contains(&big) {
            return Sc::Gen { kind: GenKind::VecSlab, size: [70_000usize, 65_537][big - 12], inner: 0, by_ref: big == 13, rng: RngSpec::seeded(g.next_u64()) };
        }
        if big < 3 || (6..12).contains(&big) {
            let tri = [0u8, 0, 1, 2][big / 3];
            return Sc::BigDist {
                flavour: [0u8, 2, 10][big % 3],
                log2_len: if tri > 0 { 26 } else { 25 },
                trials: if tri > 0 { 400_000 } else { 20_000 },
                seed: g.next_u64(),
                cells_total: cells.iter().map(|(_, l)| *l as u64).sum::<u64>() + 9,
                tri,
            };
        }
        let rng = RngSpec::swarm(g);
        if g.coin() {
            Sc::Choice {
                flavour: g.below(u64::from(FLAVOURS)) as u8,
                len: match g.below(5) {
                    0 => 0,
                    1 => 1,
                    2 if g.chance(1, 20) => {
                        if g.coin() {
                            *g.pick(&[9usize, 16, 63, 64, 65, 255, 256, 257, 1000, 1024, 4096])
                        } else {
                            g.log_uniform(9, 20_000)
                        }
                    }
                    3 if run % 2 == 0 => ((run / 2) % 301) as usize, // dense sweep of source lengths 0..=300
                    _ => g.urange(0, 8),
                },
                dup: g.coin(),
                samples: g.urange(1, 20),
                rng,
            }
        } else {
            let kind = *g.pick(&[GenKind::VecU32, GenKind::Bits, GenKind::Plushy, GenKind::Nested, GenKind::Individual, GenKind::Population, GenKind::VecUnit, GenKind::BitsRandom]);
            let nested = matches!(kind, GenKind::Nested | GenKind::Population);
            let size = match g.below(6) {
                    0 => 0,
                    1 => 1,
                    2 => 2,
                    // block / word / page boundaries and a few sizes in between
                    3 if g.chance(1, 100) => {
                        let pool = [63usize, 64, 65, 127, 128, 129, 255, 256, 257, 511, 512, 1023, 1024, 1025, 2047, 2048, 2049, 4096, 8192];
                        let big = [65_535usize, 65_536, 65_537];
                        let s = if g.chance(1, 8) {
                            *g.pick(&big)
                        } else if g.chance(1, 25) {
                            // megabyte-sized collections (a "cautious preallocation" cap must not truncate them)
                            g.log_uniform(70_001, 2_500_000)
                        } else if g.coin() {
                            *g.pick(&pool)
                        } else {
                            g.log_uniform(65, 70_000)
                        };
                        if nested { s.min(1100) } else { s }
                    }
                    _ => g.urange(0, if nested { 8 } else { 64 }),
            };
            // every fourth generator scenario sweeps the sizes 0..=1100 densely (by run index)
            let size = if run % 4 == 1 { let s = ((run / 4) % 1101) as usize; if nested { s.min(300) } else { s } } else { size };
            Sc::Gen {
                kind,
                size,
                // (size x inner stays far below the per-operation draw cap of the owned stream)
                inner: if nested && size <= 64 && g.chance(1, 300) { *g.pick(&[64usize, 256, 1024, 1025]) } else { g.urange(0, 8) },
                by_ref: g.coin(),
                rng,
            }
        }
    }

    fn execute(&self, sc: &Sc, obs: &mut Obs) -> Vec<Violation> {
        match sc {
            Sc::Gen { kind, size, inner, by_ref, rng } => exec_gen(*kind, *size, *inner, *by_ref, rng, obs),
            Sc::Choice { flavour, len, dup, samples, rng } => exec_choice(*flavour, *len, *dup, *samples, rng, obs),
            Sc::Dist { flavour, len, trials, seed, cells_total } => exec_dist(*flavour, *len, *trials, *seed, *cells_total, obs),
            Sc::BigDist { flavour, log2_len, trials, seed, cells_total, tri } => exec_big(*flavour, *log2_len, *trials, *seed, *cells_total, *tri, obs),
            Sc::Zst { plus, rng } => exec_zst(*plus, rng, obs),
        }
    }

    fn shrink(&self, sc: &Sc) -> Vec<Sc> {
        let mut out = Vec::new();
        match sc {
            Sc::Gen { kind, size, inner, by_ref, rng } => {
                if *size > 0 {
                    out.push(Sc::Gen { kind: *kind, size: size - 1, inner: *inner, by_ref: *by_ref, rng: rng.clone() });
                }
                if *inner > 0 {
                    out.push(Sc::Gen { kind: *kind, size: *size, inner: inner - 1, by_ref: *by_ref, rng: rng.clone() });
                }
                if rng.q16 != 0 {
                    out.push(Sc::Gen { kind: *kind, size: *size, inner: *inner, by_ref: *by_ref, rng: RngSpec::seeded(rng.seed) });
                }
            }
            Sc::Choice { flavour, len, dup, samples, rng } => {
                if *len > 0 {
                    out.push(Sc::Choice { flavour: *flavour, len: len - 1, dup: *dup, samples: *samples, rng: rng.clone() });
                }
                if *samples > 1 {
                    out.push(Sc::Choice { flavour: *flavour, len: *len, dup: *dup, samples: samples / 2, rng: rng.clone() });
                }
                if rng.q16 != 0 {
                    out.push(Sc::Choice { flavour: *flavour, len: *len, dup: *dup, samples: *samples, rng: RngSpec::seeded(rng.seed) });
                }
            }
            Sc::Dist { .. } | Sc::BigDist { .. } | Sc::Zst { .. } => {}
        }
        out
    }

    fn extra_coverage(
        &self,
        tier: Tier,
        _c: &std::collections::BTreeMap<String, u64>,
    ) -> serde_json::Map<String, serde_json::Value> {
        let trials = if tier == Tier::Quick { 100_000 } else { 1_000_000 };
        let cells: u64 = dist_cells().iter().map(|(_, l)| *l as u64).sum();
        let mut m = serde_json::Map::new();
        m.insert("flavours".into(), serde_json::json!((0..FLAVOURS).map(flavour_name).collect::<Vec<_>>()));
        m.insert(
            "stat_budget".into(),
            serde_json::json!({
                "delta_total": stats::DELTA_TOTAL,
                "cells": cells,
                "trials_per_experiment": trials,
                "threshold_nKL": stats::threshold(cells),
                "resolution_at_p_0.125": stats::resolution(trials, 0.125, cells),
            }),
        );
        m
    }

    fn assumptions(&self) -> Vec<String> {
        vec![
            "the uniform_distribution_of! macro cannot be invoked with zero items, so its empty case does not exist".into(),
            "cloning forms are checked over distinct values (position = value); borrowing forms over duplicate values by pointer identity".into(),
            "distributional clauses: Chernoff-KL rule, total false-alarm budget 1e-9 per invocation".into(),
        ]
    }

    fn real_components(&self) -> Vec<&'static str> {
        vec![
            "ec-core distributions (collection::Generator, conversion, choices, OneOfCloning, ChooseCloning, uniform_distribution_of!)",
            "ec-core IndividualGenerator / WithScorer",
            "ec-linear Bitstring and push Plushy Distribution impls for Generator",
            "rand 0.9.0 Uniform / slice::Choose",
        ]
    }

    fn stub_components(&self) -> Vec<&'static str> {
        vec!["logging probe element generator", "SimRng / FastRng streams"]
    }
}

fn main() {
    main_for(C18);
}
