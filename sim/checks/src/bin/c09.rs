//! C09, serial + real-rayon leg: `Generation::serial_next` with enumerated
//! fault positions, `Generation::par_next` on real rayon pools of 1-4 OS
//! threads (uncontrolled schedule: observation only — the deciding legs for
//! schedules are shuttle and Miri), and the realistic example pipeline with a
//! fault-injecting selector (DESIGN §5 C09).

#[path = "../../../c09common/common.rs"]
mod common;

use std::sync::{
    atomic::{AtomicUsize, Ordering},
    Arc, OnceLock,
};

use common::{check_step, interleaving_digest, Ev, Ind, Maker, Pop, StepFacts, PANIC_BASE};
use ec_core::{
    generation::Generation,
    individual::{ec::EcIndividual, scorer::FnScorer},
    operator::{
        composable::Composable,
        genome_extractor::GenomeExtractor,
        genome_scorer::GenomeScorer,
        mutator::Mutate,
        recombinator::Recombine,
        selector::{tournament::Tournament, Select, Selector},
    },
    test_results::{Score, TestResults},
};
use ec_linear::{genome::bitstring::Bitstring, mutator::with_one_over_length::WithOneOverLength, recombinator::two_point_xo::TwoPointXo};
use rand::Rng;
use serde::{Deserialize, Serialize};
use simcore::{catch, fnv1a, main_for, mix, Check, Obs, Tier, Violation, Xo};

#[derive(Serialize, Deserialize, Clone, Debug)]
enum Sc {
    /// instrumented child maker; threads == 0: serial_next, else par_next on a real pool
    Maker { n: usize, steps: Vec<Vec<usize>>, draws: usize, threads: usize },
    /// a set-like population (children may collide, so the population may shrink): every step
    /// must still make exactly as many children as the population has *at that step*
    SetPop { n: usize, steps: usize, modulus: u64, threads: usize },
    /// the count-ones example pipeline with a selector that fails at its k-th call
    Pipeline { n: usize, bits: usize, fail_at: Option<usize>, threads: usize, data_seed: u64 },
}

fn pool(k: usize) -> &'static rayon::ThreadPool {
    static POOLS: OnceLock<Vec<rayon::ThreadPool>> = OnceLock::new();
    let pools = POOLS.get_or_init(|| {
        (1..=4).map(|t| rayon::ThreadPoolBuilder::new().num_threads(t).build().expect("thread pool")).collect()
    });
    &pools[k.clamp(1, 4) - 1]
}

fn yield_hook() {
    std::thread::yield_now();
}

fn worker_id() -> u64 {
    fnv1a(format!("{:?}", std::thread::current().id()).as_bytes())
}

fn exec_maker(n: usize, steps: &[Vec<usize>], draws: usize, threads: usize, obs: &mut Obs) -> Vec<Violation> {
    let which = if threads == 0 { "serial_next" } else { "par_next(real rayon)" };
    let maker = Maker::new(draws, 1000, yield_hook, worker_id);
    let pop: Pop = (0..n as u64).map(|i| Ind { serial: i, made_from: 0 }).collect();
    let mut generation = Generation::new(maker.clone(), pop);
    let mut previous_words: Vec<u64> = Vec::new();
    let mut v = Vec::new();
    let mut digest = 0u64;
    let mut any_fault = false;
    let mut caught_a_panic = false;
    let mut overlapped = false;
    for (step, faults) in steps.iter().enumerate() {
        let pre: Pop = generation.population().clone();
        let pre_addr = std::ptr::from_ref(generation.population()) as usize;
        maker.begin_step(faults);
        let r = catch(|| {
            if threads == 0 {
                generation.serial_next()
            } else {
                pool(threads).install(|| generation.par_next())
            }
        });
        let result = match r {
            Ok(r) => r,
            Err(p) if faults.iter().any(|f| *f >= PANIC_BASE) && p.message.contains("injected child-maker panic") => {
                // the child maker's own panic unwound through the step and was caught by the caller, who keeps the
                // generation: nothing is required of this step, everything of the following ones
                obs.hit("fault.child-maker-panic-caught");
                obs.count("steps", maker.take_log().iter().filter(|e| matches!(e, Ev::Enter { .. })).count() as u64);
                any_fault = true;
                caught_a_panic = true;
                previous_words.clear();
                continue;
            }
            Err(_) if caught_a_panic => {
                // a generation that refuses further service after a panic unwound through it (a poisoned lock, say)
                // is within its rights: the property says nothing about that, so it is noted and the scenario ends
                obs.hit("probe.generation-panics-again-after-a-caught-panic");
                return v;
            }
            Err(p) => {
                v.push(Violation::new(
                    "never-panics",
                    format!("{which}:panic"),
                    format!("step {step} of {which} on a population of {n} panicked: {}", p.message),
                ));
                return v;
            }
        };
        let log: Vec<Ev> = maker.take_log();
        let facts = StepFacts {
            which,
            step,
            pre: &pre,
            pre_addr,
            post: generation.population(),
            result: &result,
            log: &log,
            injected: faults,
            in_flight_after: maker.st.in_flight.load(Ordering::SeqCst),
            previous_words: &previous_words,
        };
        let (findings, words) = check_step(&facts);
        for f in findings {
            v.push(Violation::new(f.clause, f.key, f.message));
        }
        previous_words = words;
        digest = mix(digest, interleaving_digest(&log));
        let failed = log.iter().filter(|e| matches!(e, Ev::Exit { ok: false, .. })).count();
        obs.count("steps", log.iter().filter(|e| matches!(e, Ev::Enter { .. })).count() as u64);
        obs.count("fault.child-fail", failed as u64);
        any_fault |= failed > 0;
        overlapped |= maker.st.max_in_flight.load(Ordering::SeqCst) >= 2;
        if result.is_err() {
            obs.hit("probe.steps-that-returned-an-error");
        }
        if threads == 0 && !faults.is_empty() && result.is_err() {
            // serial: the first failing call stops the step (later calls are never made)
            let entered = log.iter().filter(|e| matches!(e, Ev::Enter { .. })).count();
            obs.count("probe.children-never-attempted-after-an-error", (n - entered.min(n)) as u64);
        }
    }
    // the population handed out at the end is the one observed after the last step
    let last: Pop = generation.population().clone();
    let handed_out: Pop = generation.into_population();
    if handed_out != last {
        v.push(Violation::new(
            "population-replaced-by-the-new-children",
            format!("{which}:into-population-differs"),
            format!(
                "into_population() returned serials {:?} but population() showed {:?} after the last step",
                handed_out.iter().map(|i| i.serial).collect::<Vec<_>>(),
                last.iter().map(|i| i.serial).collect::<Vec<_>>()
            ),
        ));
    }
    if overlapped {
        obs.hit("probe.two-or-more-makers-overlapped-in-time");
    }
    if n == 0 {
        obs.hit("probe.empty-population");
    }
    if any_fault || overlapped || n >= 2 {
        obs.nontrivial(mix(digest, (n * 8 + threads) as u64));
    }
    v
}

/// Child maker for set populations: counts its calls, returns `1000 * step + (word % modulus)`.
struct SetMaker {
    calls: Arc<AtomicUsize>,
    step: Arc<AtomicUsize>,
    modulus: u64,
    made: Arc<std::sync::Mutex<Vec<u64>>>,
}

impl Composable for SetMaker {}

impl<'a> ec_core::operator::Operator<&'a std::collections::BTreeSet<u64>> for SetMaker {
    type Output = u64;
    type Error = std::convert::Infallible;

    fn apply<R: Rng + ?Sized>(&self, _: &'a std::collections::BTreeSet<u64>, rng: &mut R) -> Result<u64, Self::Error> {
        self.calls.fetch_add(1, Ordering::SeqCst);
        std::thread::yield_now();
        let v = 1000 * (self.step.load(Ordering::SeqCst) as u64 + 1) + rng.next_u64() % self.modulus.max(1);
        self.made.lock().unwrap().push(v);
        Ok(v)
    }
}

fn exec_set(n: usize, steps: usize, modulus: u64, threads: usize, obs: &mut Obs) -> Vec<Violation> {
    use std::collections::BTreeSet;
    let which = if threads == 0 { "set/serial_next" } else { "set/par_next(real rayon)" };
    let calls = Arc::new(AtomicUsize::new(0));
    let step_no = Arc::new(AtomicUsize::new(0));
    let made = Arc::new(std::sync::Mutex::new(Vec::new()));
    let maker = SetMaker { calls: calls.clone(), step: step_no.clone(), modulus, made: made.clone() };
    let pop: BTreeSet<u64> = (0..n as u64).collect();
    let mut generation = Generation::new(maker, pop);
    let mut v = Vec::new();
    for step in 0..steps {
        let pre = generation.population().len();
        calls.store(0, Ordering::SeqCst);
        made.lock().unwrap().clear();
        step_no.store(step, Ordering::SeqCst);
        let r = catch(|| {
            if threads == 0 {
                generation.serial_next()
            } else {
                pool(threads).install(|| generation.par_next())
            }
        });
        if let Err(p) = r {
            v.push(Violation::new("never-panics", format!("{which}:panic"), format!("step {step}: panicked: {}", p.message)));
            return v;
        }
        let c = calls.load(Ordering::SeqCst);
        obs.count("steps", c as u64);
        if c != pre {
            v.push(Violation::new(
                "as-many-children-as-individuals",
                format!("{which}:maker-calls-differ-from-population-size"),
                format!("step {step}: the population has {pre} individuals but the child maker was applied {c} times"),
            ));
        }
        let expected: BTreeSet<u64> = made.lock().unwrap().iter().copied().collect();
        if *generation.population() != expected {
            v.push(Violation::new(
                "population-replaced-by-the-new-children",
                format!("{which}:new-population-is-not-the-children"),
                format!("step {step}: new population {:?} is not the set of children made in this step {expected:?}", generation.population()),
            ));
        }
        if generation.population().len() < pre {
            obs.hit("probe.set-population-shrank-by-colliding-children");
        }
    }
    if n >= 2 {
        obs.nontrivial(mix(mix(77, n as u64), modulus * 16 + (steps * 4 + threads) as u64));
    }
    v
}

type BInd = EcIndividual<Bitstring, TestResults<Score<i64>>>;
type BPop = Vec<BInd>;

#[derive(Debug)]
struct SelFail(usize);
impl std::fmt::Display for SelFail {
    fn fmt(&self, f: &mut std::fmt::Formatter<'_>) -> std::fmt::Result {
        write!(f, "injected selector failure at call {}", self.0)
    }
}
impl std::error::Error for SelFail {}

/// Tournament selector that fails at its k-th call (counted across threads).
struct FaultySelector {
    inner: Tournament,
    calls: Arc<AtomicUsize>,
    fail_at: Option<usize>,
}

impl Selector<BPop> for FaultySelector {
    type Error = SelFail;

    fn select<'pop, R: Rng + ?Sized>(&self, pop: &'pop BPop, rng: &mut R) -> Result<&'pop BInd, SelFail> {
        let k = self.calls.fetch_add(1, Ordering::SeqCst);
        std::thread::yield_now();
        if self.fail_at == Some(k) {
            return Err(SelFail(k));
        }
        self.inner.select(pop, rng).map_err(|_| SelFail(usize::MAX))
    }
}

fn count_ones(b: &Bitstring) -> TestResults<Score<i64>> {
    b.bits.iter().copied().map(i64::from).collect()
}

fn exec_pipeline(n: usize, bits: usize, fail_at: Option<usize>, threads: usize, data_seed: u64, obs: &mut Obs) -> Vec<Violation> {
    let which = if threads == 0 { "pipeline/serial_next" } else { "pipeline/par_next(real rayon)" };
    let mut g = Xo::from_seed(data_seed);
    let pop: BPop = (0..n)
        .map(|_| {
            let b = Bitstring { bits: (0..bits).map(|_| g.coin()).collect() };
            let r = count_ones(&b);
            EcIndividual::new(b, r)
        })
        .collect();
    let calls = Arc::new(AtomicUsize::new(0));
    let selector = FaultySelector { inner: Tournament::binary(), calls: calls.clone(), fail_at };
    let maker = Select::new(selector)
        .apply_twice()
        .then_map(GenomeExtractor)
        .then(Recombine::new(TwoPointXo))
        .then(Mutate::new(WithOneOverLength))
        .wrap::<GenomeScorer<_, _>>(FnScorer(|b: &Bitstring| count_ones(b)));
    let pre = pop.clone();
    let mut generation = Generation::new(maker, pop);
    let mut v = Vec::new();
    let r = catch(|| {
        if threads == 0 {
            generation.serial_next().map_err(|e| e.to_string())
        } else {
            pool(threads).install(|| generation.par_next()).map_err(|e| e.to_string())
        }
    });
    let r = match r {
        Ok(r) => r,
        Err(p) => {
            // n < 2: the binary tournament reports its documented error; a panic is a violation
            v.push(Violation::new("never-panics", format!("{which}:panic"), format!("{which} on {n} individuals of {bits} bits panicked: {}", p.message)));
            return v;
        }
    };
    obs.count("steps", calls.load(Ordering::SeqCst) as u64 / 2);
    let post = generation.population();
    let must_fail = (n > 0 && n < 2) || fail_at.is_some_and(|k| k < calls.load(Ordering::SeqCst));
    match r {
        Ok(()) => {
            if fail_at.is_some_and(|k| k < 2 * n) && n >= 2 {
                v.push(Violation::new(
                    "child-failure-is-returned",
                    format!("{which}:failure-swallowed"),
                    format!("{which}: the selector failed at call {fail_at:?} but the step returned Ok"),
                ));
            }
            if post.len() != n {
                v.push(Violation::new(
                    "as-many-children-as-individuals",
                    format!("{which}:population-size-changed"),
                    format!("{which}: population of {n} was replaced by {} individuals", post.len()),
                ));
            }
            if let Some(bad) = post.iter().find(|i| i.genome.bits.len() != bits || i.test_results != count_ones(&i.genome)) {
                v.push(Violation::new(
                    "population-replaced-by-the-new-children",
                    format!("{which}:malformed-child"),
                    format!("{which}: a child has {} bits / is scored inconsistently", bad.genome.bits.len()),
                ));
            }
            // every child gene comes from the previous population's gene pool at that position
            // unless flipped; with all-equal parents and rate 1/len most children equal a parent
        }
        Err(e) => {
            obs.hit("fault.component-fail");
            if fail_at.is_some() {
                obs.hit("probe.steps-that-returned-an-error");
            }
            if *post != pre {
                v.push(Violation::new(
                    "failed-step-leaves-population-untouched",
                    format!("{which}:population-changed-by-failed-step"),
                    format!("{which}: the step failed with `{e}` but the population changed"),
                ));
            }
            if !must_fail && n >= 2 {
                v.push(Violation::new(
                    "child-failure-is-returned",
                    format!("{which}:spurious-error"),
                    format!("{which}: failed with `{e}` although no component failed"),
                ));
            }
        }
    }
    if n >= 2 {
        obs.nontrivial(mix(mix(data_seed, n as u64), fail_at.map_or(999, |k| k as u64) * 8 + threads as u64));
    }
    v
}

struct C09;

impl Check for C09 {
    type Scenario = Sc;

    fn id(&self) -> &'static str {
        "C09"
    }

    fn leg(&self) -> &'static str {
        "serial"
    }

    fn nondeterminism_is_finding(&self) -> bool {
        true
    }

    fn declared_probes(&self) -> Vec<&'static str> {
        vec![
            "fault.child-fail",
            "fault.child-maker-panic-caught",
            "fault.component-fail",
            "probe.children-never-attempted-after-an-error",
            "probe.empty-population",
            "probe.set-population-shrank-by-colliding-children",
            "probe.steps-that-returned-an-error",
            "probe.two-or-more-makers-overlapped-in-time",
        ]
    }

    fn rule(&self) -> String {
        "serial + real-thread leg: (a) Generation<Vec<Ind>, Maker>::serial_next for populations 0..=8, 1-4 steps, failures at every \
         enumerated arrival position / two / all, each failed step followed by a fault-free recovery step; (b) the same through \
         par_next on real rayon pools of 1-4 OS threads (schedule not controlled here: observation only); (c) the count-ones example \
         pipeline (Select.apply_twice.then_map(GenomeExtractor).then(Recombine(TwoPointXo)).then(Mutate(WithOneOverLength)).wrap \
         GenomeScorer) with a selector failing at its k-th call, serial and parallel. Invariants I1-I6. Non-trivial iff the population \
         has >= 2 members or a fault fired; distinct = (interleaving digest, size, threads) fingerprints"
            .into()
    }

    fn watchdog_secs(&self) -> u64 {
        300 // (statistical experiments / child processes / real thread pools: single runs take seconds)
    }

    fn runs(&self, tier: Tier) -> u64 {
        match tier {
            Tier::Quick => 300_000,
            Tier::Thorough => 30_000_000,
        }
    }

    fn generate(&self, g: &mut Xo, _tier: Tier, run: u64) -> Sc {
        let threads = match g.below(3) {
            0 | 1 => 0,
            _ => g.urange(1, 4),
        };
        if run % 40_000 == 77 {
            // populations beyond 16 bits (block-wise or 16-/32-bit shortcuts in making the children, in seeding
            // their generators or in collecting them first matter here); the largest one serially
            let k = run / 40_000;
            let n = match k % 6 {
                0 => 65_536,
                1 => 66_560,
                2 => 131_072,
                3 => 262_144,
                4 => g.log_uniform(65_536, 200_000),
                _ => 69_632,
            };
            let threads = if n > 140_000 { 0 } else { threads };
            let first = match k % 3 {
                0 => Vec::new(),
                1 => vec![g.usize_below(n)],
                _ => vec![n - 1],
            };
            let steps = if first.is_empty() { vec![first] } else { vec![first, Vec::new()] };
            return Sc::Maker { n, steps, draws: 1, threads };
        }
        if g.chance(1, 12) {
            return Sc::SetPop { n: if g.chance(1, 30) { g.log_uniform(10, 400) } else { g.urange(0, 9) }, steps: g.urange(1, 4), modulus: *g.pick(&[1u64, 2, 3, 1000]), threads };
        }
        if g.chance(1, 5) {
            let n = if g.chance(1, 30) { g.log_uniform(9, 300) } else { g.urange(0, 8) };
            return Sc::Pipeline {
                n,
                bits: g.urange(0, 12),
                fail_at: if g.coin() { Some(g.usize_below((2 * n).max(1))) } else { None },
                threads,
                data_seed: g.next_u64(),
            };
        }
        let n = match g.below(40) {
            0..=4 => 0,
            5..=9 => 1,
            // occasionally a large population (per-child state indexed by position, word-sized
            // masks and the like only go wrong beyond 32 / 64 children)
            10 => *g.pick(&[33usize, 64, 65, 66, 100, 130]),
            11 if g.chance(1, 4) => g.log_uniform(9, 3000),
            12 | 13 => ((run / 3) % 161) as usize, // dense sweep of population sizes 0..=160 (by run index)
            _ => g.urange(0, 8),
        };
        let plan = |g: &mut Xo, k: u64| -> Vec<usize> {
            if n == 0 {
                return Vec::new();
            }
            match k % 6 {
                0 | 1 => Vec::new(),
                2 => vec![(k / 6) as usize % n],
                3 => {
                    let a = g.usize_below(n);
                    let b = g.usize_below(n);
                    if a == b { vec![a] } else { vec![a, b] }
                }
                4 => (0..n).collect(),
                _ => (0..n).filter(|_| g.chance(1, 3)).collect(),
            }
        };
        let mut steps = Vec::new();
        let first = plan(g, run);
        let failed = !first.is_empty();
        steps.push(first);
        if failed || g.coin() {
            steps.push(Vec::new());
        }
        if g.chance(1, 3) {
            let p = plan(g, run / 5);
            let f = !p.is_empty();
            steps.push(p);
            if f {
                steps.push(Vec::new());
            }
        }
        if n >= 1 && run % 8 == 5 {
            // user code panics inside the child maker at call k (enumerated by run index for small populations), the
            // caller catches the unwind, keeps the generation and steps again
            let k = (run / 8) as usize % n;
            let at = g.usize_below(steps.len());
            steps[at] = vec![PANIC_BASE + k];
            steps.truncate(at + 1);
            steps.push(Vec::new());
            if g.coin() {
                steps.push(Vec::new());
            }
        }
        Sc::Maker { n, steps, draws: g.urange(1, 3), threads }
    }

    fn execute(&self, sc: &Sc, obs: &mut Obs) -> Vec<Violation> {
        let threads = match sc {
            Sc::Maker { threads, .. } | Sc::Pipeline { threads, .. } | Sc::SetPop { threads, .. } => *threads,
        };
        // (set populations: how many children collide depends on the random words, and those come from the
        // repository's own thread-local generator — there is no seam for it —, so the counters vary between two
        // executions although the verdict does not)
        if obs.audit && (threads > 0 || matches!(sc, Sc::SetPop { .. })) {
            // real OS threads: only the (schedule-independent) verdict takes part in the determinism audit
            let mut scratch = Obs::default();
            return self.execute(sc, &mut scratch);
        }
        match sc {
            Sc::Maker { n, steps, draws, threads } => exec_maker(*n, steps, *draws, *threads, obs),
            Sc::Pipeline { n, bits, fail_at, threads, data_seed } => exec_pipeline(*n, *bits, *fail_at, *threads, *data_seed, obs),
            Sc::SetPop { n, steps, modulus, threads } => exec_set(*n, *steps, *modulus, *threads, obs),
        }
    }

    fn shrink(&self, sc: &Sc) -> Vec<Sc> {
        let mut out = Vec::new();
        match sc {
            Sc::Maker { n, steps, draws, threads } => {
                if *n > 0 {
                    let m = n - 1;
                    let s = steps.iter().map(|f| f.iter().copied().filter(|k| *k < m).collect()).collect();
                    out.push(Sc::Maker { n: m, steps: s, draws: *draws, threads: *threads });
                }
                if steps.len() > 1 {
                    for i in 0..steps.len() {
                        let mut s = steps.clone();
                        s.remove(i);
                        out.push(Sc::Maker { n: *n, steps: s, draws: *draws, threads: *threads });
                    }
                }
                for (i, f) in steps.iter().enumerate() {
                    for j in 0..f.len() {
                        let mut s = steps.clone();
                        s[i].remove(j);
                        out.push(Sc::Maker { n: *n, steps: s, draws: *draws, threads: *threads });
                    }
                }
                if *threads > 0 {
                    out.push(Sc::Maker { n: *n, steps: steps.clone(), draws: *draws, threads: threads - 1 });
                }
                if *draws > 1 {
                    out.push(Sc::Maker { n: *n, steps: steps.clone(), draws: 1, threads: *threads });
                }
            }
            Sc::SetPop { n, steps, modulus, threads } => {
                if *n > 0 {
                    out.push(Sc::SetPop { n: n - 1, steps: *steps, modulus: *modulus, threads: *threads });
                }
                if *steps > 1 {
                    out.push(Sc::SetPop { n: *n, steps: steps - 1, modulus: *modulus, threads: *threads });
                }
                if *threads > 0 {
                    out.push(Sc::SetPop { n: *n, steps: *steps, modulus: *modulus, threads: 0 });
                }
            }
            Sc::Pipeline { n, bits, fail_at, threads, data_seed } => {
                if *n > 0 {
                    out.push(Sc::Pipeline { n: n - 1, bits: *bits, fail_at: *fail_at, threads: *threads, data_seed: *data_seed });
                }
                if *bits > 0 {
                    out.push(Sc::Pipeline { n: *n, bits: bits - 1, fail_at: *fail_at, threads: *threads, data_seed: *data_seed });
                }
                if *threads > 0 {
                    out.push(Sc::Pipeline { n: *n, bits: *bits, fail_at: *fail_at, threads: 0, data_seed: *data_seed });
                }
            }
        }
        out
    }

    fn assumptions(&self) -> Vec<String> {
        vec![
            "the real-rayon part of this leg runs on OS threads whose interleaving the harness does not decide; its invariants are schedule-independent, so it cannot raise a false alarm, but a failure found there may not replay — the deciding legs for schedules are shuttle and Miri".into(),
            "which error is returned when several children fail in one par_next is unspecified (rayon): any injected one is accepted".into(),
            "the order of children in the new population is not constrained".into(),
        ]
    }

    fn real_components(&self) -> Vec<&'static str> {
        vec!["ec-core Generation::serial_next / par_next", "rayon 1.10 (real pools of 1-4 OS threads)", "the count-ones pipeline operators", "rand::rng()"]
    }

    fn stub_components(&self) -> Vec<&'static str> {
        vec!["instrumented child maker", "fault-injecting selector"]
    }
}

fn main() {
    main_for(C09);
}
