//! C08 — lexicase filters by randomly ordered cases; winners are never
//! dominated. Exact law by enumerating all case orders; exact support clauses
//! per run; seeded statistical decision per individual (DESIGN §5 C08, §3.7).

use ec_core::{
    individual::ec::EcIndividual,
    operator::selector::{lexicase::Lexicase, Selector},
    test_results::{Error as ErrR, Score, TestResults},
};
use serde::{Deserialize, Serialize};
use simcore::{catch, fnv1a, main_for, mix, stats, Check, FastRng, Obs, RngSpec, Tier, Violation, Xo};

#[derive(Serialize, Deserialize, Clone, Copy, Debug, PartialEq, Eq)]
enum Polarity {
    Score,
    Error,
}

#[derive(Serialize, Deserialize, Clone, Debug)]
struct Matrix {
    polarity: Polarity,
    /// rows[i][j] = result of individual i on case j (all rows have >= c entries)
    rows: Vec<Vec<i64>>,
    /// configured number of cases
    c: usize,
}

#[derive(Serialize, Deserialize, Clone, Debug)]
enum Sc {
    One { m: Matrix, rng: RngSpec },
    Dist { m: Matrix, trials: u64, seed: u64, cells_total: u64 },
    /// Wide experiments with a closed-form law (stored compactly). `n_identical == 0`: TWO individuals and `c`
    /// cases; the first is strictly better (by the given amount) on the cases in `a`, the second on those in `b`,
    /// all other cases tie: the first discriminating case in the random order decides, so P(first wins) =
    /// |a| / (|a| + |b|) — whatever the amounts (equal or different totals) and however far apart the cases are.
    /// `n_identical > 0`: that many identical individuals: the winner is uniform over them (decided per octile).
    Wide { polarity: Polarity, c: usize, a: Vec<(usize, i64)>, b: Vec<(usize, i64)>, n_identical: usize, trials: u64, seed: u64, cells_total: u64 },
}

/// ENUMERATED single selections: every result matrix with values in {0, 1, 2} for n individuals x a available
/// cases with n * a <= 6, every configured case count 0..=a, both polarities, 4 streams.
const ENUM_DIMS: [(usize, usize); 11] = [(1, 0), (2, 0), (3, 0), (1, 1), (1, 2), (1, 3), (2, 1), (2, 2), (2, 3), (3, 1), (3, 2)];

fn enum_block(n: usize, a: usize) -> u64 {
    3u64.pow((n * a) as u32) * (a as u64 + 1) * 2 * 4
}

fn enum_cells() -> u64 {
    ENUM_DIMS.iter().map(|(n, a)| enum_block(*n, *a)).sum()
}

fn enum_cell(mut idx: u64) -> Sc {
    let (mut n, mut a) = ENUM_DIMS[0];
    for (dn, da) in ENUM_DIMS {
        n = dn;
        a = da;
        let b = enum_block(dn, da);
        if idx < b {
            break;
        }
        idx -= b;
    }
    let stream = idx % 4;
    idx /= 4;
    let polarity = if idx % 2 == 0 { Polarity::Score } else { Polarity::Error };
    idx /= 2;
    let c = (idx % (a as u64 + 1)) as usize;
    idx /= a as u64 + 1;
    let rows: Vec<Vec<i64>> = (0..n).map(|i| (0..a).map(|j| ((idx / 3u64.pow((i * a + j) as u32)) % 3) as i64).collect()).collect();
    let rng = match stream {
        0 => RngSpec::seeded(1 + idx),
        1 => RngSpec::seeded(0x2545_f491 ^ idx),
        2 => RngSpec { q16: 16, ..RngSpec::seeded(3) },
        _ => RngSpec { q16: 5, ..RngSpec::seeded(4 ^ idx) },
    };
    Sc::One { m: Matrix { polarity, rows, c }, rng }
}

const WIDE: u64 = 8;
const WIDE_CELLS: u64 = 6 + 2 * 8;

fn wide_experiment(i: u64, seed: u64, cells_total: u64) -> Sc {
    let (polarity, c, a, b, n_identical, trials): (Polarity, usize, Vec<(usize, i64)>, Vec<(usize, i64)>, usize, u64) = match i {
        // a run of >= 64 consecutive ties is likely before the first discriminating case; equal totals
        0 => (Polarity::Score, 200, vec![(10, 1), (150, 1)], vec![(77, 2)], 0, 40_000),
        1 => (Polarity::Error, 200, vec![(199, 3)], vec![(0, 1), (100, 1), (101, 1)], 0, 40_000),
        // discriminating cases beyond index 4096 / 8192 / 2^15
        2 => (Polarity::Score, 5_000, vec![(4_500, 1), (4_999, 5)], vec![(100, 1)], 0, 6_000),
        3 => (Polarity::Error, 9_000, vec![(8_500, 1)], vec![(8_600, 1), (8_700, 2), (3, 1)], 0, 5_000),
        4 => (Polarity::Score, 50_000, vec![(5, 1), (40_000, 1)], vec![(49_999, 2)], 0, 3_000),
        5 => (Polarity::Error, 70_000, vec![(66_000, 1)], vec![(65_535, 1)], 0, 2_500),
        // more identical individuals than 16 bits count
        6 => (Polarity::Score, 1, Vec::new(), Vec::new(), 100_000, 3_000),
        _ => (Polarity::Error, 0, Vec::new(), Vec::new(), 70_001, 3_000),
    };
    Sc::Wide { polarity, c, a, b, n_identical, trials, seed, cells_total }
}

fn wide_matrix(polarity: Polarity, c: usize, a: &[(usize, i64)], b: &[(usize, i64)], n_identical: usize) -> Matrix {
    if n_identical > 0 {
        return Matrix { polarity, rows: vec![vec![3; c]; n_identical], c };
    }
    // "better" = larger for scores, smaller for errors
    let sign = if polarity == Polarity::Score { 1 } else { -1 };
    let mut rows = vec![vec![10i64; c], vec![10i64; c]];
    for (j, d) in a {
        rows[0][*j] += sign * d;
    }
    for (j, d) in b {
        rows[1][*j] += sign * d;
    }
    Matrix { polarity, rows, c }
}

type Ind<R> = EcIndividual<u32, TestResults<R>>;

fn make_pop<R: From<i64> + for<'a> std::iter::Sum<&'a R>>(m: &Matrix) -> Vec<Ind<R>> {
    m.rows
        .iter()
        .enumerate()
        .map(|(i, row)| {
            let results: Vec<R> = row.iter().map(|v| R::from(*v)).collect();
            let total_result: R = results.iter().sum();
            EcIndividual::new(i as u32, TestResults { results, total_result })
        })
        .collect()
}

/// better(a, b): is result a strictly better than b under the polarity?
fn better(p: Polarity, a: i64, b: i64) -> bool {
    match p {
        Polarity::Score => a > b,
        Polarity::Error => a < b,
    }
}

/// Exact selection law: enumerate every order of the c considered cases,
/// filter, split each order's mass evenly among its survivors.
fn law(m: &Matrix) -> Vec<f64> {
    let n = m.rows.len();
    let mut mass = vec![0.0f64; n];
    if n == 0 {
        return mass;
    }
    let mut order: Vec<usize> = (0..m.c).collect();
    let mut orders = 0u64;
    permute(&mut order, 0, &mut |ord| {
        orders += 1;
        let mut cand: Vec<usize> = (0..n).collect();
        for &case in ord {
            if cand.len() <= 1 {
                break;
            }
            let mut best = m.rows[cand[0]][case];
            for &i in &cand {
                if better(m.polarity, m.rows[i][case], best) {
                    best = m.rows[i][case];
                }
            }
            cand.retain(|&i| m.rows[i][case] == best);
        }
        let share = 1.0 / cand.len() as f64;
        for i in cand {
            mass[i] += share;
        }
    });
    for x in &mut mass {
        *x /= orders as f64;
    }
    mass
}

fn permute(a: &mut Vec<usize>, k: usize, f: &mut impl FnMut(&[usize])) {
    if k >= a.len() {
        f(a);
        return;
    }
    for i in k..a.len() {
        a.swap(k, i);
        permute(a, k + 1, f);
        a.swap(k, i);
    }
}

/// Does the outcome depend on the case order (some individual survives one
/// order and not another)?
fn order_sensitive(m: &Matrix) -> bool {
    let l = law(m);
    // under a single fixed order the mass would be k/c!-quantised differently;
    // simplest exact test: compare with the law of the identity order alone
    let mut fixed = m.clone();
    let n = m.rows.len();
    let mut cand: Vec<usize> = (0..n).collect();
    for case in 0..fixed.c {
        if cand.len() <= 1 {
            break;
        }
        let mut best = m.rows[cand[0]][case];
        for &i in &cand {
            if better(m.polarity, m.rows[i][case], best) {
                best = m.rows[i][case];
            }
        }
        cand.retain(|&i| m.rows[i][case] == best);
    }
    fixed.c = m.c;
    (0..n).any(|i| {
        let in_fixed = cand.contains(&i);
        (l[i] > 0.0) != in_fixed || (in_fixed && (l[i] - 1.0 / cand.len() as f64).abs() > 1e-12)
    })
}

/// Exact support test without enumerating orders: `w` can win iff the greedy order "apply any remaining case on
/// which w is among the best of the current candidates" never gets stuck before the cases run out or w is
/// alone. (Applying such a case only removes competitors, which can never hurt w later, so greedy is exact.)
fn in_support(m: &Matrix, w: usize) -> bool {
    let mut cand: Vec<usize> = (0..m.rows.len()).collect();
    let mut left: Vec<usize> = (0..m.c).collect();
    loop {
        if cand.len() <= 1 || left.is_empty() {
            return true;
        }
        let pick = left.iter().position(|&case| !cand.iter().any(|&i| better(m.polarity, m.rows[i][case], m.rows[w][case])));
        match pick {
            None => return false,
            Some(p) => {
                let case = left.swap_remove(p);
                let best = m.rows[w][case];
                cand.retain(|&i| m.rows[i][case] == best);
            }
        }
    }
}

fn dominated(m: &Matrix, w: usize) -> Option<usize> {
    (0..m.rows.len()).find(|&j| {
        j != w
            && (0..m.c).all(|k| !better(m.polarity, m.rows[w][k], m.rows[j][k]))
            && (0..m.c).any(|k| better(m.polarity, m.rows[j][k], m.rows[w][k]))
    })
}

fn select_index<G: rand::Rng>(m: &Matrix, rng: &mut G) -> Result<Option<usize>, simcore::Panicked> {
    select_index_warm(m, rng, None)
}

/// `warm`: the Lexicase VALUE first selects once from another population (rows reversed, one duplicate more)
/// with its own stream — a selector must not carry anything over between calls.
fn select_index_warm<G: rand::Rng>(m: &Matrix, rng: &mut G, warm: Option<u64>) -> Result<Option<usize>, simcore::Panicked> {
    let wm = Matrix { rows: m.rows.iter().rev().cloned().chain(m.rows.first().cloned()).collect(), ..m.clone() };
    match m.polarity {
        Polarity::Score => {
            let pop: Vec<Ind<Score<i64>>> = make_pop(m);
            let wpop: Vec<Ind<Score<i64>>> = if warm.is_some() { make_pop(&wm) } else { Vec::new() };
            catch(|| {
                let l = Lexicase::new(m.c);
                if let Some(seed) = warm {
                    let _ = l.select(&wpop, &mut FastRng::new(seed));
                }
                l.select(&pop, rng).ok().and_then(|r| pop.iter().position(|x| std::ptr::eq(x, r)))
            })
        }
        Polarity::Error => {
            let pop: Vec<Ind<ErrR<i64>>> = make_pop(m);
            let wpop: Vec<Ind<ErrR<i64>>> = if warm.is_some() { make_pop(&wm) } else { Vec::new() };
            catch(|| {
                let l = Lexicase::new(m.c);
                if let Some(seed) = warm {
                    let _ = l.select(&wpop, &mut FastRng::new(seed));
                }
                l.select(&pop, rng).ok().and_then(|r| pop.iter().position(|x| std::ptr::eq(x, r)))
            })
        }
    }
}

fn show_rows(m: &Matrix) -> String {
    if m.rows.len() * m.rows.first().map_or(0, Vec::len) <= 60 {
        format!("{:?}", m.rows)
    } else {
        format!("<{} x {} matrix, see the replay file>", m.rows.len(), m.rows.first().map_or(0, Vec::len))
    }
}

fn exec_one(m: &Matrix, spec: &RngSpec, obs: &mut Obs) -> Vec<Violation> {
    let mut rng = spec.build();
    let r = select_index_warm(m, &mut rng, (spec.seed % 3 == 0).then_some(spec.seed ^ 0x1e8));
    obs.count("draws", rng.draws());
    obs.count("fault.adversarial-stream-words", rng.boundary_fired());
    let mut v = Vec::new();
    let Ok(Some(w)) = r else {
        // inside C08's quantifier (a non-empty population, case count <= results available) lexicase must
        // RETURN a survivor: a panic or an error there means none was returned
        if !m.rows.is_empty() {
            v.push(Violation::new(
                "returns-a-survivor",
                format!("no-individual:{:?}", m.polarity),
                format!(
                    "lexicase({}) on a population of {} ({:?}, {} results each) panicked or reported an error instead of returning an individual",
                    m.c,
                    m.rows.len(),
                    m.polarity,
                    m.rows.first().map_or(0, Vec::len)
                ),
            ));
        }
        return v;
    };
    let small = m.c <= 5 && m.rows.len() <= 8;
    if !small {
        obs.hit("probe.large-matrix");
    }
    let l = if small { law(m) } else { (0..m.rows.len()).map(|i| if i == w && !in_support(m, w) { 0.0 } else { f64::NAN }).collect() };
    if small && in_support(m, w) != (l[w] > 0.0) {
        v.push(Violation::new(
            "harness-self-check",
            "support-oracles-disagree".to_string(),
            format!("greedy support test and enumerated law disagree on individual #{w} of {m:?}"),
        ));
    }
    if m.rows.len() == 1 {
        obs.hit("probe.single-individual");
    }
    if m.c == 0 {
        obs.hit("probe.zero-cases");
    }
    if l[w] <= 0.0 {
        v.push(Violation::new(
            "winner-survives-some-case-order",
            format!("winner-outside-support:{:?}", m.polarity),
            format!(
                "lexicase({}) on {:?} rows {} returned individual #{w}, which survives no ordering of the cases (law {})",
                m.c,
                m.polarity,
                show_rows(m),
                if small { format!("{l:?}") } else { "not enumerated: greedy support test".to_string() }
            ),
        ));
    }
    if let Some(j) = dominated(m, w) {
        v.push(Violation::new(
            "winner-never-pareto-dominated",
            format!("dominated-winner:{:?}", m.polarity),
            format!(
                "lexicase({}) on {:?} rows {} returned individual #{w}, which is Pareto-dominated by #{j} on the considered cases",
                m.c,
                m.polarity,
                show_rows(m)
            ),
        ));
    }
    if m.rows.len() >= 2 && m.c >= 1 {
        let mut fp = fnv1a(format!("{:?}{}", m.polarity, m.c).as_bytes());
        for r in &m.rows {
            for x in r {
                fp = mix(fp, *x as u64);
            }
        }
        obs.nontrivial(mix(fp, w as u64));
    }
    v
}

fn exec_wide(sc: &Sc, obs: &mut Obs) -> Vec<Violation> {
    let Sc::Wide { polarity, c, a, b, n_identical, trials, seed, cells_total } = sc else { return Vec::new() };
    let m = wide_matrix(*polarity, *c, a, b, *n_identical);
    let Some(wins) = count_wins(&m, *trials, *seed) else { return Vec::new() };
    obs.count("steps", *trials);
    obs.hit("probe.wide-experiment(closed-form law)");
    obs.nontrivial(fnv1a(format!("{sc:?}").as_bytes()));
    let mut v = Vec::new();
    if *n_identical > 0 {
        let mut oct = [0u64; 8];
        for (i, w) in wins.iter().enumerate() {
            oct[i * 8 / n_identical] += w;
        }
        for (o, w) in oct.iter().enumerate() {
            obs.hit("stat-cells");
            let lo = (o * n_identical).div_ceil(8);
            let hi = ((o + 1) * n_identical).div_ceil(8);
            let p = (hi - lo) as f64 / *n_identical as f64;
            let verdict = stats::decide(*trials, *w, p, *cells_total);
            if verdict.violated {
                v.push(Violation::new(
                    "selection-probability-equals-fraction-of-orderings-survived",
                    format!("law-mismatch:identical:{polarity:?}"),
                    format!(
                        "lexicase({c}) on {n_identical} identical individuals: individuals #{lo}..#{hi} won {w} of {trials} seeded selections; \
                         every individual is equally likely, so {p:.4} of them (by octile: {oct:?}; n*KL = {:.1}, threshold {:.1})",
                        verdict.stat, verdict.threshold
                    ),
                ));
                break;
            }
        }
    } else {
        obs.hit("stat-cells");
        let p = a.len() as f64 / (a.len() + b.len()) as f64;
        let verdict = stats::decide(*trials, wins[0], p, *cells_total);
        if verdict.violated {
            v.push(Violation::new(
                "selection-probability-equals-fraction-of-orderings-survived",
                format!("law-mismatch:wide:{polarity:?}"),
                format!(
                    "lexicase({c}) on two individuals, #0 better on cases {a:?}, #1 better on cases {b:?}, all other cases tied: #0 won {} of {trials} \
                     seeded selections; the first discriminating case in a uniformly random order decides, so the law is {p:.4} (n*KL = {:.1}, threshold {:.1})",
                    wins[0], verdict.stat, verdict.threshold
                ),
            ));
        }
    }
    v
}

fn exec_dist(m: &Matrix, trials: u64, seed: u64, cells_total: u64, obs: &mut Obs) -> Vec<Violation> {
    let n = m.rows.len();
    let Some(wins) = count_wins(m, trials, seed) else {
        return Vec::new(); // the exact clauses report panics / errors
    };
    exec_dist_decide(m, trials, cells_total, &wins, n, obs)
}

/// Index of the element `r` refers to inside `pop` (None if it points elsewhere).
fn index_in<T>(pop: &[T], r: &T) -> Option<usize> {
    let base = pop.as_ptr() as usize;
    let at = std::ptr::from_ref(r) as usize;
    let sz = std::mem::size_of::<T>().max(1);
    (at >= base && (at - base) % sz == 0 && (at - base) / sz < pop.len()).then(|| (at - base) / sz)
}

fn count_wins(m: &Matrix, trials: u64, seed: u64) -> Option<Vec<u64>> {
    let mut rng = FastRng::new(seed);
    let n = m.rows.len();
    let mut wins = vec![0u64; n];
    // ONE selector value and one population for all trials of an experiment (a long session on one value:
    // whatever a selector carries from call to call shows up as a wrong law)
    let ok = match m.polarity {
        Polarity::Score => {
            let pop: Vec<Ind<Score<i64>>> = make_pop(m);
            let l = Lexicase::new(m.c);
            catch(|| {
                for _ in 0..trials {
                    match l.select(&pop, &mut rng).ok().and_then(|r| index_in(&pop, r)) {
                        Some(w) => wins[w] += 1,
                        None => return false,
                    }
                }
                true
            })
        }
        Polarity::Error => {
            let pop: Vec<Ind<ErrR<i64>>> = make_pop(m);
            let l = Lexicase::new(m.c);
            catch(|| {
                for _ in 0..trials {
                    match l.select(&pop, &mut rng).ok().and_then(|r| index_in(&pop, r)) {
                        Some(w) => wins[w] += 1,
                        None => return false,
                    }
                }
                true
            })
        }
    };
    matches!(ok, Ok(true)).then_some(wins)
}

fn exec_dist_decide(m: &Matrix, trials: u64, cells_total: u64, wins: &[u64], n: usize, obs: &mut Obs) -> Vec<Violation> {
    obs.count("steps", trials);
    if order_sensitive(m) {
        obs.hit("probe.order-sensitive-matrix");
    }
    let l = law(m);
    if l.iter().filter(|p| **p > 0.0).count() >= 2 {
        obs.hit("probe.more-than-one-possible-winner");
    }
    obs.nontrivial(fnv1a(format!("{m:?}").as_bytes()));
    let mut v = Vec::new();
    for i in 0..n {
        obs.hit("stat-cells");
        let verdict = stats::decide(trials, wins[i], l[i], cells_total);
        if verdict.violated {
            let (clause, key) = if l[i] <= 0.0 {
                ("winner-survives-some-case-order", format!("winner-outside-support:{:?}", m.polarity))
            } else {
                ("selection-probability-equals-fraction-of-orderings-survived", format!("law-mismatch:{:?}", m.polarity))
            };
            v.push(Violation::new(
                clause,
                key,
                format!(
                    "lexicase({}) on {:?} rows {:?}: individual #{i} won {} of {trials} seeded selections; exact law {:.5} (all: {:?}; n*KL = {:.1}, threshold {:.1})",
                    m.c, m.polarity, m.rows, wins[i], l[i], l, verdict.stat, verdict.threshold
                ),
            ));
            break;
        }
    }
    v
}

/// Larger matrices (populations up to 400, up to 60 cases): the exact clauses are decided by the greedy support
/// test and the dominance test; the law is not enumerated.
fn gen_big_matrix(g: &mut Xo) -> Matrix {
    let n = g.log_uniform(2, 400);
    let avail = g.log_uniform(1, 60);
    let c = if g.chance(1, 4) { g.urange(0, avail) } else { avail };
    let hi = *g.pick(&[1u64, 1, 2, 3, 9, 1000]);
    // many near-duplicates of a few archetypes, so that large survivor sets and long filter chains occur
    let archetypes: Vec<Vec<i64>> = (0..g.urange(1, 6)).map(|_| (0..avail).map(|_| g.range(0, hi) as i64).collect()).collect();
    let rows = (0..n)
        .map(|_| {
            let mut r = g.pick(&archetypes).clone();
            for x in &mut r {
                if g.chance(1, 8) {
                    *x = g.range(0, hi) as i64;
                }
            }
            r
        })
        .collect();
    Matrix { polarity: if g.coin() { Polarity::Score } else { Polarity::Error }, rows, c }
}

fn gen_matrix(g: &mut Xo, want_sensitive: bool) -> Matrix {
    for _ in 0..50 {
        let n = if want_sensitive { g.urange(2, 6) } else { g.urange(1, 6) };
        let avail = if want_sensitive { g.urange(2, 4) } else { g.urange(0, 4) };
        let c = if g.chance(1, 4) { g.urange(0, avail) } else { avail };
        let hi = g.range(1, 2);
        let m = Matrix {
            polarity: if g.coin() { Polarity::Score } else { Polarity::Error },
            rows: (0..n).map(|_| (0..avail).map(|_| g.range(0, hi) as i64).collect()).collect(),
            c,
        };
        if !want_sensitive || order_sensitive(&m) {
            return m;
        }
    }
    // a hand-made order-sensitive matrix
    Matrix { polarity: Polarity::Score, rows: vec![vec![1, 0], vec![0, 1], vec![0, 0]], c: 2 }
}

struct C08;

const MATRICES_QUICK: u64 = 80;
const MATRICES_THOROUGH: u64 = 800;

impl Check for C08 {
    type Scenario = Sc;

    fn id(&self) -> &'static str {
        "C08"
    }

    fn declared_probes(&self) -> Vec<&'static str> {
        vec![
            "fault.adversarial-stream-words",
            "probe.large-matrix",
            "probe.more-than-one-possible-winner",
            "probe.order-sensitive-matrix",
            "probe.single-individual",
            "probe.zero-cases",
        ]
    }

    fn rule(&self) -> String {
        "(1) distribution experiments: seeded result matrices (population 1-6, 0-4 cases, values 0..=2 so ties are the norm, scores and \
         errors, configured case count <= available; at least half generated to be order-sensitive), N seeded selections each; every \
         individual's winning frequency vs the exact law obtained by enumerating all c! case orders (KL rule, total false-alarm budget \
         1e-9); (2) seeded single selections under seeded and boundary streams: the winner must have positive mass under the law and must \
         not be Pareto-dominated on the considered cases; 1 in 25 of them on LARGE matrices (populations up to 400, up to 60 cases, \
         near-duplicate archetypes) where support is decided exactly by a greedy test instead of enumeration; a panic or error on a \
         non-empty population is a violation too. Non-trivial: experiments always; single selections with >= 2 individuals and \
         >= 1 case; distinct = matrix (and winner) fingerprints"
            .into()
    }

    fn chunk(&self) -> u64 {
        2
    }

    fn runs(&self, tier: Tier) -> u64 {
        match tier {
            Tier::Quick => MATRICES_QUICK + 2_000_000,
            Tier::Thorough => MATRICES_THOROUGH + 200_000_000,
        }
    }

    fn generate(&self, g: &mut Xo, tier: Tier, run: u64) -> Sc {
        let mats = if tier == Tier::Quick { MATRICES_QUICK } else { MATRICES_THOROUGH };
        if run >= mats && run < mats + WIDE {
            return wide_experiment(run - mats, g.next_u64(), mats * 6 + WIDE_CELLS);
        }
        if run < mats {
            // the first experiments are FIXED (the same under every seed): ties of three and more, duplicated
            // individuals, equal totals with different profiles, fewer configured cases than results
            let fixed: [(Polarity, usize, &[&[i64]]); 10] = [
                (Polarity::Score, 1, &[&[7], &[7], &[7]]),
                (Polarity::Error, 0, &[&[1, 2], &[3, 4], &[5, 6], &[7, 8]]),
                (Polarity::Score, 2, &[&[1, 0], &[0, 1], &[1, 0]]),
                (Polarity::Error, 2, &[&[1, 0], &[0, 1], &[1, 0]]),
                (Polarity::Score, 1, &[&[5, 1], &[5, 1], &[5, 2]]),
                (Polarity::Error, 1, &[&[5, 1], &[5, 1], &[5, 2], &[6, 0]]),
                (Polarity::Score, 2, &[&[5, 5], &[5, 5], &[0, 9]]),
                (Polarity::Score, 3, &[&[2, 1, 0], &[0, 2, 1], &[1, 0, 2], &[1, 1, 1]]),
                (Polarity::Error, 2, &[&[0, 0], &[0, 0], &[0, 0], &[0, 0], &[0, 1]]),
                (Polarity::Score, 2, &[&[3, 3, 9], &[3, 3, 0], &[3, 2, 9], &[2, 3, 9]]),
            ];
            if let Some((polarity, c, rows)) = fixed.get(run as usize) {
                return Sc::Dist {
                    m: Matrix { polarity: *polarity, rows: rows.iter().map(|r| r.to_vec()).collect(), c: *c },
                    trials: if tier == Tier::Quick { 60_000 } else { 400_000 },
                    seed: g.next_u64(),
                    cells_total: mats * 6 + WIDE_CELLS,
                };
            }
            return Sc::Dist {
                m: gen_matrix(g, run % 4 != 3),
                trials: if tier == Tier::Quick { 60_000 } else { 400_000 },
                seed: g.next_u64(),
                cells_total: mats * 6 + WIDE_CELLS,
            };
        }
        if run >= mats + WIDE && run < mats + WIDE + enum_cells() {
            return enum_cell(run - mats - WIDE);
        }
        if g.chance(1, 25) {
            return Sc::One { m: gen_big_matrix(g), rng: RngSpec::swarm(g) };
        }
        if run % 5 == 2 {
            // dense sweep (by run index) of population sizes 1..=40 x configured case counts 0..=12
            let idx = run / 5;
            let (n, c) = (1 + (idx % 40) as usize, ((idx / 40) % 13) as usize);
            let avail = c + g.urange(0, 2);
            let hi = g.range(1, 3);
            let rows = (0..n).map(|_| (0..avail).map(|_| g.range(0, hi) as i64).collect()).collect();
            let m = Matrix { polarity: if g.coin() { Polarity::Score } else { Polarity::Error }, rows, c };
            return Sc::One { m, rng: RngSpec::swarm(g) };
        }
        let sens = g.coin();
        Sc::One { m: gen_matrix(g, sens), rng: RngSpec::swarm(g) }
    }

    fn execute(&self, sc: &Sc, obs: &mut Obs) -> Vec<Violation> {
        match sc {
            Sc::One { m, rng } => exec_one(m, rng, obs),
            Sc::Dist { m, trials, seed, cells_total } => exec_dist(m, *trials, *seed, *cells_total, obs),
            Sc::Wide { .. } => exec_wide(sc, obs),
        }
    }

    fn shrink(&self, sc: &Sc) -> Vec<Sc> {
        let mut out = Vec::new();
        if let Sc::One { m, rng } = sc {
            for rows in simcore::drop_chunks(&m.rows) {
                if !rows.is_empty() {
                    out.push(Sc::One { m: Matrix { rows, ..m.clone() }, rng: rng.clone() });
                }
            }
            if m.c > 0 {
                out.push(Sc::One { m: Matrix { c: m.c - 1, ..m.clone() }, rng: rng.clone() });
            }
            if rng.q16 != 0 {
                out.push(Sc::One { m: m.clone(), rng: RngSpec::seeded(rng.seed) });
            }
        }
        out
    }

    fn extra_coverage(
        &self,
        tier: Tier,
        _c: &std::collections::BTreeMap<String, u64>,
    ) -> serde_json::Map<String, serde_json::Value> {
        let mats = if tier == Tier::Quick { MATRICES_QUICK } else { MATRICES_THOROUGH };
        let trials = if tier == Tier::Quick { 60_000 } else { 400_000 };
        let mut m = serde_json::Map::new();
        m.insert("enumerated_small_matrices".into(), serde_json::json!(enum_cells()));
        m.insert(
            "stat_budget".into(),
            serde_json::json!({
                "delta_total": stats::DELTA_TOTAL,
                "cells": mats * 6 + WIDE_CELLS,
                "trials_per_matrix": trials,
                "threshold_nKL": stats::threshold(mats * 6 + WIDE_CELLS),
                "resolution_at_p_0.25": stats::resolution(trials, 0.25, mats * 6),
            }),
        );
        m
    }

    fn assumptions(&self) -> Vec<String> {
        vec![
            "the reference law (all case orders equally likely, per-case best filtering, uniform choice among final survivors) is the statement's".into(),
            "configured case counts never exceed the results available (the property's quantifier); missing results are C06's subject".into(),
            "distributional clauses: Chernoff-KL rule, total false-alarm budget 1e-9 per invocation".into(),
        ]
    }

    fn real_components(&self) -> Vec<&'static str> {
        vec!["ec-core Lexicase, TestResults, Score/Error ordering", "rand 0.9.0 shuffle"]
    }

    fn stub_components(&self) -> Vec<&'static str> {
        vec!["exact-law enumerator", "FastRng / SimRng streams"]
    }
}

fn main() {
    main_for(C08);
}
