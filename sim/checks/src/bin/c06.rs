//! C06 — selectors return a member of the given population or a documented
//! error; never panic. Trees of real selectors (leaf selectors, Weighted,
//! WeightedPair, DynWeighted, erased flavours, &S) are built from a
//! serialisable AST and driven by seeded and boundary streams
//! (DESIGN §5 C06, engine E1).

use std::{fmt, num::NonZeroUsize};

use ec_core::{
    individual::ec::EcIndividual,
    operator::{
        selector::{
            best::Best,
            dyn_weighted::{DynWeighted, DynWeightedError},
            lexicase::{Lexicase, LexicaseError},
            random::Random,
            tournament::{Tournament, TournamentSizeError},
            worst::Worst,
            DynSelector, EmptyPopulation, Select, Selector,
        },
        Operator,
    },
    test_results::{Error as ErrR, Score, TestResults},
    weighted::{
        error::{SelectionError, WeightedPairError},
        weighted_pair::WeightedPair,
        with_weight::WithWeight,
        with_weighted_item::WithWeightedItem,
        Weighted,
    },
};
use rand::Rng;
use serde::{Deserialize, Serialize};
use simcore::{SimRng, catch, fnv1a, main_for, mix, Check, Obs, RngSpec, Tier, Violation, Xo};

// ---------------------------------------------------------------------------
// error classification

#[derive(Clone, Debug, PartialEq, Eq, PartialOrd, Ord)]
enum Kind {
    Empty,
    TournamentSize { k: usize, n: usize },
    MissingCase { total: usize, index: usize },
    ZeroWeight,
    ZeroWeightSum,
    Injected,
    Unknown(String),
}

#[derive(Debug, Clone)]
struct HErr(Kind);

impl fmt::Display for HErr {
    fn fmt(&self, f: &mut fmt::Formatter<'_>) -> fmt::Result {
        write!(f, "{:?}", self.0)
    }
}

impl std::error::Error for HErr {}

#[derive(Debug, Clone, Copy)]
struct Injected;

impl fmt::Display for Injected {
    fn fmt(&self, f: &mut fmt::Formatter<'_>) -> fmt::Result {
        f.write_str("injected selector failure")
    }
}

impl std::error::Error for Injected {}

impl From<Injected> for HErr {
    fn from(_: Injected) -> Self {
        HErr(Kind::Injected)
    }
}

impl From<EmptyPopulation> for HErr {
    fn from(_: EmptyPopulation) -> Self {
        HErr(Kind::Empty)
    }
}

/// `TournamentSizeError`'s fields are private: read them from its derived
/// `Debug` form (`TournamentSizeError { tournament_size: k, population_size: n }`),
/// which does not depend on the wording of the message.
fn tournament_kind(debug: &str) -> Kind {
    let field = |name: &str| -> Option<usize> {
        let rest = &debug[debug.find(name)? + name.len()..];
        let digits: String = rest.chars().skip_while(|c| !c.is_ascii_digit()).take_while(char::is_ascii_digit).collect();
        digits.parse().ok()
    };
    match (field("tournament_size"), field("population_size")) {
        (Some(k), Some(n)) => Kind::TournamentSize { k, n },
        _ => Kind::Unknown(debug.to_string()),
    }
}

impl From<TournamentSizeError> for HErr {
    fn from(e: TournamentSizeError) -> Self {
        HErr(tournament_kind(&format!("{e:?}")))
    }
}

impl From<LexicaseError> for HErr {
    fn from(e: LexicaseError) -> Self {
        match e {
            LexicaseError::EmptyPopulation(_) => HErr(Kind::Empty),
            LexicaseError::MissingTestCase { total_cases, current_index, .. } => {
                HErr(Kind::MissingCase { total: total_cases, index: current_index })
            }
            // (a maintainer may add variants / mark the enum non_exhaustive)
            #[allow(unreachable_patterns)]
            other => HErr(kind_from_debug(&format!("{other:?}"))),
        }
    }
}

impl From<SelectionError<HErr>> for HErr {
    fn from(e: SelectionError<HErr>) -> Self {
        match e {
            SelectionError::Selector(h) => h,
            SelectionError::ZeroWeight(_) => HErr(Kind::ZeroWeight),
            #[allow(unreachable_patterns)]
            _ => HErr(Kind::Unknown("unknown SelectionError variant".into())),
        }
    }
}

impl From<SelectionError<WeightedPairError<HErr, HErr>>> for HErr {
    fn from(e: SelectionError<WeightedPairError<HErr, HErr>>) -> Self {
        match e {
            SelectionError::Selector(WeightedPairError::A(h) | WeightedPairError::B(h)) => h,
            SelectionError::ZeroWeight(_) => HErr(Kind::ZeroWeight),
            #[allow(unreachable_patterns)]
            _ => HErr(Kind::Unknown("unknown SelectionError / WeightedPairError variant".into())),
        }
    }
}

impl From<DynWeightedError> for HErr {
    fn from(e: DynWeightedError) -> Self {
        match e {
            DynWeightedError::EmptyPopulation(_) => HErr(Kind::Empty),
            DynWeightedError::ZeroWeightSum(_) => HErr(Kind::ZeroWeightSum),
            DynWeightedError::Other(b) => match b.downcast::<HErr>() {
                Ok(h) => *h,
                Err(b) => HErr(Kind::Unknown(b.to_string())),
            },
            #[allow(unreachable_patterns)]
            _ => HErr(Kind::Unknown("unknown DynWeightedError variant".into())),
        }
    }
}

/// For statically typed chains the error type is deeply nested; its derived
/// `Debug` form names the leaf error type, independent of message wording.
fn kind_from_debug(s: &str) -> Kind {
    if s.contains("TournamentSizeError") {
        tournament_kind(s)
    } else if s.contains("EmptyPopulation") {
        Kind::Empty
    } else if s.contains("MissingTestCase") {
        Kind::Unknown(s.to_string())
    } else if s.contains("ZeroWeight") {
        Kind::ZeroWeight
    } else {
        Kind::Unknown(s.to_string())
    }
}

// ---------------------------------------------------------------------------
// scenario

#[derive(Serialize, Deserialize, Clone, Debug, PartialEq)]
enum Sel {
    Best,
    Worst,
    Random,
    Tournament(usize),
    Lexicase(usize),
    Failing,
    /// `Weighted<..>` around a member
    Weighted(Box<Sel>, u32),
    /// `WeightedPair<..>` of two weighted members (each `Weighted` or `Pair`)
    Pair(Box<Sel>, Box<Sel>),
    /// `DynWeighted` list
    Dyn(Vec<(Sel, usize)>),
    /// call the member through another route
    Via(Route, Box<Sel>),
}

#[derive(Serialize, Deserialize, Clone, Copy, Debug, PartialEq, Eq)]
enum Route {
    RefDyn,
    BoxDyn,
    ArcDyn,
    RefS,
    SelectOperator,
}

#[derive(Serialize, Deserialize, Clone, Copy, Debug, PartialEq, Eq)]
enum Polarity {
    Score,
    Error,
}

#[derive(Serialize, Deserialize, Clone, Debug)]
enum Sc {
    Tree {
        polarity: Polarity,
        /// per individual: its per-case results (ragged allowed)
        pop: Vec<Vec<i64>>,
        sel: Sel,
        rng: RngSpec,
    },
    /// statically typed chains built with the real `with_item_and_weight` API
    /// over a `Vec<i32>` population
    Chain { shape: u8, weights: [u32; 4], tsize: usize, pop: Vec<i32>, rng: RngSpec },
    /// fixed-size array population
    Array { sel: u8, tsize: usize, pop: [i32; 4], rng: RngSpec },
    /// a population of 2^32 + delta zero-sized individuals (cheap to build; more members than a 32-bit index can
    /// address): uniform random selection, bare and through a weighted chain / dynamic list / erased pointer
    Huge { delta: i64, log2: u32, rng: RngSpec },
}

type Ind<R> = EcIndividual<u32, TestResults<R>>;
type Pop<R> = Vec<Ind<R>>;

struct Failing;

impl<P: ec_core::population::Population> Selector<P> for Failing {
    type Error = Injected;

    fn select<'pop, R: Rng + ?Sized>(&self, _: &'pop P, rng: &mut R) -> Result<&'pop P::Individual, Injected> {
        let _ = rng.next_u32();
        Err(Injected)
    }
}

type DynSel<R> = std::sync::Arc<dyn DynSelector<Pop<R>, HErr> + Send + Sync>;

struct Node<R> {
    inner: DynSel<R>,
    weight: u32,
    route: Option<Route>,
}

impl<R> WithWeight for Node<R> {
    fn weight(&self) -> u32 {
        self.weight
    }
}

impl<R: Ord + Send + Sync + 'static> Selector<Pop<R>> for Node<R> {
    type Error = HErr;

    fn select<'pop, G: Rng + ?Sized>(&self, pop: &'pop Pop<R>, mut rng: &mut G) -> Result<&'pop Ind<R>, HErr> {
        match self.route {
            None => self.inner.dyn_select(pop, &mut rng),
            Some(Route::ArcDyn) => self.inner.select(pop, rng),
            Some(Route::RefDyn) => {
                let r: &(dyn DynSelector<Pop<R>, HErr> + Send + Sync) = &*self.inner;
                r.select(pop, rng)
            }
            Some(Route::BoxDyn) => {
                let b: Box<dyn DynSelector<Pop<R>, HErr> + Send + Sync> = Box::new(Fwd(self.inner.clone()));
                b.select(pop, rng)
            }
            Some(Route::RefS) => (&&self.inner).select(pop, rng),
            Some(Route::SelectOperator) => Select::new(&self.inner).apply(pop, rng),
        }
    }
}

/// Forwards to a borrowed erased selector (lets an `Arc<dyn ..>` be built on the fly).
struct Fwd<R>(DynSel<R>);

impl<R: Ord + Send + Sync + 'static> Selector<Pop<R>> for Fwd<R> {
    type Error = HErr;

    fn select<'pop, G: Rng + ?Sized>(&self, pop: &'pop Pop<R>, mut rng: &mut G) -> Result<&'pop Ind<R>, HErr> {
        self.0.dyn_select(pop, &mut rng)
    }
}

fn build<R: Ord + Send + Sync + 'static>(sel: &Sel) -> Node<R> {
    let plain = |inner: DynSel<R>| Node { inner, weight: 1, route: None };
    match sel {
        Sel::Best => plain(std::sync::Arc::new(Best)),
        Sel::Worst => plain(std::sync::Arc::new(Worst)),
        Sel::Random => plain(std::sync::Arc::new(Random)),
        Sel::Tournament(k) => plain(std::sync::Arc::new(Tournament::new(NonZeroUsize::new((*k).max(1)).unwrap_or(NonZeroUsize::MIN)))),
        Sel::Lexicase(c) => plain(std::sync::Arc::new(Lexicase::new(*c))),
        Sel::Failing => plain(std::sync::Arc::new(Failing)),
        Sel::Weighted(m, w) => Node { inner: std::sync::Arc::new(Weighted::new(build::<R>(m), *w)), weight: *w, route: None },
        Sel::Pair(a, b) => {
            let (na, nb) = (build::<R>(a), build::<R>(b));
            match WeightedPair::new(na, nb) {
                Ok(p) => {
                    let w = p.weight();
                    Node { inner: std::sync::Arc::new(p), weight: w, route: None }
                }
                // weights are kept small by the generator; an overflow here
                // would be C13's subject
                Err(_) => plain(std::sync::Arc::new(Failing)),
            }
        }
        Sel::Dyn(list) => {
            let mut it = list.iter();
            let Some((first, w0)) = it.next() else { return plain(std::sync::Arc::new(Failing)) };
            let use_it = USE_WHILE_BUILDING.with(std::cell::Cell::get);
            let nobody: Pop<R> = Vec::new();
            let mut d: DynWeighted<Pop<R>> = DynWeighted::new(build::<R>(first), *w0);
            for (m, w) in it {
                if use_it {
                    // (selecting from an empty population is enough to make the list consult its weights)
                    let _ = d.select(&nobody, &mut simcore::FastRng::new(*w as u64));
                }
                d = d.with_selector(build::<R>(m), *w);
            }
            plain(std::sync::Arc::new(d))
        }
        Sel::Via(route, m) => {
            let mut n = build::<R>(m);
            let w = n.weight;
            n.route = Some(*route);
            Node { inner: std::sync::Arc::new(n), weight: w, route: None }
        }
    }
}

/// Which error kinds can this configuration legitimately report?
/// (`may_fail_softly` = MissingTestCase may or may not strike.)
fn allowed(sel: &Sel, results_len: &[usize], out: &mut Vec<Kind>, soft: &mut bool) {
    let n = results_len.len();
    match sel {
        Sel::Best | Sel::Worst | Sel::Random => {
            if n == 0 {
                out.push(Kind::Empty);
            }
        }
        Sel::Tournament(k) => {
            let k = (*k).max(1);
            if n < k {
                out.push(Kind::TournamentSize { k, n });
            }
        }
        Sel::Lexicase(c) => {
            if n == 0 {
                out.push(Kind::Empty);
            } else {
                // (with a single individual the current implementation returns it without looking
                // at its results; reporting the missing result would be just as documented)
                let min = results_len.iter().copied().min().unwrap_or(0);
                if min < *c {
                    *soft = true;
                    for index in min..*c {
                        out.push(Kind::MissingCase { total: *c, index });
                    }
                }
            }
        }
        Sel::Failing => out.push(Kind::Injected),
        Sel::Weighted(m, w) => {
            if *w == 0 {
                out.push(Kind::ZeroWeight);
            } else {
                allowed(m, results_len, out, soft);
            }
        }
        Sel::Pair(a, b) => {
            let (wa, wb) = (weight_of(a), weight_of(b));
            if wa == 0 && wb == 0 {
                out.push(Kind::ZeroWeight);
            } else {
                if wa > 0 {
                    allowed(a, results_len, out, soft);
                }
                if wb > 0 {
                    allowed(b, results_len, out, soft);
                }
            }
        }
        Sel::Dyn(list) => {
            if list.iter().all(|(_, w)| *w == 0) {
                out.push(Kind::ZeroWeightSum);
            } else {
                if list.iter().try_fold(0usize, |acc, (_, w)| acc.checked_add(*w)).is_none() {
                    // the usize total does not exist: reporting the zero-total-weight error variant (it
                    // carries the weight error) is accepted, selecting by the weights is accepted too;
                    // a panic is not
                    out.push(Kind::ZeroWeightSum);
                }
                for (m, w) in list {
                    if *w > 0 {
                        allowed(m, results_len, out, soft);
                    }
                }
            }
        }
        Sel::Via(_, m) => allowed(m, results_len, out, soft),
    }
}

fn weight_of(sel: &Sel) -> u64 {
    match sel {
        Sel::Weighted(_, w) => u64::from(*w),
        Sel::Pair(a, b) => weight_of(a) + weight_of(b),
        Sel::Via(_, m) => weight_of(m),
        _ => 1,
    }
}

fn make_pop<R: From<i64> + Clone + for<'a> std::iter::Sum<&'a R>>(rows: &[Vec<i64>]) -> Pop<R> {
    rows.iter()
        .enumerate()
        .map(|(i, row)| {
            let results: Vec<R> = row.iter().map(|v| R::from(*v)).collect();
            let total_result: R = results.iter().sum();
            EcIndividual::new(i as u32, TestResults { results, total_result })
        })
        .collect()
}

/// Uniform random selection from 2^log2 + delta zero-sized individuals must return a member (never panic, never
/// report an empty population), bare and through Weighted / DynWeighted / an erased pointer.
fn run_huge(delta: i64, log2: u32, spec: &RngSpec, obs: &mut Obs) -> Vec<Violation> {
    let mut v = Vec::new();
    let Some(n) = (1usize << log2).checked_add_signed(delta as isize) else { return v };
    let pop: Vec<()> = vec![(); n];
    obs.hit("probe.population-of-2^32-zero-sized-individuals");
    let mut rng = spec.build();
    let mut report = |what: &str, r: Result<Result<(), String>, simcore::Panicked>| match r {
        Ok(Ok(())) => {}
        Ok(Err(e)) => v.push(Violation::new(
            "returns-member-of-population",
            format!("error-on-huge-population:{what}"),
            format!("{what} on a population of {n} (zero-sized) individuals reported `{e}`"),
        )),
        Err(p) => v.push(Violation::new(
            "never-panics",
            format!("panic:{what}:huge-population"),
            format!("{what} on a population of {n} (zero-sized) individuals panicked: {}", p.message),
        )),
    };
    let r = catch(|| Random.select(&pop, &mut rng).map(|_| ()).map_err(|e| format!("{e:?}")));
    report("Random", r);
    let r = catch(|| {
        let w = Weighted::new(Random, 3).with_item_and_weight(Random, 1).map_err(|e| format!("{e:?}"))?;
        w.select(&pop, &mut rng).map(|_| ()).map_err(|e| format!("{e:?}"))
    });
    report("Weighted(Random,Random)", r);
    let r = catch(|| {
        let d: DynWeighted<Vec<()>> = DynWeighted::new(Random, 1).with_selector(Random, 2);
        d.select(&pop, &mut rng).map(|_| ()).map_err(|e| format!("{e:?}"))
    });
    report("DynWeighted(Random,Random)", r);
    let r = catch(|| {
        let b: Box<dyn DynSelector<Vec<()>> + Send + Sync> = Box::new(Random);
        b.select(&pop, &mut rng).map(|_| ()).map_err(|e| format!("{e:?}"))
    });
    report("Box<dyn DynSelector>(Random)", r);
    // (tournaments are NOT run on such populations: an implementation that keeps one index per member is as lawful
    // as the present one and legitimately runs out of memory here — `benign/c07b3/OUT/patch3.diff` does; DESIGN §17.17)
    obs.count("draws", rng.draws());
    obs.nontrivial(mix(mix(0x4a6e, delta as u64), u64::from(log2)));
    v
}

thread_local! {
    /// fault: the user's comparison panics (armed only during an earlier, caught call on the same selector value)
    static ARMED: std::cell::Cell<bool> = const { std::cell::Cell::new(false) };
    /// legal variation: a `DynWeighted` list is selected from between its builder calls
    static USE_WHILE_BUILDING: std::cell::Cell<bool> = const { std::cell::Cell::new(false) };
}

/// A user-defined result type whose comparison can be made to panic (a score wrapper that `expect`s on NaN is
/// the everyday case). Larger is better.
#[derive(Clone, Debug)]
struct Touchy(i64);

impl From<i64> for Touchy {
    fn from(v: i64) -> Self {
        Self(v)
    }
}

impl<'a> std::iter::Sum<&'a Touchy> for Touchy {
    fn sum<I: Iterator<Item = &'a Touchy>>(iter: I) -> Self {
        Self(iter.map(|t| t.0).fold(0i64, i64::wrapping_add))
    }
}

impl PartialEq for Touchy {
    fn eq(&self, other: &Self) -> bool {
        self.cmp(other) == std::cmp::Ordering::Equal
    }
}

impl Eq for Touchy {}

impl PartialOrd for Touchy {
    fn partial_cmp(&self, other: &Self) -> Option<std::cmp::Ordering> {
        Some(self.cmp(other))
    }
}

impl Ord for Touchy {
    fn cmp(&self, other: &Self) -> std::cmp::Ordering {
        assert!(!ARMED.with(std::cell::Cell::get), "user comparison failed (injected)");
        self.0.cmp(&other.0)
    }
}

fn run_tree<R>(rows: &[Vec<i64>], sel: &Sel, spec: &RngSpec, obs: &mut Obs) -> Vec<Violation>
where
    R: Ord + Send + Sync + 'static + From<i64> + Clone + for<'a> std::iter::Sum<&'a R>,
{
    let pop: Pop<R> = make_pop(rows);
    let lens: Vec<usize> = rows.iter().map(Vec::len).collect();
    let mut expected = Vec::new();
    let mut soft = false;
    allowed(sel, &lens, &mut expected, &mut soft);
    if lens.is_empty() && !expected.contains(&Kind::Empty) {
        // whatever the combination: for an empty population "empty population" is a documented error (a
        // combinator may notice the empty population itself before consulting any member)
        expected.push(Kind::Empty);
    }
    let mut rng = spec.build();
    // in a third of the runs the selector VALUE is used once before the checked call, on a different
    // population (other size, two more cases per individual): a selector must not carry anything over
    let warm = spec.seed % 3 == 0;
    let warm_rows: Vec<Vec<i64>> = rows
        .iter()
        .skip(rows.len() / 2)
        .chain(rows.iter().take(1))
        .map(|r| r.iter().copied().chain([1, 0]).collect())
        .collect();
    if warm {
        obs.hit("probe.selector-value-used-before-the-checked-call");
    }
    // fault: an EARLIER call on the same selector value panicked in user code (the comparison of a user-defined
    // result type) and the caller caught the panic; the checked call itself is perfectly ordinary
    let faulty_warm = spec.seed % 7 == 3;
    let use_while_building = spec.seed % 5 == 2;
    let mut user_panics = 0u64;
    let r = catch(|| {
        USE_WHILE_BUILDING.with(|c| c.set(use_while_building));
        let node = build::<R>(sel);
        USE_WHILE_BUILDING.with(|c| c.set(false));
        if faulty_warm {
            let wp: Pop<R> = make_pop(&warm_rows);
            let mut wr = SimRng::seeded(spec.seed ^ 0x1357_9bdf);
            ARMED.with(|c| c.set(true));
            let caught = catch(|| node.select(&wp, &mut wr).is_ok());
            ARMED.with(|c| c.set(false));
            if caught.is_err() {
                user_panics += 1;
            }
        }
        if warm {
            let wp: Pop<R> = make_pop(&warm_rows);
            let mut wr = SimRng::seeded(spec.seed ^ 0x77a2_11f0);
            let _ = node.select(&wp, &mut wr);
        }
        node.select(&pop, &mut rng).map(|r| pop.iter().position(|x| std::ptr::eq(x, r)))
    });
    ARMED.with(|c| c.set(false));
    USE_WHILE_BUILDING.with(|c| c.set(false));
    obs.count("draws", rng.draws());
    obs.count("fault.adversarial-stream-words", rng.boundary_fired());
    obs.count("fault.user-comparison-panicked-in-an-earlier-call", user_panics);
    let mut v = Vec::new();
    let cfg = || format!("population of {} (result lengths {lens:?}), selector {sel:?}", pop.len());
    match r {
        Err(p) => v.push(Violation::new(
            "never-panics",
            format!("panic:{}", p.site),
            format!("{}: selection panicked: {}", cfg(), p.message),
        )),
        Ok(Ok(Some(_))) => {
            if !expected.is_empty() && !soft {
                // some branch must fail, but whether the failing branch is
                // taken depends on the stream; only flag when *every* path fails
                if must_fail(sel, &lens) {
                    v.push(Violation::new(
                        "documented-error",
                        "missing-error".to_string(),
                        format!("{}: returned a member although every reachable member must report an error", cfg()),
                    ));
                }
            }
        }
        Ok(Ok(None)) => v.push(Violation::new(
            "returns-member-of-population",
            "non-member".to_string(),
            format!("{}: the returned reference is not an element of the population", cfg()),
        )),
        Ok(Err(HErr(kind))) => {
            match &kind {
                Kind::Empty => obs.hit("fault.empty-population"),
                Kind::TournamentSize { .. } => obs.hit("fault.tournament-larger-than-population"),
                Kind::MissingCase { .. } => obs.hit("fault.missing-test-case"),
                Kind::ZeroWeight | Kind::ZeroWeightSum => obs.hit("fault.zero-total-weight"),
                Kind::Injected => obs.hit("fault.component-fail"),
                Kind::Unknown(_) => {}
            }
            if !expected.contains(&kind) {
                v.push(Violation::new(
                    "documented-error",
                    format!("unexpected-error:{}", kind_name(&kind)),
                    format!("{}: reported {kind:?}; errors this configuration can legitimately report: {expected:?}", cfg()),
                ));
            }
        }
    }
    // a LONG SESSION on one selector value (1 scenario in ~4000): 3000 further selections from the same
    // population; every single one must be a member or an allowed error (cumulative effects, leaked counters)
    if v.is_empty() && spec.seed % 4001 == 7 && pop.len() <= 64 {
        obs.hit("probe.long-session-on-one-selector-value");
        let bad = catch(|| {
            let node = build::<R>(sel);
            for i in 0..3000u32 {
                match node.select(&pop, &mut rng) {
                    Ok(r) => {
                        if !pop.iter().any(|x| std::ptr::eq(x, r)) {
                            return Some(format!("selection #{i} returned a reference that is not an element of the population"));
                        }
                    }
                    Err(HErr(kind)) => {
                        if !expected.contains(&kind) {
                            return Some(format!("selection #{i} reported {kind:?}; allowed: {expected:?}"));
                        }
                    }
                }
            }
            None
        });
        match bad {
            Ok(None) => {}
            Ok(Some(msg)) => v.push(Violation::new(
                "returns-member-of-population",
                "long-session".to_string(),
                format!("{}: in a session of 3000 selections on one selector value, {msg}", cfg()),
            )),
            Err(p) => v.push(Violation::new(
                "never-panics",
                format!("panic:long-session:{}", p.site),
                format!("{}: in a session of 3000 selections on one selector value: panicked: {}", cfg(), p.message),
            )),
        }
    }
    if pop.len() >= 2 {
        let mut fp = fnv1a(format!("{sel:?}").as_bytes());
        for r in rows {
            for x in r {
                fp = mix(fp, *x as u64);
            }
            fp = mix(fp, 0xFF);
        }
        obs.nontrivial(fp);
    }
    v
}

fn kind_name(k: &Kind) -> &'static str {
    match k {
        Kind::Empty => "Empty",
        Kind::TournamentSize { .. } => "TournamentSize",
        Kind::MissingCase { .. } => "MissingCase",
        Kind::ZeroWeight => "ZeroWeight",
        Kind::ZeroWeightSum => "ZeroWeightSum",
        Kind::Injected => "Injected",
        Kind::Unknown(_) => "Unknown",
    }
}

/// true iff every member reachable with positive weight fails for sure
fn must_fail(sel: &Sel, lens: &[usize]) -> bool {
    let n = lens.len();
    match sel {
        Sel::Best | Sel::Worst | Sel::Random => n == 0,
        Sel::Tournament(k) => n < (*k).max(1),
        Sel::Lexicase(_) => n == 0,
        Sel::Failing => true,
        Sel::Weighted(m, w) => *w == 0 || must_fail(m, lens),
        Sel::Pair(a, b) => {
            let (wa, wb) = (weight_of(a), weight_of(b));
            (wa == 0 && wb == 0) || ((wa == 0 || must_fail(a, lens)) && (wb == 0 || must_fail(b, lens)))
        }
        Sel::Dyn(list) => list.iter().all(|(m, w)| *w == 0 || must_fail(m, lens)),
        Sel::Via(_, m) => must_fail(m, lens),
    }
}

// ---------------------------------------------------------------------------
// static chains and arrays

fn check_simple<'a, T: 'a, E: fmt::Debug>(
    what: &str,
    pop: &'a [T],
    r: Result<Result<&'a T, E>, simcore::Panicked>,
    expected: &[Kind],
    must_fail: bool,
) -> Vec<Violation> {
    let mut v = Vec::new();
    match r {
        Err(p) => v.push(Violation::new("never-panics", format!("panic:{}", p.site), format!("{what}: panicked: {}", p.message))),
        Ok(Ok(x)) => {
            if !pop.iter().any(|y| std::ptr::eq(x, y)) {
                v.push(Violation::new(
                    "returns-member-of-population",
                    "non-member".to_string(),
                    format!("{what}: the returned reference is not an element of the population"),
                ));
            }
            if must_fail {
                v.push(Violation::new(
                    "documented-error",
                    "missing-error".to_string(),
                    format!("{what}: returned a member although an error was due ({expected:?})"),
                ));
            }
        }
        Ok(Err(e)) => {
            let k = kind_from_debug(&format!("{e:?}"));
            if !expected.contains(&k) {
                v.push(Violation::new(
                    "documented-error",
                    format!("unexpected-error:{}", kind_name(&k)),
                    format!("{what}: reported `{e:?}` ({k:?}); legitimately reportable: {expected:?}"),
                ));
            }
        }
    }
    v
}

fn run_chain(shape: u8, w: [u32; 4], tsize: usize, pop: &Vec<i32>, spec: &RngSpec, obs: &mut Obs) -> Vec<Violation> {
    let n = pop.len();
    let k = tsize.max(1);
    let t = || Tournament::new(NonZeroUsize::new(k).unwrap_or(NonZeroUsize::MIN));
    let mut rng = spec.build();
    // leaf kinds per shape: B=Best W=Worst R=Random T=Tournament
    // the member list (leaf, weight) drives the expectation
    let leaves: Vec<(char, u32)> = match shape % 6 {
        0 => vec![('B', w[0]), ('W', w[1])],
        1 => vec![('B', w[0]), ('W', w[1]), ('R', w[2])],
        2 => vec![('B', w[0]), ('W', w[1]), ('R', w[2]), ('T', w[3])],
        3 => vec![('T', w[0]), ('R', w[1])],
        4 => vec![('B', w[0]), ('T', w[1]), ('W', w[2])],
        _ => vec![('T', w[0])],
    };
    let mut expected = Vec::new();
    let total: u64 = leaves.iter().map(|(_, x)| u64::from(*x)).sum();
    let mut all_fail = true;
    if total == 0 {
        expected.push(Kind::ZeroWeight);
    } else {
        for (l, x) in &leaves {
            if *x == 0 {
                continue;
            }
            match l {
                'T' => {
                    if n < k {
                        expected.push(Kind::TournamentSize { k, n });
                    } else {
                        all_fail = false;
                    }
                }
                _ => {
                    if n == 0 {
                        expected.push(Kind::Empty);
                    } else {
                        all_fail = false;
                    }
                }
            }
        }
    }
    let must_fail = total == 0 || all_fail;
    let what = format!("static chain shape {} weights {:?} tournament {k} on Vec<i32> of {n}", shape % 6, &w[..leaves.len()]);
    macro_rules! go {
        ($sel:expr) => {{
            let r = catch(|| match $sel {
                Ok(s) => s.select(pop, &mut rng).map_err(|e| format!("{e:?}")),
                Err(e) => Err(format!("build failed: {e:?}")),
            });
            check_simple(&what, pop, r, &expected, must_fail)
        }};
    }
    let v = match shape % 6 {
        0 => go!(Weighted::new(Best, w[0]).with_item_and_weight(Worst, w[1])),
        1 => go!(Weighted::new(Best, w[0]).with_item_and_weight(Worst, w[1]).with_item_and_weight(Random, w[2])),
        2 => go!(Weighted::new(Best, w[0])
            .with_item_and_weight(Worst, w[1])
            .with_item_and_weight(Random, w[2])
            .with_item_and_weight(t(), w[3])),
        3 => go!(WeightedPair::new(Weighted::new(t(), w[0]), Weighted::new(Random, w[1]))),
        4 => go!(WeightedPair::new(
            Weighted::new(Best, w[0]),
            WeightedPair::new(Weighted::new(t(), w[1]), Weighted::new(Worst, w[2])).expect("small weights")
        )),
        _ => {
            let r = catch(|| Weighted::new(t(), w[0]).select(pop, &mut rng).map_err(|e| format!("{e:?}")));
            check_simple(&what, pop, r, &expected, must_fail)
        }
    };
    obs.count("draws", rng.draws());
    if n >= 2 {
        obs.nontrivial(mix(mix(fnv1a(format!("{w:?}{pop:?}").as_bytes()), u64::from(shape % 6)), k as u64));
    }
    v
}

fn run_array(sel: u8, tsize: usize, pop: &[i32; 4], spec: &RngSpec, obs: &mut Obs) -> Vec<Violation> {
    let mut rng = spec.build();
    let k = tsize.max(1);
    let what = format!("selector #{} (tournament {k}) on [i32; 4]", sel % 4);
    let (expected, must_fail) =
        if sel % 4 == 3 && k > 4 { (vec![Kind::TournamentSize { k, n: 4 }], true) } else { (vec![], false) };
    let v = match sel % 4 {
        0 => check_simple(&what, pop, catch(|| Best.select(pop, &mut rng)), &expected, must_fail),
        1 => check_simple(&what, pop, catch(|| Worst.select(pop, &mut rng)), &expected, must_fail),
        2 => check_simple(&what, pop, catch(|| Random.select(pop, &mut rng)), &expected, must_fail),
        _ => check_simple(
            &what,
            pop,
            catch(|| Tournament::new(NonZeroUsize::new(k).unwrap_or(NonZeroUsize::MIN)).select(pop, &mut rng)),
            &expected,
            must_fail,
        ),
    };
    obs.count("draws", rng.draws());
    obs.nontrivial(mix(fnv1a(format!("{pop:?}").as_bytes()), u64::from(sel % 4) * 16 + k as u64));
    v
}

// ---------------------------------------------------------------------------

fn gen_weighted_member(g: &mut Xo, depth: usize, n: usize, cases: usize) -> Sel {
    // a member that carries a weight: Weighted(..) or Pair(..)
    if depth > 0 && g.chance(1, 3) {
        Sel::Pair(Box::new(gen_weighted_member(g, depth - 1, n, cases)), Box::new(gen_weighted_member(g, depth - 1, n, cases)))
    } else {
        let w = match g.below(5) {
            0 | 1 => 0,
            _ => g.range(1, 5) as u32,
        };
        Sel::Weighted(Box::new(gen_sel(g, depth.saturating_sub(1), n, cases)), w)
    }
}

fn gen_sel(g: &mut Xo, depth: usize, n: usize, cases: usize) -> Sel {
    let leaf = |g: &mut Xo| match g.below(12) {
        0 | 1 => Sel::Best,
        2 | 3 => Sel::Worst,
        4 | 5 => Sel::Random,
        6..=8 => {
            // sizes around the population size: n-1, n, n+1 and 1..=10
            let k = match g.below(9) {
                0 | 1 => n.saturating_sub(1).max(1),
                2 | 3 => n.max(1),
                4 | 5 => n + 1,
                6 => g.urange(1, 10),
                7 => g.log_uniform(1, n.max(1) * 2),
                // absurdly large tournaments must still be the documented error
                _ => *g.pick(&[usize::MAX, usize::MAX / 8 + 1, 1usize << 40, u32::MAX as usize + 1]),
            };
            Sel::Tournament(k)
        }
        9 | 10 => {
            let c = match g.below(4) {
                0 => cases,
                1 => cases + 1,
                2 => cases.saturating_sub(1),
                _ => g.urange(0, 6),
            };
            Sel::Lexicase(c)
        }
        _ => Sel::Failing,
    };
    if depth == 0 {
        return leaf(g);
    }
    match g.below(10) {
        0..=3 => leaf(g),
        4 => gen_weighted_member(g, depth, n, cases),
        5 | 6 => Sel::Pair(
            Box::new(gen_weighted_member(g, depth - 1, n, cases)),
            Box::new(gen_weighted_member(g, depth - 1, n, cases)),
        ),
        7 => {
            let m = g.urange(1, 5);
            Sel::Dyn(
                (0..m)
                    .map(|_| {
                        let w = match g.below(6) {
                            0 | 1 => 0,
                            // large usize weights (sometimes with a total beyond usize::MAX): a weight that
                            // is a multiple of 2^32 must not be mistaken for zero
                            2 if g.chance(1, 5) => *g.pick(&[usize::MAX, usize::MAX - 1, usize::MAX / 2 + 1, usize::MAX / 2]),
                            2 => *g.pick(&[1usize << 32, 3usize << 32, 1usize << 40, (1usize << 32) + 1, u32::MAX as usize + 1]),
                            _ => g.urange(1, 5),
                        };
                        (gen_sel(g, depth - 1, n, cases), w)
                    })
                    .collect(),
            )
        }
        _ => Sel::Via(
            *g.pick(&[Route::RefDyn, Route::BoxDyn, Route::ArcDyn, Route::RefS, Route::SelectOperator]),
            Box::new(gen_sel(g, depth - 1, n, cases)),
        ),
    }
}

struct C06;

impl Check for C06 {
    type Scenario = Sc;

    fn id(&self) -> &'static str {
        "C06"
    }

    fn declared_probes(&self) -> Vec<&'static str> {
        vec![
            "fault.adversarial-stream-words",
            "fault.component-fail",
            "fault.empty-population",
            "fault.missing-test-case",
            "fault.tournament-larger-than-population",
            "fault.zero-total-weight",
            "probe.population-of-2^32-zero-sized-individuals",
            "probe.selector-value-used-before-the-checked-call",
            "fault.user-comparison-panicked-in-an-earlier-call",
        ]
    }

    fn rule(&self) -> String {
        "seeded single selections: (a) trees (depth <= 3) of the real Best/Worst/Random/Tournament/Lexicase, a failing probe selector, \
         Weighted, WeightedPair, DynWeighted, &S, Select and &dyn/Box/Arc erased routes over populations of 0-8 EcIndividuals with ragged, \
         tie-heavy result vectors (scores and errors); (b) 6 statically typed chains built with with_item_and_weight / WeightedPair::new over \
         Vec<i32>; (c) array populations. Tournament sizes n-1, n, n+1, 1..10; lexicase case counts around the available results; weights \
         0..5 incl. all-zero; seeded and boundary streams. Oracle: Ok => pointer-identical member; Err => an error this configuration can \
         legitimately report; panic => violation. Non-trivial iff the population has >= 2 members; distinct = (selector, population) fingerprints"
            .into()
    }

    fn runs(&self, tier: Tier) -> u64 {
        match tier {
            Tier::Quick => 4_000_000,
            Tier::Thorough => 400_000_000,
        }
    }

    fn generate(&self, g: &mut Xo, _tier: Tier, run: u64) -> Sc {
        let rng = RngSpec::swarm(g);
        if run % 100_000 == 4321 {
            // populations beyond 16 bits (65 536 .. 140 000 individuals with 0..=3 results each)
            let n = match g.below(4) {
                0 => 65_536,
                1 => 70_000,
                _ => g.log_uniform(65_536, 140_000),
            };
            let cases = g.urange(0, 3);
            let ragged = g.chance(1, 4);
            let pop = (0..n)
                .map(|i| {
                    let c = if ragged && i % 1000 == 999 { g.urange(0, cases) } else { cases };
                    (0..c).map(|_| g.range(0, 2) as i64).collect()
                })
                .collect();
            let leaf = match g.below(6) {
                0 => Sel::Lexicase(cases),
                1 | 2 => Sel::Lexicase(cases + g.urange(1, 2)),
                3 => Sel::Tournament(*g.pick(&[1usize, 2, 7, n, n + 1])),
                4 => Sel::Random,
                _ => Sel::Best,
            };
            let sel = match g.below(4) {
                0 => Sel::Dyn(vec![(leaf, g.urange(1, 3)), (Sel::Failing, 0)]),
                1 => Sel::Via(Route::BoxDyn, Box::new(leaf)),
                _ => leaf,
            };
            return Sc::Tree { polarity: if g.coin() { Polarity::Score } else { Polarity::Error }, pop, sel, rng };
        }
        match g.below(10) {
            0 | 1 => {
                let n = if g.chance(1, 30) { g.log_uniform(7, 1000) } else { g.urange(0, 6) };
                Sc::Chain {
                    shape: g.below(6) as u8,
                    weights: [
                        g.below(4) as u32,
                        g.below(4) as u32,
                        g.below(3) as u32,
                        g.below(3) as u32,
                    ],
                    tsize: if n > 6 && g.coin() { g.log_uniform(1, n + 1) } else { g.urange(1, 7) },
                    pop: (0..n).map(|_| g.range(0, 3) as i32).collect(),
                    rng,
                }
            }
            2 if g.chance(1, 400) => Sc::Huge { delta: *g.pick(&[-1i64, 0, 0, 1, 12345, 1 << 30, (1 << 30) + 7]), log2: *g.pick(&[31u32, 32, 32, 33]), rng },
            2 => Sc::Array {
                sel: g.below(4) as u8,
                tsize: g.urange(1, 6),
                pop: [g.below(3) as i32, g.below(3) as i32, g.below(3) as i32, g.below(3) as i32],
                rng,
            },
            _ => {
                let n = match g.below(6) {
                    0 => 0,
                    1 => 1,
                    // larger populations / more cases: size-dependent paths of the selectors (rare: cost)
                    2 if g.chance(1, 20) => g.log_uniform(9, 2000),
                    _ => g.urange(0, 8),
                };
                // every fourth tree scenario sweeps the population sizes 0..=130 densely (by run index)
                let n = if run % 4 == 1 { ((run / 4) % 131) as usize } else { n };
                let cases = if n > 8 && g.coin() { g.log_uniform(1, 40) } else { g.urange(0, 4) };
                let ragged = g.chance(1, 4);
                let pop = (0..n)
                    .map(|_| {
                        let c = if ragged { g.urange(0, cases + 1) } else { cases };
                        (0..c).map(|_| g.range(0, 2) as i64).collect()
                    })
                    .collect();
                let depth = g.urange(0, 3);
                Sc::Tree {
                    polarity: if g.coin() { Polarity::Score } else { Polarity::Error },
                    pop,
                    sel: gen_sel(g, depth, n, cases),
                    rng,
                }
            }
        }
    }

    fn execute(&self, sc: &Sc, obs: &mut Obs) -> Vec<Violation> {
        match sc {
            Sc::Tree { polarity, pop, sel, rng } => match polarity {
                Polarity::Score if rng.seed % 7 == 3 => run_tree::<Touchy>(pop, sel, rng, obs),
                Polarity::Score => run_tree::<Score<i64>>(pop, sel, rng, obs),
                Polarity::Error => run_tree::<ErrR<i64>>(pop, sel, rng, obs),
            },
            Sc::Chain { shape, weights, tsize, pop, rng } => run_chain(*shape, *weights, *tsize, pop, rng, obs),
            Sc::Array { sel, tsize, pop, rng } => run_array(*sel, *tsize, pop, rng, obs),
            Sc::Huge { delta, log2, rng } => run_huge(*delta, *log2, rng, obs),
        }
    }

    fn shrink(&self, sc: &Sc) -> Vec<Sc> {
        let mut out = Vec::new();
        if let Sc::Tree { polarity, pop, sel, rng } = sc {
            for p in simcore::drop_chunks(pop) {
                out.push(Sc::Tree { polarity: *polarity, pop: p, sel: sel.clone(), rng: rng.clone() });
            }
            // replace the selector by one of its children
            let kids: Vec<Sel> = match sel {
                Sel::Weighted(m, _) | Sel::Via(_, m) => vec![(**m).clone()],
                Sel::Pair(a, b) => vec![(**a).clone(), (**b).clone()],
                Sel::Dyn(l) => l.iter().map(|(m, _)| m.clone()).collect(),
                _ => vec![],
            };
            for k in kids {
                out.push(Sc::Tree { polarity: *polarity, pop: pop.clone(), sel: k, rng: rng.clone() });
            }
            if rng.q16 != 0 {
                out.push(Sc::Tree { polarity: *polarity, pop: pop.clone(), sel: sel.clone(), rng: RngSpec::seeded(rng.seed) });
            }
            for s in 0..3u64 {
                if rng.seed != s {
                    out.push(Sc::Tree {
                        polarity: *polarity,
                        pop: pop.clone(),
                        sel: sel.clone(),
                        rng: RngSpec { seed: s, ..rng.clone() },
                    });
                }
            }
        }
        out
    }

    fn assumptions(&self) -> Vec<String> {
        vec![
            "an Err is accepted iff some member reachable with positive weight can legitimately report it for this population (which member is chosen depends on the stream); Ok is rejected only when every reachable member must fail".into(),
            "MissingTestCase may or may not strike when some individual has fewer results than the configured case count (depends on the filtering order)".into(),
            "DynWeighted lists whose usize weight total overflows may select by the weights or report the zero-total-weight error variant (carrying the weight error); they may not panic".into(),
        ]
    }

    fn real_components(&self) -> Vec<&'static str> {
        vec!["ec-core selectors (best, worst, random, tournament, lexicase, dyn_weighted, erased flavours, Select, &S)", "ec-core weighted (Weighted, WeightedPair, WithWeightedItem)", "rand 0.9.0 (choose, choose_multiple, shuffle, Bernoulli, choose_weighted)"]
    }

    fn stub_components(&self) -> Vec<&'static str> {
        vec!["SimRng stream", "failing probe selector", "Node adapter that lets WeightedPair / DynWeighted hold dynamically built members"]
    }
}

fn main() {
    main_for(C06);
}
