//! C07 — best, worst and tournament selection apply the intended selection
//! pressure. Exact invariants per run (any stream) + a seeded statistical
//! decision against the exact law (DESIGN §5 C07, §3.7).

use std::{cell::RefCell, cmp::Ordering, num::NonZeroUsize};

use ec_core::operator::selector::{best::Best, tournament::Tournament, worst::Worst, Selector};
use serde::{Deserialize, Serialize};
use simcore::{catch, fnv1a, main_for, mix, stats, Check, FastRng, Obs, RngSpec, Tier, Violation, Xo};

thread_local! {
    static CMP_LOG: RefCell<Vec<u32>> = const { RefCell::new(Vec::new()) };
}

/// Individual whose ordering logs which members it was asked to compare.
#[derive(Debug, Clone)]
struct L {
    id: u32,
    val: i32,
}

impl PartialEq for L {
    fn eq(&self, o: &Self) -> bool {
        self.val == o.val
    }
}
impl Eq for L {}
impl PartialOrd for L {
    fn partial_cmp(&self, o: &Self) -> Option<Ordering> {
        Some(self.cmp(o))
    }
}
impl Ord for L {
    fn cmp(&self, o: &Self) -> Ordering {
        CMP_LOG.with(|l| {
            let mut l = l.borrow_mut();
            l.push(self.id);
            l.push(o.id);
        });
        self.val.cmp(&o.val)
    }
}

#[derive(Serialize, Deserialize, Clone, Copy, Debug, PartialEq, Eq)]
enum Which {
    Best,
    Worst,
    Tournament(usize),
}

#[derive(Serialize, Deserialize, Clone, Debug)]
enum Sc {
    One { vals: Vec<i32>, which: Which, rng: RngSpec },
    /// EcIndividual<genome, Score> populations (genomes may repeat)
    Scored { inds: Vec<(u8, i64)>, which: Which, rng: RngSpec },
    /// N seeded tournaments of size k over n distinct values
    Dist { n: usize, k: usize, trials: u64, seed: u64, cells_total: u64 },
}

fn pop_of(vals: &[i32]) -> Vec<L> {
    vals.iter().enumerate().map(|(i, v)| L { id: i as u32, val: *v }).collect()
}

/// A tournament of size k, through every public constructor that can express k (they must all mean the same).
fn tournament(k: usize) -> Tournament {
    tournament_via(k, 0)
}

fn tournament_via(k: usize, ctor: u64) -> Tournament {
    match (k, ctor % 3) {
        (2, 1) => Tournament::binary(),
        (1, 2) => Tournament::of_size::<1>(),
        (2, 2) => Tournament::of_size::<2>(),
        (3, 2) => Tournament::of_size::<3>(),
        (4, 2) => Tournament::of_size::<4>(),
        (7, 2) => Tournament::of_size::<7>(),
        _ => Tournament::new(NonZeroUsize::new(k.max(1)).unwrap_or(NonZeroUsize::MIN)),
    }
}

fn exec_one(vals: &[i32], which: Which, spec: &RngSpec, obs: &mut Obs) -> Vec<Violation> {
    let pop = pop_of(vals);
    let n = pop.len();
    let mut rng = spec.build();
    CMP_LOG.with(|l| l.borrow_mut().clear());
    // in a third of the runs the tournament VALUE selects once from another population (reversed values, one
    // member more) before the checked call: a selector must not carry anything over between calls
    let warm = spec.seed % 3 == 0;
    let warm_vals: Vec<i32> = vals.iter().rev().copied().chain([0]).collect();
    let warm_pop = pop_of(&warm_vals);
    let r = catch(|| match which {
        Which::Best => Best.select(&pop, &mut rng).ok().map(|x| x.id),
        Which::Worst => Worst.select(&pop, &mut rng).ok().map(|x| x.id),
        Which::Tournament(k) => {
            let t = tournament_via(k, spec.seed >> 7);
            if warm {
                let mut wr = simcore::SimRng::seeded(spec.seed ^ 0x51ab);
                let _ = t.select(&warm_pop, &mut wr);
                CMP_LOG.with(|l| l.borrow_mut().clear());
            }
            t.select(&pop, &mut rng).ok().map(|x| x.id)
        }
    });
    obs.count("draws", rng.draws());
    obs.count("fault.adversarial-stream-words", rng.boundary_fired());
    let mut v = Vec::new();
    let site = match which {
        Which::Best => "Best".to_string(),
        Which::Worst => "Worst".to_string(),
        Which::Tournament(_) => "Tournament".to_string(),
    };
    // inside C07's quantifier (non-empty population, 1 <= k <= n) a selection must RETURN an individual:
    // a panic or an error there means no maximal / minimal / best-of-k individual was returned
    let in_scope = n >= 1 && !matches!(which, Which::Tournament(k) if k == 0 || k > n);
    let winner = match r {
        Ok(w) => w,
        Err(p) => {
            if in_scope {
                v.push(Violation::new(
                    "returns-an-individual",
                    format!("panic:{site}"),
                    format!("{site} ({which:?}) on {vals:?} panicked: {}", p.message),
                ));
            }
            return v;
        }
    };
    let Some(w) = winner else {
        if in_scope {
            v.push(Violation::new(
                "returns-an-individual",
                format!("error-on-valid-input:{site}"),
                format!("{site} ({which:?}) on the non-empty population {vals:?} (size {n}) reported an error instead of returning an individual"),
            ));
        }
        return v;
    };
    let wv = vals[w as usize];
    match which {
        Which::Best => {
            if vals.iter().any(|x| *x > wv) {
                v.push(Violation::new(
                    "best-returns-a-maximal-individual",
                    "best-not-maximal".to_string(),
                    format!("Best on {vals:?} returned member #{w} (value {wv}) although a greater value exists"),
                ));
            }
        }
        Which::Worst => {
            if vals.iter().any(|x| *x < wv) {
                v.push(Violation::new(
                    "worst-returns-a-minimal-individual",
                    "worst-not-minimal".to_string(),
                    format!("Worst on {vals:?} returned member #{w} (value {wv}) although a smaller value exists"),
                ));
            }
        }
        Which::Tournament(k) => {
            let mut drawn: Vec<u32> = CMP_LOG.with(|l| l.borrow().clone());
            drawn.push(w);
            drawn.sort_unstable();
            drawn.dedup();
            if k == n {
                obs.hit("probe.tournament-over-whole-population");
            }
            if k == 1 {
                obs.hit("probe.tournament-of-size-1");
            }
            if drawn.len() != k {
                v.push(Violation::new(
                    "tournament-draws-k-distinct-individuals",
                    "entrants-not-k-distinct".to_string(),
                    format!(
                        "Tournament({k}) on {vals:?}: the individuals that took part in comparisons (plus the winner) are {drawn:?} — {} distinct, expected {k}",
                        drawn.len()
                    ),
                ));
            }
            if drawn.iter().any(|d| vals[*d as usize] > wv) {
                v.push(Violation::new(
                    "tournament-returns-best-entrant",
                    "winner-not-best-entrant".to_string(),
                    format!("Tournament({k}) on {vals:?}: entrants {drawn:?}, winner #{w} (value {wv}) is not the best of them"),
                ));
            }
            // consequence: the winner is at least as good as k-1 other members
            let not_better = vals.iter().enumerate().filter(|(i, x)| *i as u32 != w && **x <= wv).count();
            if not_better + 1 < k {
                v.push(Violation::new(
                    "tournament-returns-best-entrant",
                    "winner-beats-fewer-than-k-1".to_string(),
                    format!("Tournament({k}) on {vals:?}: winner #{w} (value {wv}) is at least as good as only {not_better} other members"),
                ));
            }
            if k == n && vals.iter().any(|x| *x > wv) {
                v.push(Violation::new(
                    "tournament-over-whole-population-is-best",
                    "full-tournament-not-best".to_string(),
                    format!("Tournament({k}) over the whole population {vals:?} returned value {wv}"),
                ));
            }
        }
    }
    if n >= 2 {
        let mut fp = fnv1a(site.as_bytes());
        for x in vals {
            fp = mix(fp, *x as u64);
        }
        fp = mix(fp, match which { Which::Tournament(k) => k as u64, _ => 0 });
        fp = mix(fp, u64::from(w));
        obs.nontrivial(fp);
    }
    v
}

fn exec_scored(inds: &[(u8, i64)], which: Which, spec: &RngSpec, obs: &mut Obs) -> Vec<Violation> {
    use ec_core::{individual::ec::EcIndividual, test_results::Score};
    let pop: Vec<EcIndividual<u8, Score<i64>>> = inds.iter().map(|(g, s)| EcIndividual::new(*g, Score(*s))).collect();
    let mut rng = spec.build();
    let r = catch(|| match which {
        Which::Best => Best.select(&pop, &mut rng).ok().map(|x| x.test_results.0),
        Which::Worst => Worst.select(&pop, &mut rng).ok().map(|x| x.test_results.0),
        Which::Tournament(k) => tournament(k).select(&pop, &mut rng).ok().map(|x| x.test_results.0),
    });
    obs.count("draws", rng.draws());
    let mut v = Vec::new();
    let Ok(Some(w)) = r else {
        let valid = !inds.is_empty() && !matches!(which, Which::Tournament(k) if k == 0 || k > inds.len());
        if valid {
            v.push(Violation::new(
                "returns-an-individual",
                "no-individual:scored-individuals".to_string(),
                format!("{which:?} on the non-empty population {inds:?} panicked or reported an error instead of returning an individual"),
            ));
        }
        return v;
    };
    let best = inds.iter().map(|(_, s)| *s).max().unwrap_or(0);
    let worst = inds.iter().map(|(_, s)| *s).min().unwrap_or(0);
    let genomes_repeat = (0..inds.len()).any(|i| (0..i).any(|j| inds[i].0 == inds[j].0 && inds[i].1 != inds[j].1));
    if genomes_repeat {
        obs.hit("probe.same-genome-different-scores");
    }
    match which {
        Which::Worst => {
            if w != worst {
                v.push(Violation::new(
                    "worst-returns-a-minimal-individual",
                    "worst-not-minimal:scored-individuals".to_string(),
                    format!("Worst on (genome, score) individuals {inds:?} returned score {w}; the minimal score is {worst}"),
                ));
            }
        }
        // Best, and a tournament over the whole population
        _ => {
            if w != best {
                v.push(Violation::new(
                    "best-returns-a-maximal-individual",
                    "best-not-maximal:scored-individuals".to_string(),
                    format!("{which:?} on (genome, score) individuals {inds:?} returned score {w}; the maximal score is {best}"),
                ));
            }
        }
    }
    if inds.len() >= 2 {
        obs.nontrivial(fnv1a(format!("{inds:?}{which:?}").as_bytes()));
    }
    v
}

fn exec_dist(n: usize, k: usize, trials: u64, seed: u64, cells_total: u64, obs: &mut Obs) -> Vec<Violation> {
    let vals: Vec<i32> = (0..n as i32).collect(); // distinct: rank r (1-based) = value + 1
    let pop = pop_of(&vals);
    let mut rng = FastRng::new(seed);
    let t = tournament(k);
    let track = n <= SUBSET_TRACKING_MAX_N;
    let mut subsets = vec![0u64; if track { 1 << n } else { 1 }];
    let mut winners = vec![0u64; n];
    // large populations: one pair of entrants per trial, chosen by the harness' own generator from the observed
    // entrant set, is a uniformly random pair of the population iff every k-subset is equally likely; its
    // index distance d has probability (n-d)/C(n,2). ("indices congruent modulo m never meet" shows here.)
    let mut pick = FastRng::new(seed ^ 0x0d15_7a9c);
    let mut distances = vec![0u64; if track { 0 } else { n }];
    let mut pair_trials = 0u64;
    for trial_no in 0..trials {
        CMP_LOG.with(|l| l.borrow_mut().clear());
        let Ok(Ok(w)) = catch(|| t.select(&pop, &mut rng).map(|x| x.id)) else {
            return vec![Violation::new(
                "returns-an-individual",
                format!("no-individual:n{n}"),
                format!("Tournament({k}) on a population of {n} panicked or reported an error in trial {trial_no}"),
            )];
        };
        let mut mask = if track { 1usize << w } else { 0 };
        if track {
        CMP_LOG.with(|l| {
            for id in l.borrow().iter() {
                mask |= 1 << id;
            }
        });
        }
        subsets[mask] += 1;
        winners[w as usize] += 1;
        if !track && k >= 2 {
            let mut ent: Vec<u32> = CMP_LOG.with(|l| l.borrow().clone());
            ent.push(w);
            ent.sort_unstable();
            ent.dedup();
            if ent.len() >= 2 {
                use rand::Rng;
                let a = pick.random_range(0..ent.len());
                let mut b = pick.random_range(0..ent.len() - 1);
                if b >= a {
                    b += 1;
                }
                distances[ent[a].abs_diff(ent[b]) as usize] += 1;
                pair_trials += 1;
            }
        }
    }
    obs.count("steps", trials);
    obs.nontrivial(mix(mix(9, n as u64), k as u64));
    let mut v = Vec::new();
    let total_subsets = stats::binom(n as u64, k as u64);
    for (mask, count) in subsets.iter().enumerate().filter(|_| track) {
        let size = mask.count_ones() as usize;
        let p = if size == k { 1.0 / total_subsets } else { 0.0 };
        if size != k && *count == 0 {
            continue;
        }
        obs.hit("stat-cells");
        let verdict = stats::decide(trials, *count, p, cells_total);
        if verdict.violated {
            let (clause, key) = if size == k {
                ("every-k-subset-equally-likely", format!("subset-frequency:n{n}"))
            } else {
                ("tournament-draws-k-distinct-individuals", "entrants-not-k-distinct".to_string())
            };
            v.push(Violation::new(
                clause,
                key,
                format!(
                    "Tournament({k}) over {n} members, {trials} seeded runs: entrant set {mask:#b} occurred {count} times, expected probability {p:.5} \
                     (n*KL = {:.1}, threshold {:.1})",
                    verdict.stat, verdict.threshold
                ),
            ));
            return v;
        }
    }
    if !track && pair_trials > 0 {
        let pairs = stats::binom(n as u64, 2);
        for (d, count) in distances.iter().enumerate().skip(1) {
            let p = (n - d) as f64 / pairs;
            obs.hit("stat-cells");
            let verdict = stats::decide(pair_trials, *count, p, cells_total);
            if verdict.violated {
                v.push(Violation::new(
                    "every-k-subset-equally-likely",
                    format!("entrant-pair-distance:n{n}"),
                    format!(
                        "Tournament({k}) over {n} members, {pair_trials} seeded runs: two entrants at index distance {d} met {count} times, \
                         expected probability {p:.5} (n*KL = {:.1}, threshold {:.1})",
                        verdict.stat, verdict.threshold
                    ),
                ));
                return v;
            }
        }
    }
    for (i, count) in winners.iter().enumerate() {
        // rank r = i+1 wins iff it is drawn and the other k-1 entrants have lower rank
        let r = (i + 1) as u64;
        let p = if r >= k as u64 { stats::binom(r - 1, k as u64 - 1) / total_subsets } else { 0.0 };
        obs.hit("stat-cells");
        let verdict = stats::decide(trials, *count, p, cells_total);
        if verdict.violated {
            let key = if k == 1 { "size-1-not-uniform".to_string() } else { format!("winner-rank-law:n{n}") };
            v.push(Violation::new(
                "winner-rank-distribution",
                key,
                format!(
                    "Tournament({k}) over {n} distinct members, {trials} seeded runs: the rank-{r} member won {count} times, exact law {p:.5} \
                     (n*KL = {:.1}, threshold {:.1})",
                    verdict.stat, verdict.threshold
                ),
            ));
            return v;
        }
    }
    v
}

struct C07;

/// Larger populations: thresholds such as "k*k <= n" or "16*k <= n" select other code paths; for n <= 16 the
/// entrant sets are still tracked, beyond that only the winner-rank law is decided.
const BIG_CELLS: [(usize, usize); 17] = [
    (9, 3), (12, 2), (16, 3), (16, 4), (25, 2), (25, 5), (40, 3), (100, 2), (100, 10), (150, 4), (300, 2), (300, 3), (1000, 2), (1000, 31),
    // tournaments over nearly the whole population ("choose the few that are left out" code paths)
    (130, 128), (200, 197), (260, 256),
];
const SUBSET_TRACKING_MAX_N: usize = 16;

fn dist_cells(max_n: usize) -> Vec<(usize, usize)> {
    let mut v = Vec::new();
    for n in 1..=max_n {
        for k in 1..=n {
            v.push((n, k));
        }
    }
    v.extend(BIG_CELLS);
    v
}

fn cells_total(max_n: usize) -> u64 {
    // subset cells (2^n per (n,k), only non-empty ones are tested) + rank cells
    dist_cells(max_n).iter().map(|(n, _)| if *n <= SUBSET_TRACKING_MAX_N { (1u64 << n) + *n as u64 } else { 2 * *n as u64 }).sum()
}

/// ENUMERATED single selections: every population of 1..=5 individuals with values in {0, 1, 2} (every tie
/// pattern) x {best, worst, tournament of every size 1..=n} x 4 streams.
fn enum_cells() -> u64 {
    (1..=5u64).map(|n| 3u64.pow(n as u32) * (n + 2) * 4).sum()
}

fn enum_cell(mut idx: u64) -> Sc {
    let mut n = 1u64;
    loop {
        let block = 3u64.pow(n as u32) * (n + 2) * 4;
        if idx < block || n == 5 {
            break;
        }
        idx -= block;
        n += 1;
    }
    let stream = idx % 4;
    idx /= 4;
    let w = idx % (n + 2);
    idx /= n + 2;
    let vals: Vec<i32> = (0..n).map(|i| ((idx / 3u64.pow(i as u32)) % 3) as i32).collect();
    let which = match w {
        0 => Which::Best,
        1 => Which::Worst,
        k => Which::Tournament((k - 1) as usize),
    };
    let rng = match stream {
        0 => RngSpec::seeded(1 + idx),
        1 => RngSpec::seeded(0x5bd1_e995 ^ idx),
        2 => RngSpec { q16: 16, ..RngSpec::seeded(3) },
        _ => RngSpec { q16: 5, ..RngSpec::seeded(4 ^ idx) },
    };
    Sc::One { vals, which, rng }
}

impl Check for C07 {
    type Scenario = Sc;

    fn id(&self) -> &'static str {
        "C07"
    }

    fn declared_probes(&self) -> Vec<&'static str> {
        vec![
            "fault.adversarial-stream-words",
            "probe.same-genome-different-scores",
            "probe.tournament-of-size-1",
            "probe.tournament-over-whole-population",
        ]
    }

    fn rule(&self) -> String {
        "(1) distribution experiments: for every population size n <= 5 (quick) / 7 (thorough) and every tournament size k <= n, N seeded \
         tournaments over distinct values; the entrant set is observed through a comparison-logging Ord; every k-subset's frequency vs \
         1/C(n,k) and every rank's winning frequency vs C(r-1,k-1)/C(n,k) (KL rule, total false-alarm budget 1e-9); (2) seeded single \
         selections of Best / Worst / Tournament(k) over tie-heavy populations of 1-8 under seeded and boundary streams with exact \
         invariants. Non-trivial: experiments always; single selections with >= 2 members; distinct = (selector, population, k, winner)"
            .into()
    }

    fn chunk(&self) -> u64 {
        2
    }

    fn runs(&self, tier: Tier) -> u64 {
        let max_n = if tier == Tier::Quick { 6 } else { 7 };
        dist_cells(max_n).len() as u64
            + match tier {
                Tier::Quick => 2_000_000,
                Tier::Thorough => 300_000_000,
            }
    }

    fn generate(&self, g: &mut Xo, tier: Tier, run: u64) -> Sc {
        let max_n = if tier == Tier::Quick { 6 } else { 7 };
        let cells = dist_cells(max_n);
        if (run as usize) < cells.len() {
            let (n, k) = cells[run as usize];
            return Sc::Dist {
                n,
                k,
                trials: if tier == Tier::Quick { 200_000 } else { 1_000_000 },
                seed: g.next_u64(),
                cells_total: cells_total(max_n),
            };
        }
        let e = run.wrapping_sub(cells.len() as u64);
        if e < enum_cells() {
            return enum_cell(e);
        }
        if g.chance(1, 6) {
            // scored individuals with shared genomes: the selection pressure is
            // defined by the test results
            let n = g.urange(1, 8);
            return Sc::Scored {
                inds: (0..n).map(|_| (g.below(3) as u8, g.range(0, 9) as i64)).collect(),
                which: match g.below(3) {
                    0 => Which::Best,
                    1 => Which::Worst,
                    _ => Which::Tournament(n),
                },
                rng: RngSpec::swarm(g),
            };
        }
        let huge = g.chance(1, 4000);
        let n = if huge {
            // beyond 16 bits: 65 536 .. 250 000 individuals
            match g.below(5) {
                0 => 65_536,
                1 => 131_072 + g.urange(1, 4095),
                _ => g.log_uniform(65_536, 250_000),
            }
        } else if g.chance(1, 40) {
            g.log_uniform(15, 3000)
        } else if g.chance(1, 4) {
            g.urange(9, 14)
        } else {
            g.urange(1, 8)
        };
        // every fourth single-selection scenario enumerates the pairs (n, k) with n <= 64, k <= n densely (by run
        // index): relations between the two parameters (k*k <= n, 2k == n+1, ...) are all met
        let pair = if run % 4 == 1 {
            let idx = (run / 4) % 2080;
            let mut nn = 1u64;
            let mut acc = 0u64;
            while acc + nn <= idx {
                acc += nn;
                nn += 1;
            }
            Some((nn as usize, (idx - acc + 1) as usize))
        } else {
            None
        };
        let n = pair.map_or(n, |(nn, _)| nn);
        // nearly full tournaments of middle-sized populations (a sampler may switch to drawing the few individuals
        // that sit out): k = n - 0..=12
        let near_full = run % 64 == 7;
        let n = if near_full { g.log_uniform(40, 2500) } else { n };
        let spread = if n > 14 && g.coin() { g.range(1, n as u64) as i32 } else { g.range(1, 4) as i32 };
        let mut vals: Vec<i32> = (0..n).map(|_| g.range(0, spread as u64) as i32).collect();
        if n >= 1000 && g.coin() {
            // a unique best and a unique worst individual at the ends of the population (or anywhere)
            let hi = match g.below(3) {
                0 => 0,
                1 => n - 1,
                _ => g.urange(0, n - 1),
            };
            let lo = match g.below(3) {
                0 => n - 1 - usize::from(hi == n - 1),
                1 => usize::from(hi == 0),
                _ => (hi + 1 + g.urange(0, n - 2)) % n,
            };
            vals[hi] = spread + 7;
            vals[lo] = -7;
        }
        let which = match g.below(4) {
            0 => Which::Best,
            1 => Which::Worst,
            _ => Which::Tournament(match g.below(5) {
                0 => 1,
                1 if !huge => n,
                1 => g.urange(1, 8),
                // small tournaments in large populations and large ones in small populations alike
                2 => g.log_uniform(1, n),
                _ => g.urange(1, n),
            }),
        };
        let which = match pair {
            Some((_, k)) => Which::Tournament(k),
            None if near_full => Which::Tournament(n - g.urange(0, 12)),
            None => which,
        };
        Sc::One { vals, which, rng: RngSpec::swarm(g) }
    }

    fn execute(&self, sc: &Sc, obs: &mut Obs) -> Vec<Violation> {
        match sc {
            Sc::One { vals, which, rng } => exec_one(vals, *which, rng, obs),
            Sc::Scored { inds, which, rng } => exec_scored(inds, *which, rng, obs),
            Sc::Dist { n, k, trials, seed, cells_total } => exec_dist(*n, *k, *trials, *seed, *cells_total, obs),
        }
    }

    fn shrink(&self, sc: &Sc) -> Vec<Sc> {
        let mut out = Vec::new();
        if let Sc::One { vals, which, rng } = sc {
            for v in simcore::drop_chunks(vals) {
                if !v.is_empty() {
                    let w = match which {
                        Which::Tournament(k) => Which::Tournament((*k).min(v.len())),
                        o => *o,
                    };
                    out.push(Sc::One { vals: v, which: w, rng: rng.clone() });
                }
            }
            if rng.q16 != 0 {
                out.push(Sc::One { vals: vals.clone(), which: *which, rng: RngSpec::seeded(rng.seed) });
            }
        }
        out
    }

    fn extra_coverage(
        &self,
        tier: Tier,
        _c: &std::collections::BTreeMap<String, u64>,
    ) -> serde_json::Map<String, serde_json::Value> {
        let max_n = if tier == Tier::Quick { 6 } else { 7 };
        let trials = if tier == Tier::Quick { 200_000 } else { 1_000_000 };
        let mut m = serde_json::Map::new();
        m.insert("enumerated_small_populations".into(), serde_json::json!(enum_cells()));
        m.insert(
            "stat_budget".into(),
            serde_json::json!({
                "delta_total": stats::DELTA_TOTAL,
                "cells": cells_total(max_n),
                "trials_per_experiment": trials,
                "threshold_nKL": stats::threshold(cells_total(max_n)),
                "resolution_at_p_0.1": stats::resolution(trials, 0.1, cells_total(max_n)),
                "resolution_at_p_0.5": stats::resolution(trials, 0.5, cells_total(max_n)),
            }),
        );
        m
    }

    fn assumptions(&self) -> Vec<String> {
        vec![
            "any way of finding the best of k entrants compares each of them at least once, so the ids seen by Ord::cmp plus the winner are the entrant set".into(),
            "distributional clauses are decided with the Chernoff-KL rule at a total false-alarm budget of 1e-9 per invocation; smaller biases than the stated resolution are invisible".into(),
        ]
    }

    fn real_components(&self) -> Vec<&'static str> {
        vec!["ec-core Best, Worst, Tournament", "rand 0.9.0 choose_multiple / index::sample"]
    }

    fn stub_components(&self) -> Vec<&'static str> {
        vec!["comparison-logging individual type", "FastRng / SimRng streams"]
    }
}

fn main() {
    main_for(C07);
}
