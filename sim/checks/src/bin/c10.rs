//! C10 — crossover recombines parental genes position-wise and reports misuse
//! as errors. Through the rng seam: tagged parents, seeded and boundary
//! streams; enumerated exchange primitives; reachability of every segment.
//! (DESIGN §5 C10, engine E1 `rngsim`.)

use std::collections::BTreeSet;

use ec_core::operator::recombinator::Recombinator;
use ec_linear::{
    genome::bitstring::Bitstring,
    recombinator::{
        crossover::Crossover,
        errors::{CrossoverGeneError, DifferentGenomeLength},
        two_point_xo::TwoPointXo,
        uniform_xo::UniformXo,
    },
};
use serde::{Deserialize, Serialize};
use simcore::{catch, fnv1a, main_for, mix, Check, FastRng, Obs, RngSpec, Tier, Violation, Xo};

#[derive(Serialize, Deserialize, Clone, Copy, Debug, PartialEq, Eq)]
enum Kind {
    TwoPoint,
    Uniform,
}

#[derive(Serialize, Deserialize, Clone, Copy, Debug, PartialEq, Eq)]
enum Container {
    VecArr,
    VecTuple,
    BitArr,
    BitTuple,
    /// vectors of a bulky gene type (112 bytes): "for all gene types" includes the ones larger than a cache line
    BulkyArr,
    BulkyTuple,
}

#[derive(Clone, Debug, PartialEq)]
struct Bulky {
    tag: Tagged,
    ballast: [u64; 12],
}

fn bulky(parent: u8, len: usize) -> Vec<Bulky> {
    (0..len).map(|i| Bulky { tag: (parent, i), ballast: [i as u64 ^ u64::from(parent); 12] }).collect()
}

const CONTAINERS: [Container; 4] = [Container::VecArr, Container::VecTuple, Container::BitArr, Container::BitTuple];

#[derive(Serialize, Deserialize, Clone, Debug)]
enum Sc {
    /// one recombination of tagged parents
    Xo { kind: Kind, container: Container, la: usize, lb: usize, rng: RngSpec, random_bits: Option<u64> },
    /// one call of an exchange primitive on bitstrings (exhaustively enumerated)
    PrimGene { la: usize, lb: usize, index: usize, seed: u64 },
    PrimSegment { la: usize, lb: usize, start: usize, end: usize, seed: u64 },
    /// N seeded two-point crossovers: every segment must occur
    Reach { container: Container, len: usize, n: u64, seed: u64 },
    /// N seeded uniform crossovers: positions are decided independently
    /// (joint frequency of position pairs at several distances == 1/4)
    Indep { container: Container, len: usize, n: u64, seed: u64, cells_total: u64 },
    /// two-point crossover of genomes of zero-sized genes (`Vec<()>`), which may be as long as usize::MAX at no
    /// cost: lengths no sized genome can reach (2^32 +- 1, usize::MAX - 1, usize::MAX); `lb_less` = the second
    /// parent is that much shorter (0 = equal lengths)
    ZstXo { len: usize, lb_less: usize, tuple: bool, rng: RngSpec },
}

fn exec_zst(len: usize, lb_less: usize, tuple: bool, spec: &RngSpec, obs: &mut Obs) -> Vec<Violation> {
    use ec_core::operator::recombinator::Recombinator;
    use ec_linear::recombinator::two_point_xo::TwoPointXo;
    let lb = len - lb_less.min(len);
    let mut rng = spec.build();
    let r = catch(|| {
        let (a, b): (Vec<()>, Vec<()>) = (vec![(); len], vec![(); lb]);
        if tuple {
            TwoPointXo.recombine((a, b), &mut rng).map(|c| c.len()).map_err(|e| (e.0, e.1))
        } else {
            TwoPointXo.recombine([a, b], &mut rng).map(|c| c.len()).map_err(|e| (e.0, e.1))
        }
    });
    obs.count("draws", rng.draws());
    obs.count("fault.adversarial-stream-words", rng.boundary_fired());
    obs.hit("probe.zero-sized-genes(length-up-to-usize::MAX)");
    obs.nontrivial(mix(mix(0x25f, len as u64), lb as u64));
    let mut v = Vec::new();
    match r {
        Err(p) => v.push(Violation::new(
            "never-panics",
            format!("panic:TwoPoint/Vec<()>:{}", if len == lb { "equal-lengths" } else { "unequal-lengths" }),
            format!("two-point crossover of Vec<()> parents of lengths {len} and {lb} panicked: {}", p.message),
        )),
        Ok(Ok(n)) => {
            if len != lb {
                v.push(Violation::new(
                    "unequal-lengths-are-errors",
                    "unequal-accepted:TwoPoint/Vec<()>".to_string(),
                    format!("Vec<()> parents of different lengths {len},{lb} produced a child of length {n}"),
                ));
            } else if n != len {
                v.push(Violation::new(
                    "child-has-parents-length",
                    "child-length:TwoPoint/Vec<()>".to_string(),
                    format!("Vec<()> parents of length {len} produced a child of length {n}"),
                ));
            }
        }
        Ok(Err((x, y))) => {
            obs.hit("fault.unequal-parent-lengths");
            if len == lb {
                v.push(Violation::new(
                    "length-error-only-for-unequal",
                    "spurious-length-error:TwoPoint/Vec<()>".to_string(),
                    format!("equal-length Vec<()> parents ({len}) were rejected as DifferentGenomeLength({x},{y})"),
                ));
            } else if (x, y) != (len, lb) {
                v.push(Violation::new(
                    "length-error-reports-lengths",
                    "length-error-fields:TwoPoint/Vec<()>".to_string(),
                    format!("Vec<()> parents of lengths {len},{lb} reported as DifferentGenomeLength({x},{y})"),
                ));
            }
        }
    }
    v
}

type Tagged = (u8, usize);

fn tagged(parent: u8, len: usize) -> Vec<Tagged> {
    (0..len).map(|i| (parent, i)).collect()
}

/// Outcome of a recombination in a container-independent form.
enum Out {
    /// for each position: true = gene of the second parent (or "differs from
    /// first parent" for random bit parents), plus a flag if a gene is from
    /// neither parent / wrong position
    Child { from_b: Vec<Option<bool>>, alien: Option<String>, len: usize },
    DiffLen(usize, usize),
    OtherErr(String),
}

fn classify_vec(child: &[Tagged]) -> Out {
    let mut alien = None;
    let from_b = child
        .iter()
        .enumerate()
        .map(|(i, (p, pos))| {
            if *pos != i || *p > 1 {
                alien = Some(format!("gene {i} of the child is {:?}: not the gene either parent had at that position", (p, pos)));
            }
            Some(*p == 1)
        })
        .collect();
    Out::Child { from_b, alien, len: child.len() }
}

fn classify_bits(child: &Bitstring, a: &Bitstring, b: &Bitstring) -> Out {
    let mut alien = None;
    let from_b = child
        .bits
        .iter()
        .enumerate()
        .map(|(i, bit)| match (a.bits.get(i), b.bits.get(i)) {
            (Some(x), Some(y)) if x == y => {
                if bit != x {
                    alien = Some(format!("bit {i} of the child is {bit} but both parents have {x}"));
                }
                None
            }
            (Some(x), Some(_)) => Some(bit != x),
            _ => {
                alien = Some(format!("child has a bit at position {i} beyond a parent"));
                None
            }
        })
        .collect();
    Out::Child { from_b, alien, len: child.bits.len() }
}

fn run_xo(kind: Kind, container: Container, la: usize, lb: usize, bits: Option<u64>, rng: &mut impl rand::Rng) -> Out {
    match container {
        Container::VecArr | Container::VecTuple => {
            let (a, b) = (tagged(0, la), tagged(1, lb));
            let r: Result<Vec<Tagged>, DifferentGenomeLength> = match (kind, container) {
                (Kind::TwoPoint, Container::VecArr) => TwoPointXo.recombine([a, b], rng),
                (Kind::TwoPoint, _) => TwoPointXo.recombine((a, b), rng),
                (Kind::Uniform, Container::VecArr) => UniformXo.recombine([a, b], rng),
                (Kind::Uniform, _) => UniformXo.recombine((a, b), rng),
            };
            match r {
                Ok(c) => classify_vec(&c),
                Err(DifferentGenomeLength(x, y)) => Out::DiffLen(x, y),
            }
        }
        Container::BulkyArr | Container::BulkyTuple => {
            let (a, b) = (bulky(0, la), bulky(1, lb));
            let r: Result<Vec<Bulky>, DifferentGenomeLength> = match (kind, container) {
                (Kind::TwoPoint, Container::BulkyArr) => TwoPointXo.recombine([a, b], rng),
                (Kind::TwoPoint, _) => TwoPointXo.recombine((a, b), rng),
                (Kind::Uniform, Container::BulkyArr) => UniformXo.recombine([a, b], rng),
                (Kind::Uniform, _) => UniformXo.recombine((a, b), rng),
            };
            match r {
                Ok(c) => {
                    let damaged = c.iter().position(|g| g.ballast != [g.tag.1 as u64 ^ u64::from(g.tag.0); 12]);
                    match (classify_vec(&c.iter().map(|g| g.tag).collect::<Vec<_>>()), damaged) {
                        (Out::Child { from_b, alien: None, len }, Some(i)) => Out::Child { from_b, alien: Some(format!("gene {i} of the child is not a whole gene of either parent")), len },
                        (out, _) => out,
                    }
                }
                Err(DifferentGenomeLength(x, y)) => Out::DiffLen(x, y),
            }
        }
        Container::BitArr | Container::BitTuple => {
            let (a, b) = match bits {
                None => (Bitstring { bits: vec![false; la] }, Bitstring { bits: vec![true; lb] }),
                Some(seed) => {
                    let mut g = Xo::from_seed(seed);
                    (
                        Bitstring { bits: (0..la).map(|_| g.coin()).collect() },
                        Bitstring { bits: (0..lb).map(|_| g.coin()).collect() },
                    )
                }
            };
            let (a0, b0) = (a.clone(), b.clone());
            match kind {
                Kind::TwoPoint => {
                    let r = if container == Container::BitArr {
                        TwoPointXo.recombine([a, b], rng)
                    } else {
                        TwoPointXo.recombine((a, b), rng)
                    };
                    match r {
                        Ok(c) => classify_bits(&c, &a0, &b0),
                        Err(CrossoverGeneError::DifferentGenomeLength(DifferentGenomeLength(x, y))) => Out::DiffLen(x, y),
                        Err(e) => Out::OtherErr(format!("{e}")),
                    }
                }
                Kind::Uniform => {
                    let r = if container == Container::BitArr {
                        UniformXo.recombine([a, b], rng)
                    } else {
                        UniformXo.recombine((a, b), rng)
                    };
                    match r {
                        Ok(c) => classify_bits(&c, &a0, &b0),
                        Err(CrossoverGeneError::DifferentGenomeLength(DifferentGenomeLength(x, y))) => Out::DiffLen(x, y),
                        Err(e) => Out::OtherErr(format!("{e}")),
                    }
                }
            }
        }
    }
}

/// The second-parent positions must form one contiguous (possibly empty) run.
/// `None` entries (positions where both parents agree) are compatible with
/// anything. Returns the (start, end) of the run over known positions.
fn contiguous(from_b: &[Option<bool>]) -> Result<Option<(usize, usize)>, String> {
    let known_b: Vec<usize> = from_b.iter().enumerate().filter(|(_, x)| **x == Some(true)).map(|(i, _)| i).collect();
    if known_b.is_empty() {
        return Ok(None);
    }
    let (s, e) = (known_b[0], known_b[known_b.len() - 1] + 1);
    if from_b[s..e].iter().any(|x| *x == Some(false)) {
        return Err(format!("second-parent positions {known_b:?} do not form one contiguous segment"));
    }
    Ok(Some((s, e)))
}

fn exec_xo(
    kind: Kind,
    container: Container,
    la: usize,
    lb: usize,
    spec: &RngSpec,
    bits: Option<u64>,
    obs: &mut Obs,
) -> Vec<Violation> {
    let mut rng = spec.build();
    let site = format!("{kind:?}/{container:?}");
    let r = catch(|| run_xo(kind, container, la, lb, bits, &mut rng));
    obs.count("draws", rng.draws());
    obs.count("fault.adversarial-stream-words", rng.boundary_fired());
    let mut v = Vec::new();
    let out = match r {
        Ok(o) => o,
        Err(p) => {
            let class = if la == 0 && lb == 0 { "empty-parents" } else if la != lb { "unequal-lengths" } else { "equal-lengths" };
            v.push(Violation::new(
                "never-panics",
                format!("panic:{site}:{class}"),
                format!("recombining parents of lengths {la} and {lb} panicked: {}", p.message),
            ));
            return v;
        }
    };
    if la == 0 && lb == 0 {
        obs.hit("probe.empty-parents");
    }
    match out {
        Out::DiffLen(x, y) => {
            obs.hit("fault.unequal-parent-lengths");
            if la == lb {
                v.push(Violation::new(
                    "length-error-only-for-unequal",
                    format!("spurious-length-error:{site}"),
                    format!("equal-length parents ({la}) were rejected as DifferentGenomeLength({x},{y})"),
                ));
            } else if (x, y) != (la, lb) {
                v.push(Violation::new(
                    "length-error-reports-lengths",
                    format!("length-error-fields:{site}"),
                    format!("parents of lengths {la},{lb} reported as DifferentGenomeLength({x},{y})"),
                ));
            }
        }
        Out::OtherErr(e) => v.push(Violation::new(
            "errors-documented",
            format!("unexpected-error:{site}"),
            format!("parents of lengths {la},{lb}: unexpected error `{e}`"),
        )),
        Out::Child { from_b, alien, len } => {
            if la != lb {
                v.push(Violation::new(
                    "unequal-lengths-are-errors",
                    format!("unequal-accepted:{site}"),
                    format!("parents of different lengths {la},{lb} produced a child of length {len}"),
                ));
                return v;
            }
            if len != la {
                v.push(Violation::new(
                    "child-length",
                    format!("child-length:{site}"),
                    format!("parents of length {la} produced a child of length {len}"),
                ));
            }
            if let Some(a) = alien {
                v.push(Violation::new("position-wise-genes", format!("alien-gene:{site}"), a));
            }
            if kind == Kind::TwoPoint {
                match contiguous(&from_b) {
                    Err(e) => v.push(Violation::new("one-contiguous-segment", format!("non-contiguous:{site}"), e)),
                    Ok(Some((s, e))) => {
                        if s == 0 {
                            obs.hit("probe.segment-touches-start");
                        }
                        if e == la {
                            obs.hit("probe.segment-touches-end");
                        }
                    }
                    Ok(None) => obs.hit("probe.empty-segment"),
                }
            }
            let mut fp = fnv1a(site.as_bytes());
            fp = mix(fp, la as u64);
            for b in &from_b {
                fp = mix(fp, match b { None => 2, Some(true) => 1, Some(false) => 0 });
            }
            if la >= 2 {
                obs.nontrivial(fp);
            }
        }
    }
    v
}

fn exec_prim_gene(la: usize, lb: usize, index: usize, seed: u64, obs: &mut Obs) -> Vec<Violation> {
    let mut g = Xo::from_seed(seed);
    let a0 = Bitstring { bits: (0..la).map(|_| g.coin()).collect() };
    let b0 = Bitstring { bits: (0..lb).map(|_| g.coin()).collect() };
    let (mut a, mut b) = match seed % 3 {
        0 => (a0.clone(), b0.clone()),
        1 => (with_room(&a0.bits, la.max(lb)), with_room(&b0.bits, la.max(lb))),
        _ => (with_room(&a0.bits, index.min(la.max(lb) + 4) + 1), with_room(&b0.bits, index.min(la.max(lb) + 4) + 2)),
    };
    let r = catch(|| a.crossover_gene(&mut b, index).is_ok());
    let mut v = Vec::new();
    let inside = index < la && index < lb;
    match r {
        Err(p) => v.push(Violation::new(
            "never-panics",
            "panic:crossover_gene".to_string(),
            format!("crossover_gene(index {index}) on lengths {la},{lb} panicked: {}", p.message),
        )),
        Ok(ok) => {
            let (mut ea, mut eb) = (a0.clone(), b0.clone());
            if inside {
                std::mem::swap(&mut ea.bits[index], &mut eb.bits[index]);
            } else {
                obs.hit("fault.index-outside-genome");
            }
            if ok != inside {
                v.push(Violation::new(
                    "outside-is-error",
                    "crossover_gene-result".to_string(),
                    format!("crossover_gene(index {index}) on lengths {la},{lb} returned ok={ok}"),
                ));
            }
            if a != ea || b != eb {
                v.push(Violation::new(
                    "exchange-exactly-addressed",
                    "crossover_gene-effect".to_string(),
                    format!("crossover_gene(index {index}) on {a0} / {b0} left {a} / {b}; expected {ea} / {eb}"),
                ));
            }
        }
    }
    obs.nontrivial(mix(mix(mix(1, la as u64), lb as u64), index as u64));
    v
}

/// The same bits in a buffer with room for `capacity` bits (a genome that was built by pushing, or shortened, has
/// spare room; equal genomes behave equally whatever room their buffers have).
fn with_room(bits: &[bool], capacity: usize) -> Bitstring {
    let mut v = Vec::with_capacity(capacity.max(bits.len()));
    v.extend_from_slice(bits);
    Bitstring { bits: v }
}

fn exec_prim_segment(la: usize, lb: usize, start: usize, end: usize, seed: u64, obs: &mut Obs) -> Vec<Violation> {
    let mut v = Vec::new();
    // buffers: exact / each genome with room for as many bits as the longer one has / a little more room
    for room in 0..3usize {
        v.extend(exec_prim_segment_room(la, lb, start, end, seed, room, obs));
        if !v.is_empty() {
            break;
        }
    }
    v
}

fn exec_prim_segment_room(la: usize, lb: usize, start: usize, end: usize, seed: u64, room: usize, obs: &mut Obs) -> Vec<Violation> {
    let mut g = Xo::from_seed(seed);
    let a0 = Bitstring { bits: (0..la).map(|_| g.coin()).collect() };
    let b0 = Bitstring { bits: (0..lb).map(|_| g.coin()).collect() };
    let (mut a, mut b) = match room {
        0 => (a0.clone(), b0.clone()),
        1 => (with_room(&a0.bits, la.max(lb)), with_room(&b0.bits, la.max(lb))),
        _ => (with_room(&a0.bits, la + 1 + (seed % 3) as usize), with_room(&b0.bits, lb + 3)),
    };
    if room > 0 {
        obs.hit("probe.exchange-on-genomes-with-spare-capacity");
    }
    let r = catch(|| a.crossover_segment(&mut b, start..end).is_ok());
    let mut v = Vec::new();
    let class = if start > end {
        "inverted-range"
    } else if end > la || end > lb {
        "range-beyond-end"
    } else {
        "range-inside"
    };
    match r {
        Err(p) => v.push(Violation::new(
            "never-panics",
            format!("panic:crossover_segment:{class}"),
            format!("crossover_segment({start}..{end}) on lengths {la},{lb} panicked: {}", p.message),
        )),
        Ok(ok) => {
            let (mut ea, mut eb) = (a0.clone(), b0.clone());
            // expectation: Some(true) must succeed, Some(false) must fail,
            // None: either (statement silent: empty / inverted ranges)
            let expect = if start < end {
                if end <= la && end <= lb {
                    ea.bits[start..end].swap_with_slice(&mut eb.bits[start..end]);
                    Some(true)
                } else {
                    obs.hit("fault.range-outside-genome");
                    Some(false)
                }
            } else if start == end && end <= la && end <= lb {
                Some(true)
            } else {
                obs.hit("fault.empty-or-inverted-range-outside");
                None
            };
            if expect.is_some_and(|e| e != ok) {
                v.push(Violation::new(
                    "outside-is-error",
                    format!("crossover_segment-result:{class}"),
                    format!("crossover_segment({start}..{end}) on lengths {la},{lb} returned ok={ok}"),
                ));
            }
            if a != ea || b != eb {
                v.push(Violation::new(
                    "exchange-exactly-addressed",
                    format!("crossover_segment-effect:{class}"),
                    format!("crossover_segment({start}..{end}) on {a0} / {b0} left {a} / {b}; expected {ea} / {eb}"),
                ));
            }
        }
    }
    obs.nontrivial(mix(mix(mix(mix(2, la as u64), lb as u64), start as u64), end as u64));
    v
}

fn exec_reach(container: Container, len: usize, n: u64, seed: u64, obs: &mut Obs) -> Vec<Violation> {
    let mut rng = FastRng::new(seed);
    let mut seen: BTreeSet<(usize, usize)> = BTreeSet::new();
    let mut empty = false;
    for _ in 0..n {
        let r = catch(|| run_xo(Kind::TwoPoint, container, len, len, None, &mut rng));
        match r {
            Ok(Out::Child { from_b, .. }) => match contiguous(&from_b) {
                Ok(Some(se)) => {
                    seen.insert(se);
                }
                Ok(None) => empty = true,
                Err(_) => {}
            },
            // panics / errors are the exact clauses' business
            _ => return Vec::new(),
        }
    }
    obs.count("steps", n);
    let mut missing = Vec::new();
    for s in 0..len {
        for e in (s + 1)..=len {
            if !seen.contains(&(s, e)) {
                missing.push((s, e));
            }
        }
    }
    obs.nontrivial(mix(mix(3, len as u64), container as u64));
    let mut v = Vec::new();
    if !missing.is_empty() {
        let touches_end = missing.iter().all(|(_, e)| *e == len);
        let class = if touches_end { "segments-touching-the-end" } else { "segments" };
        v.push(Violation::new(
            "every-segment-can-occur",
            format!("unreachable-{class}:{container:?}"),
            format!(
                "{n} seeded two-point crossovers of length-{len} parents never exchanged segment(s) {missing:?} (observed {} distinct non-empty segments of {})",
                seen.len(),
                len * (len + 1) / 2
            ),
        ));
    }
    // (whether the *empty* exchange can occur is not demanded: a law with two distinct cut
    // points satisfies "every segment can occur" just as well)
    let _ = empty;
    v
}

const INDEP_LENS: [usize; 6] = [2, 9, 33, 65, 130, 17_000];
const INDEP_DISTS: [usize; 15] = [1, 2, 7, 8, 16, 32, 64, 128, 512, 1024, 2048, 4096, 8192, 16_384, 16_999];

fn indep_pairs(len: usize) -> Vec<(usize, usize)> {
    let mut v = Vec::new();
    for d in INDEP_DISTS {
        if d < len {
            for i in [0, 1, (len - d) / 2, len - d - 1] {
                if i + d < len && !v.contains(&(i, i + d)) {
                    v.push((i, i + d));
                }
            }
        }
    }
    v
}

fn indep_cells_total() -> u64 {
    INDEP_LENS.iter().map(|l| indep_pairs(*l).len() as u64).sum::<u64>() * CONTAINERS.len() as u64
}

fn exec_indep(container: Container, len: usize, n: u64, seed: u64, cells_total: u64, obs: &mut Obs) -> Vec<Violation> {
    let mut rng = FastRng::new(seed);
    let pairs = indep_pairs(len);
    let mut joint = vec![0u64; pairs.len()];
    for _ in 0..n {
        let r = catch(|| run_xo(Kind::Uniform, container, len, len, None, &mut rng));
        match r {
            Ok(Out::Child { from_b, .. }) if from_b.len() == len => {
                for (k, (i, j)) in pairs.iter().enumerate() {
                    if from_b[*i] == Some(true) && from_b[*j] == Some(true) {
                        joint[k] += 1;
                    }
                }
            }
            _ => return Vec::new(), // the exact clauses report panics / errors / wrong lengths
        }
    }
    obs.count("steps", n);
    obs.nontrivial(mix(mix(4, len as u64), container as u64));
    let mut v = Vec::new();
    for (k, (i, j)) in pairs.iter().enumerate() {
        let verdict = simcore::stats::decide(n, joint[k], 0.25, cells_total);
        obs.hit("stat-cells");
        if verdict.violated {
            v.push(Violation::new(
                "uniform-decides-positions-independently",
                format!("dependent-positions:{container:?}:distance-{}", j - i),
                format!(
                    "uniform crossover of length-{len} parents: positions {i} and {j} both came from the second parent in {} of {n} runs \
                     (independent fair choices give 1/4; n*KL = {:.1} > threshold {:.1})",
                    joint[k], verdict.stat, verdict.threshold
                ),
            ));
            break;
        }
    }
    v
}

struct C10 {
    prims: Vec<Sc>,
}

fn enumerate_prims() -> Vec<Sc> {
    let mut v = Vec::new();
    for la in 0..=5usize {
        for lb in 0..=5usize {
            let m = la.max(lb) + 2;
            for index in 0..=m {
                v.push(Sc::PrimGene { la, lb, index, seed: 0 });
            }
            // indices at the far end of the integer range (index + 1 must not be computed carelessly)
            for index in [usize::MAX, usize::MAX - 1, 1 << 63, 1 << 32] {
                v.push(Sc::PrimGene { la, lb, index, seed: 0 });
            }
            for (start, end) in [(0, usize::MAX), (usize::MAX, usize::MAX), (usize::MAX - 1, usize::MAX), (usize::MAX, 0), (1, 1 << 63)] {
                v.push(Sc::PrimSegment { la, lb, start, end, seed: 0 });
            }
            for start in 0..=m {
                for end in 0..=m {
                    v.push(Sc::PrimSegment { la, lb, start, end, seed: 0 });
                }
            }
        }
    }
    v
}

impl C10 {
    fn reach_runs(&self) -> u64 {
        (CONTAINERS.len() * 7) as u64
    }

    fn indep_runs(&self) -> u64 {
        (CONTAINERS.len() * INDEP_LENS.len()) as u64
    }
}

impl Check for C10 {
    type Scenario = Sc;

    fn id(&self) -> &'static str {
        "C10"
    }

    fn declared_probes(&self) -> Vec<&'static str> {
        vec![
            "fault.adversarial-stream-words",
            "fault.empty-or-inverted-range-outside",
            "fault.index-outside-genome",
            "fault.range-outside-genome",
            "fault.unequal-parent-lengths",
            "probe.empty-parents",
            "probe.empty-segment",
            "probe.segment-touches-end",
            "probe.segment-touches-start",
            "probe.zero-sized-genes(length-up-to-usize::MAX)",
        ]
    }

    fn rule(&self) -> String {
        format!(
            "(1) exhaustively enumerated exchange primitives on bitstrings: crossover_gene / crossover_segment for all length pairs <= 5 x all \
             indices / (start,end) in 0..=max+2 incl. start > end ({} cells, 4 value draws each in thorough); (2) reachability: for every length 0..=6 and \
             container, N seeded two-point crossovers must show every segment; (2b) independence: for lengths 2..130 N seeded uniform crossovers, joint origin of position pairs at distances 1..128 vs 1/4 (KL rule, total \
             false-alarm budget 1e-9); (3) seeded single recombinations of tagged parents \
             (TwoPointXo/UniformXo x [Vec;2]/(Vec,Vec)/[Bitstring;2]/(Bitstring,Bitstring), lengths 0-8 equal and unequal, seeded and \
             boundary streams). Non-trivial: primitives and reach runs always; a recombination iff parents have length >= 2; distinct = \
             distinct (site, length, per-position origin pattern) resp. cell fingerprints",
            self.prims.len()
        )
    }

    fn runs(&self, tier: Tier) -> u64 {
        let prim = self.prims.len() as u64 * if tier == Tier::Quick { 1 } else { 4 };
        prim + self.reach_runs()
            + self.indep_runs()
            + match tier {
                Tier::Quick => 3_000_000,
                Tier::Thorough => 400_000_000,
            }
    }

    fn generate(&self, g: &mut Xo, tier: Tier, run: u64) -> Sc {
        let prim = self.prims.len() as u64 * if tier == Tier::Quick { 1 } else { 4 };
        if run < prim {
            let mut sc = self.prims[(run % self.prims.len() as u64) as usize].clone();
            match &mut sc {
                Sc::PrimGene { seed, .. } | Sc::PrimSegment { seed, .. } => *seed = g.next_u64(),
                _ => {}
            }
            return sc;
        }
        let r = run - prim;
        if r < self.reach_runs() {
            let container = CONTAINERS[(r % 4) as usize];
            let len = (r / 4) as usize;
            return Sc::Reach {
                container,
                len,
                n: if tier == Tier::Quick { 50_000 } else { 400_000 },
                seed: g.next_u64(),
            };
        }
        let r = r - self.reach_runs();
        if r < self.indep_runs() {
            return Sc::Indep {
                container: CONTAINERS[(r % 4) as usize],
                len: INDEP_LENS[(r / 4) as usize],
                // (the long genome: positions thousands of genes apart — pooled or recycled random decisions)
                n: match (tier, INDEP_LENS[(r / 4) as usize] > 1000) {
                    (Tier::Quick, false) => 20_000,
                    (Tier::Quick, true) => 4_000,
                    (Tier::Thorough, false) => 400_000,
                    (Tier::Thorough, true) => 40_000,
                },
                seed: g.next_u64(),
                cells_total: indep_cells_total(),
            };
        }
        if g.chance(1, 500) {
            let len = match g.below(7) {
                0 => usize::MAX,
                1 => usize::MAX - 1,
                2 => 1usize << 32,
                3 => (1usize << 32) + 1,
                4 => (1usize << 32) - 1,
                5 => 1usize << 63,
                _ => g.next_u64() as usize >> g.below(40),
            };
            return Sc::ZstXo { len, lb_less: if g.chance(1, 4) { g.urange(1, 2) } else { 0 }, tuple: g.coin(), rng: RngSpec::swarm(g) };
        }
        if g.chance(1, 2500) {
            // exchange primitives on long genomes: segments of more than 2^16 genes, genes beyond index 2^16
            let la = *g.pick(&[65_536usize, 65_537, 100_000, 131_073, 200_000]);
            let lb = if g.chance(1, 5) { la - g.urange(1, 70_000).min(la) } else { la };
            let start = if g.coin() { g.urange(0, 10) } else { g.usize_below(la) };
            let end = match g.below(4) {
                0 => la,
                1 => la + g.urange(0, 2),
                _ => g.urange(start.min(la), la),
            };
            return if g.chance(1, 4) {
                Sc::PrimGene { la, lb, index: g.usize_below(la + 2), seed: g.next_u64() }
            } else {
                Sc::PrimSegment { la, lb, start, end, seed: g.next_u64() }
            };
        }
        let kind = if g.coin() { Kind::TwoPoint } else { Kind::Uniform };
        let container = if g.chance(1, 8) { *g.pick(&[Container::BulkyArr, Container::BulkyTuple]) } else { *g.pick(&CONTAINERS) };
        let la = match g.below(8) {
            0 => 0,
            1 => 1,
            // longer genomes (word / block boundaries, arbitrary thresholds): rare, the cost grows with the length
            2 if g.chance(1, 25) => {
                if g.coin() {
                    *g.pick(&[31usize, 32, 33, 63, 64, 65, 127, 128, 129, 255, 256, 257, 1023, 1024, 1025])
                } else if g.chance(1, 40) {
                    // beyond 16 bits
                    *g.pick(&[65_535usize, 65_536, 65_537, 100_000, 131_073, 200_000])
                } else {
                    g.log_uniform(9, 20_000)
                }
            }
            _ => g.urange(0, 8),
        };
        // every fourth single-call scenario sweeps the lengths 0..=640 densely (by run index), so that a condition
        // on the length that is neither small nor a round number (len % 7 == 3, 41 <= len <= 47, ...) is met
        let la = if run % 4 == 1 { ((run / 4) % 641) as usize } else { la };
        let lb = if g.chance(1, 6) {
            if la > 8 && g.coin() { la + 1 - 2 * g.urange(0, 1) } else { g.urange(0, 8) }
        } else {
            la
        };
        let random_bits = if g.coin() { Some(g.next_u64()) } else { None };
        Sc::Xo { kind, container, la, lb, rng: RngSpec::swarm(g), random_bits }
    }

    fn execute(&self, sc: &Sc, obs: &mut Obs) -> Vec<Violation> {
        match sc {
            Sc::Xo { kind, container, la, lb, rng, random_bits } => {
                exec_xo(*kind, *container, *la, *lb, rng, *random_bits, obs)
            }
            Sc::PrimGene { la, lb, index, seed } => exec_prim_gene(*la, *lb, *index, *seed, obs),
            Sc::PrimSegment { la, lb, start, end, seed } => exec_prim_segment(*la, *lb, *start, *end, *seed, obs),
            Sc::Reach { container, len, n, seed } => exec_reach(*container, *len, *n, *seed, obs),
            Sc::Indep { container, len, n, seed, cells_total } => exec_indep(*container, *len, *n, *seed, *cells_total, obs),
            Sc::ZstXo { len, lb_less, tuple, rng } => exec_zst(*len, *lb_less, *tuple, rng, obs),
        }
    }

    fn chunk(&self) -> u64 {
        4
    }

    fn shrink(&self, sc: &Sc) -> Vec<Sc> {
        let mut out = Vec::new();
        if let Sc::Xo { kind, container, la, lb, rng, random_bits } = sc {
            let mk = |la: usize, lb: usize, rng: RngSpec, rb: Option<u64>| Sc::Xo {
                kind: *kind,
                container: *container,
                la,
                lb,
                rng,
                random_bits: rb,
            };
            if *la > 0 && *lb > 0 {
                out.push(mk(la - 1, lb - 1, rng.clone(), *random_bits));
            }
            if *la > 0 && la != lb {
                out.push(mk(la - 1, *lb, rng.clone(), *random_bits));
            }
            if *lb > 0 && la != lb {
                out.push(mk(*la, lb - 1, rng.clone(), *random_bits));
            }
            if random_bits.is_some() {
                out.push(mk(*la, *lb, rng.clone(), None));
            }
            if rng.q16 != 0 {
                out.push(mk(*la, *lb, RngSpec::seeded(rng.seed), *random_bits));
            }
            for s in 0..4u64 {
                if rng.seed != s {
                    out.push(mk(*la, *lb, RngSpec { seed: s, ..rng.clone() }, *random_bits));
                }
            }
        }
        out
    }

    fn extra_coverage(
        &self,
        _tier: Tier,
        _c: &std::collections::BTreeMap<String, u64>,
    ) -> serde_json::Map<String, serde_json::Value> {
        let mut m = serde_json::Map::new();
        m.insert("primitive_cells_enumerated".into(), serde_json::json!(self.prims.len()));
        m.insert(
            "reachability_note".into(),
            serde_json::json!("a segment of a length<=6 genome has probability >= 1/49 under any two-cut-point law; missing one in >= 5*10^4 draws has probability < 1e-440, so absence is treated as exact"),
        );
        m
    }

    fn assumptions(&self) -> Vec<String> {
        vec![
            "empty ranges (start == end) beyond the end and inverted ranges (start > end) may be accepted as no-ops or rejected; both genomes must be untouched and nothing may panic".into(),
            "segments are observed through tagged genes; for random bit parents only positions where the parents differ are informative".into(),
        ]
    }

    fn real_components(&self) -> Vec<&'static str> {
        vec!["ec-linear (TwoPointXo, UniformXo, Bitstring Crossover impl)", "rand 0.9.0 range sampling"]
    }

    fn stub_components(&self) -> Vec<&'static str> {
        vec!["SimRng / FastRng random streams"]
    }
}

fn main() {
    main_for(C10 { prims: enumerate_prims() });
}
