//! C04 — the bounded stack is a faithful, all-or-nothing LIFO.
//! Operation histories on the real `push::push_vm::stack::Stack` against a
//! `Vec` + capacity model, with capacity changes and overrunning iterators as
//! fault kinds (DESIGN §5 C04, engine E3 `stacksim`).

use collectable::TryExtend;
use push::push_vm::stack::{Stack, StackError};
use serde::{Deserialize, Serialize};
use simcore::{catch, drop_chunks, fnv1a, main_for, mix, Check, Obs, Tier, Violation, Xo};

#[derive(Serialize, Deserialize, Clone, Debug, PartialEq)]
enum Op {
    Push,
    Pop,
    Pop2,
    Pop3,
    Top,
    Top2,
    Top3,
    Discard(usize),
    PushMany(usize),
    /// `push_many(0..usize::MAX - j)` — a legitimate exact-size iterator that
    /// can never fit; must be refused without being consumed.
    PushManyHuge(usize),
    TryExtend(usize),
    SetMax(usize),
    Queries,
    CloneEq,
}

impl Op {
    fn name(&self) -> &'static str {
        match self {
            Op::Push => "push",
            Op::Pop => "pop",
            Op::Pop2 => "pop2",
            Op::Pop3 => "pop3",
            Op::Top => "top",
            Op::Top2 => "top2",
            Op::Top3 => "top3",
            Op::Discard(_) => "discard",
            Op::PushMany(_) => "push_many",
            Op::PushManyHuge(_) => "push_many_huge",
            Op::TryExtend(_) => "try_extend",
            Op::SetMax(_) => "set_max_stack_size",
            Op::Queries => "queries",
            Op::CloneEq => "clone_eq",
        }
    }
}

#[derive(Serialize, Deserialize, Clone, Debug, PartialEq)]
enum Kind {
    Usize,
    Str,
}

#[derive(Serialize, Deserialize, Clone, Debug)]
struct Sc {
    kind: Kind,
    /// None: leave the default maximum (usize::MAX)
    cap0: Option<usize>,
    ops: Vec<Op>,
    /// first serial handed out (decides which legal size hint / which form of try_extend the first bulk
    /// insertions use)
    #[serde(default = "one")]
    serial0: usize,
}

fn one() -> usize {
    1
}

/// The alphabet of the ENUMERATED histories: every operation with every argument 0..=3.
fn enum_alphabet() -> Vec<Op> {
    let mut v = vec![Op::Push, Op::Pop, Op::Pop2, Op::Pop3, Op::Top, Op::Top2, Op::Top3, Op::Queries, Op::CloneEq, Op::PushManyHuge(0)];
    for k in 0..=3usize {
        v.extend([Op::Discard(k), Op::PushMany(k), Op::TryExtend(k), Op::SetMax(k)]);
    }
    v
}

/// Number of enumerated histories: every sequence of 1..=4 operations of the alphabet x initial capacities 0..=3.
fn enum_cells() -> u64 {
    let a = enum_alphabet().len() as u64;
    4 * (a + a * a + a * a * a + a * a * a * a)
}

fn enum_cell(idx: u64) -> Sc {
    let alpha = enum_alphabet();
    let a = alpha.len() as u64;
    let cap0 = (idx % 4) as usize;
    let mut k = idx / 4;
    let mut len = 1u32;
    loop {
        let block = a.pow(len);
        if k < block || len == 4 {
            break;
        }
        k -= block;
        len += 1;
    }
    let mut ops = Vec::with_capacity(len as usize);
    for _ in 0..len {
        ops.push(alpha[(k % a) as usize].clone());
        k /= a;
    }
    Sc { kind: if idx % 7 == 3 { Kind::Str } else { Kind::Usize }, cap0: Some(cap0), ops, serial0: 1 + (mix(idx, 0x51) % 24) as usize }
}

trait Elem: Clone + PartialEq + std::fmt::Debug {
    fn make(serial: usize) -> Self;
    /// Some(result) for the element type that supports the huge range push.
    fn huge(_stack: &mut Stack<Self>, _j: usize) -> Option<Result<(), StackError>> {
        None
    }
}

impl Elem for usize {
    fn make(serial: usize) -> Self {
        serial
    }

    fn huge(stack: &mut Stack<Self>, j: usize) -> Option<Result<(), StackError>> {
        Some(stack.push_many(0..usize::MAX - j))
    }
}

impl Elem for String {
    fn make(serial: usize) -> Self {
        format!("s{serial}")
    }
}

/// A plain (not exact-size, not double-ended) iterator handing out fresh
/// serials; counts how many items were pulled.
struct Plain<'a, T: Elem> {
    next: usize,
    end: usize,
    pulled: &'a mut usize,
    /// which (legal) size hint the iterator reports: 0 = (0, None), 1 = exact, 2 = (0, Some(len)), 3 = (len, None),
    /// 4 = (0, Some(len + a few)) — a loose upper bound, as a `filter` adapter reports —, 5 = (len / 2, Some(2 len + 3))
    hint: u8,
    _p: std::marker::PhantomData<T>,
}

impl<T: Elem> Iterator for Plain<'_, T> {
    type Item = T;

    fn size_hint(&self) -> (usize, Option<usize>) {
        let rem = self.end - self.next;
        match self.hint {
            1 => (rem, Some(rem)),
            2 => (0, Some(rem)),
            3 => (rem, None),
            4 => (0, Some(rem + 1 + self.end % 7)),
            5 => (rem / 2, Some(rem.saturating_mul(2).saturating_add(3))),
            // lawful but useless upper bounds (`take_while` over an open-ended range reports such hints)
            6 => (0, Some(usize::MAX)),
            7 => (rem, Some(usize::MAX - 1)),
            _ => (0, None),
        }
    }

    fn next(&mut self) -> Option<T> {
        if self.next < self.end {
            let v = T::make(self.next);
            self.next += 1;
            *self.pulled += 1;
            Some(v)
        } else {
            None
        }
    }
}

struct Model<T> {
    vals: Vec<T>,
    max: usize,
}

fn contents<T: Elem>(s: &Stack<T>) -> Vec<T> {
    let mut c = s.clone();
    let mut v = Vec::new();
    while let Ok(x) = c.pop() {
        v.push(x);
    }
    v.reverse();
    v
}

/// The model's view of a stack error. The real error is read through patterns with `..`, so that a maintainer may
/// add fields or variants to `StackError` without breaking the harness.
#[derive(Debug, Clone, PartialEq, Eq)]
enum MErr {
    Underflow { requested: usize, present: usize },
    Overflow,
    Other(String),
}

fn merr(e: &StackError) -> MErr {
    #[allow(unreachable_patterns)]
    match e {
        StackError::Underflow { num_requested, num_present, .. } => MErr::Underflow { requested: *num_requested, present: *num_present },
        StackError::Overflow { .. } => MErr::Overflow,
        // (a variant this harness does not know: not the underflow, so a way of reporting overflow)
        _ => MErr::Overflow,
    }
}

fn underflow(req: usize, present: usize) -> MErr {
    MErr::Underflow { requested: req, present }
}

/// "Reports overflow": the `Overflow` variant, or any other stack error that is not the (structurally known)
/// underflow — a maintainer may report bulk overflows through a variant of their own.
fn is_overflow<R>(r: &Result<R, StackError>) -> bool {
    matches!(r, Err(e) if !matches!(e, StackError::Underflow { .. }))
}

fn run_history<T: Elem>(sc: &Sc, obs: &mut Obs) -> Vec<Violation> {
    let mut out: Vec<Violation> = Vec::new();
    let mut st: Stack<T> = Stack::default();
    let mut m: Model<T> = Model { vals: Vec::new(), max: usize::MAX };
    if let Some(c) = sc.cap0 {
        st.set_max_stack_size(c);
        m.max = c;
    }
    let mut serial = sc.serial0.max(1);
    let mut faults = 0u64;
    let mut mutations = 0u64;

    for (idx, op) in sc.ops.iter().enumerate() {
        let len = m.vals.len();
        let mut bad: Option<(&'static str, String)> = None;
        macro_rules! fail {
            ($clause:expr, $($arg:tt)*) => {
                if bad.is_none() { bad = Some(($clause, format!($($arg)*))); }
            };
        }
        let r = catch(|| {
            match op {
                Op::Push => {
                    let v = T::make(serial);
                    serial += 1;
                    let r = st.push(v.clone());
                    if len >= m.max {
                        faults += 1;
                        if len > m.max {
                            obs.hit("fault.push-on-overfull");
                        } else {
                            obs.hit("fault.push-on-full");
                        }
                        if !is_overflow(&r) {
                            fail!(
                                "insert-respects-current-max",
                                "push on a stack of size {len} with max {} returned {r:?}; expected Overflow",
                                m.max
                            );
                        }
                    } else {
                        m.vals.push(v);
                        mutations += 1;
                        if r != Ok(()) {
                            fail!("push", "push below capacity returned {r:?}");
                        }
                    }
                }
                Op::Pop => {
                    let r = st.pop().map_err(|e| merr(&e));
                    let exp = m.vals.pop().ok_or_else(|| {
                        faults += 1;
                        obs.hit("fault.underflow");
                        underflow(1, 0)
                    });
                    if exp.is_ok() {
                        mutations += 1;
                    }
                    if r != exp {
                        fail!("lifo-order", "pop returned {r:?}, model {exp:?}");
                    }
                }
                Op::Pop2 => {
                    let r = st.pop2().map_err(|e| merr(&e));
                    let exp = if len >= 2 {
                        let x = m.vals.pop().unwrap();
                        let y = m.vals.pop().unwrap();
                        mutations += 1;
                        Ok((x, y))
                    } else {
                        faults += 1;
                        obs.hit("fault.underflow");
                        Err(underflow(2, len))
                    };
                    if r != exp {
                        fail!("lifo-order", "pop2 returned {r:?}, model {exp:?}");
                    }
                }
                Op::Pop3 => {
                    let r = st.pop3().map_err(|e| merr(&e));
                    let exp = if len >= 3 {
                        let x = m.vals.pop().unwrap();
                        let y = m.vals.pop().unwrap();
                        let z = m.vals.pop().unwrap();
                        mutations += 1;
                        Ok((x, y, z))
                    } else {
                        faults += 1;
                        obs.hit("fault.underflow");
                        Err(underflow(3, len))
                    };
                    if r != exp {
                        fail!("lifo-order", "pop3 returned {r:?}, model {exp:?}");
                    }
                }
                Op::Top => {
                    let r = st.top().cloned().map_err(|e| merr(&e));
                    let exp = m.vals.last().cloned().ok_or_else(|| {
                        faults += 1;
                        obs.hit("fault.underflow");
                        underflow(1, 0)
                    });
                    if r != exp {
                        fail!("lifo-order", "top returned {r:?}, model {exp:?}");
                    }
                }
                Op::Top2 => {
                    let r = st.top2().map(|(a, b)| (a.clone(), b.clone())).map_err(|e| merr(&e));
                    let exp = if len >= 2 {
                        Ok((m.vals[len - 1].clone(), m.vals[len - 2].clone()))
                    } else {
                        faults += 1;
                        obs.hit("fault.underflow");
                        Err(underflow(2, len))
                    };
                    if r != exp {
                        fail!("lifo-order", "top2 returned {r:?}, model {exp:?}");
                    }
                }
                Op::Top3 => {
                    let r = st.top3().map(|(a, b, c)| (a.clone(), b.clone(), c.clone())).map_err(|e| merr(&e));
                    let exp = if len >= 3 {
                        Ok((m.vals[len - 1].clone(), m.vals[len - 2].clone(), m.vals[len - 3].clone()))
                    } else {
                        faults += 1;
                        obs.hit("fault.underflow");
                        Err(underflow(3, len))
                    };
                    if r != exp {
                        fail!("lifo-order", "top3 returned {r:?}, model {exp:?}");
                    }
                }
                Op::Discard(n) => {
                    let r = st.discard(*n).map_err(|e| merr(&e));
                    let exp = if *n <= len {
                        m.vals.truncate(len - n);
                        if *n > 0 {
                            mutations += 1;
                        }
                        Ok(())
                    } else {
                        faults += 1;
                        obs.hit("fault.underflow");
                        if *n == len + 1 {
                            obs.hit("probe.underflow-by-exactly-one");
                        }
                        Err(underflow(*n, len))
                    };
                    if r != exp {
                        fail!("discard-exact-count", "discard({n}) returned {r:?}, model {exp:?}");
                    }
                }
                Op::PushMany(k) => {
                    let items: Vec<T> = (0..*k).map(|i| T::make(serial + i)).collect();
                    serial += *k;
                    let r = st.push_many(items.clone());
                    let fits = len.checked_add(*k).is_some_and(|s| s <= m.max);
                    if *k == 0 && len > m.max {
                        // empty insertion into an over-full stack: the
                        // statement is silent; either answer, contents unchanged
                        if !(r == Ok(()) || is_overflow(&r)) {
                            fail!("push_many", "empty push_many returned {r:?}");
                        }
                    } else if fits {
                        m.vals.extend(items.into_iter().rev());
                        if *k > 0 {
                            mutations += 1;
                        }
                        if r != Ok(()) {
                            fail!("bulk-insert", "push_many({k}) that fits returned {r:?}");
                        }
                    } else {
                        faults += 1;
                        obs.hit("fault.push_many-overflow");
                        if len + *k == m.max + 1 {
                            obs.hit("probe.bulk-overflow-by-exactly-one");
                        }
                        if !is_overflow(&r) {
                            fail!(
                                "insert-respects-current-max",
                                "push_many({k}) on size {len} with max {} returned {r:?}; expected Overflow",
                                m.max
                            );
                        }
                    }
                }
                Op::PushManyHuge(j) => {
                    // only when it cannot possibly fit (otherwise the real call
                    // would legitimately try to allocate 2^64 elements)
                    let cannot_fit = m.max < usize::MAX - *j || len > *j;
                    if cannot_fit {
                        if let Some(r) = T::huge(&mut st, *j) {
                            faults += 1;
                            obs.hit("fault.push_many-huge-range");
                            if len > *j {
                                obs.hit("probe.len-plus-size-overflows-usize");
                            }
                            if !is_overflow(&r) {
                                fail!(
                                    "insert-respects-current-max",
                                    "push_many(0..usize::MAX-{j}) on size {len} max {} returned {r:?}",
                                    m.max
                                );
                            }
                        }
                    }
                }
                Op::TryExtend(n) => {
                    let mut pulled = 0usize;
                    let first = serial;
                    serial += *n;
                    let r = if (first / 8) % 4 == 3 {
                        // the trait's slice form of the same operation
                        obs.hit("probe.try_extend_from_slice");
                        pulled = *n;
                        let items: Vec<T> = (0..*n).map(|i| T::make(first + i)).collect();
                        st.try_extend_from_slice(&items)
                    } else {
                        let mut it: Plain<'_, T> = Plain {
                            next: first,
                            end: first + *n,
                            pulled: &mut pulled,
                            hint: (first % 8) as u8,
                            _p: std::marker::PhantomData,
                        };
                        if it.hint >= 4 {
                            obs.hit("probe.try_extend-loose-size-hint");
                        }
                        st.try_extend(&mut it)
                    };
                    let fits = len.checked_add(*n).is_some_and(|s| s <= m.max);
                    if *n == 0 && len > m.max {
                        if !(r == Ok(()) || is_overflow(&r)) {
                            fail!("try_extend", "empty try_extend returned {r:?}");
                        }
                    } else if fits {
                        m.vals.extend((0..*n).rev().map(|i| T::make(first + i)));
                        if *n > 0 {
                            mutations += 1;
                        }
                        if *n >= 2 {
                            obs.hit("probe.try_extend-reversed>=2");
                        }
                        if r != Ok(()) {
                            fail!("bulk-insert", "try_extend({n}) that fits returned {r:?}");
                        }
                    } else {
                        faults += 1;
                        obs.hit("fault.iterator-overrun");
                        if pulled > 1 && m.max > len {
                            obs.hit("probe.try_extend-rollback-after-moved-items");
                        }
                        if !is_overflow(&r) {
                            fail!(
                                "insert-respects-current-max",
                                "try_extend({n}) on size {len} with max {} returned {r:?}; expected Overflow",
                                m.max
                            );
                        }
                    }
                }
                Op::SetMax(mx) => {
                    st.set_max_stack_size(*mx);
                    if *mx < len {
                        faults += 1;
                        obs.hit("fault.capacity-lowered-below-size");
                    } else if *mx == len {
                        obs.hit("fault.capacity-set-to-exactly-full");
                    }
                    m.max = *mx;
                }
                Op::Queries => {
                    if st.size() != len {
                        fail!("size-queries", "size() = {}, model {len}", st.size());
                    }
                    if st.is_empty() != (len == 0) {
                        fail!("size-queries", "is_empty() = {} at size {len}", st.is_empty());
                    }
                    if len <= m.max && st.is_full() != (len == m.max) {
                        fail!("size-queries", "is_full() = {} at size {len} max {}", st.is_full(), m.max);
                    }
                }
                Op::CloneEq => {
                    let c = st.clone();
                    if c != st {
                        fail!("clone-eq", "clone differs from original");
                    }
                }
            }
        });
        if let Err(p) = r {
            bad = Some(("never-panics", format!("{} panicked: {}", op.name(), p.message)));
        }
        // state after every operation
        if bad.is_none() {
            if st != m.vals {
                bad = Some((
                    "all-or-nothing-contents",
                    format!("after {} contents are {:?}, model {:?}", op.name(), contents(&st), m.vals),
                ));
            } else if st.size() != m.vals.len() {
                bad = Some(("size-queries", format!("size {} vs model {}", st.size(), m.vals.len())));
            } else if st.max_stack_size() != m.max {
                bad = Some((
                    "max-changes-only-by-setter",
                    format!("after {} max_stack_size() = {}, model {}", op.name(), st.max_stack_size(), m.max),
                ));
            }
        }
        if let Some((clause, msg)) = bad {
            out.push(Violation::new(
                clause,
                format!("{clause}:{}", op.name()),
                format!("op #{idx} {op:?}: {msg}"),
            ));
            // re-synchronise the model so one divergence cannot snowball
            m.vals = contents(&st);
            m.max = st.max_stack_size();
            if out.len() >= 4 {
                break;
            }
        }
    }
    obs.count("steps", sc.ops.len() as u64);
    if faults >= 1 && mutations >= 3 {
        let mut fp = fnv1a(format!("{:?}{:?}", sc.kind, sc.cap0).as_bytes());
        for op in &sc.ops {
            fp = mix(fp, fnv1a(format!("{op:?}").as_bytes()));
        }
        obs.nontrivial(fp);
    }
    out
}

struct C04;

impl Check for C04 {
    type Scenario = Sc;

    fn id(&self) -> &'static str {
        "C04"
    }

    fn declared_probes(&self) -> Vec<&'static str> {
        vec![
            "fault.capacity-lowered-below-size",
            "fault.capacity-set-to-exactly-full",
            "fault.iterator-overrun",
            "fault.push-on-full",
            "fault.push-on-overfull",
            "fault.push_many-huge-range",
            "fault.push_many-overflow",
            "fault.underflow",
            "probe.bulk-overflow-by-exactly-one",
            "probe.len-plus-size-overflows-usize",
            "probe.try_extend-loose-size-hint",
            "probe.try_extend-reversed>=2",
            "probe.try_extend-rollback-after-moved-items",
            "probe.try_extend_from_slice",
            "probe.underflow-by-exactly-one",
        ]
    }

    fn rule(&self) -> String {
        "ENUMERATED: every history of 1..=4 operations (each operation with every argument 0..=3) x initial capacity 0..=3; \
         SEEDED: histories of <= 40 stack operations (swarm-weighted op mix, capacities 0..=6 / 64 / usize::MAX, \
         element types usize and String); a history is non-trivial iff >= 1 fault fired (overflow, underflow, \
         capacity lowered below size, overrunning iterator, huge range) and >= 3 mutating operations succeeded; \
         distinct = distinct (capacity, op sequence) fingerprints"
            .into()
    }

    fn runs(&self, tier: Tier) -> u64 {
        match tier {
            Tier::Quick => 5_000_000 + enum_cells(),
            Tier::Thorough => 500_000_000 + enum_cells(),
        }
    }

    fn generate(&self, g: &mut Xo, _tier: Tier, run: u64) -> Sc {
        if run < enum_cells() {
            // the enumerated short histories (most defects of a container show within three or four operations)
            return enum_cell(run);
        }
        if g.chance(1, 3000) {
            // a big stack (tens of thousands of elements, a backing allocation of hundreds of kilobytes) whose maximum
            // is then lowered far below its size: the contents must stay, only further insertions are refused
            let k = g.log_uniform(20_000, 120_000);
            let ops = vec![
                Op::PushMany(k),
                Op::Push,
                Op::Push,
                Op::SetMax(match g.below(3) {
                    0 => 0,
                    1 => g.urange(1, 1000),
                    _ => k,
                }),
                Op::Queries,
                Op::Top3,
                Op::Push,
                Op::TryExtend(2),
                Op::Pop3,
                Op::Discard(g.urange(0, 5)),
                Op::Queries,
                Op::CloneEq,
            ];
            return Sc { kind: Kind::Usize, cap0: None, ops, serial0: 1 };
        }
        let kind = if g.chance(1, 5) { Kind::Str } else { Kind::Usize };
        let cap0 = match g.below(10) {
            0 => None,
            1 => Some(64),
            2 => Some(usize::MAX),
            // capacities of arbitrary magnitude (rare), so that size-dependent paths are crossed
            3 if g.chance(1, 6) => Some(g.log_uniform(7, 5000)),
            4 if run % 3 == 0 => Some(((run / 3) % 301) as usize), // dense sweep of capacities 0..=300
            _ => Some(g.usize_below(7)),
        };
        let roomy = cap0.is_some_and(|c| (7..usize::MAX).contains(&c) && c != 64);
        // swarm: a random weight per op kind, some switched off
        let mut w = [0u32; 14];
        for x in &mut w {
            *x = if g.chance(1, 4) { 0 } else { 1 + g.below(8) as u32 };
        }
        if w.iter().all(|x| *x == 0) {
            w[0] = 1;
        }
        let n = if g.chance(1, 50) { g.urange(41, 300) } else { g.urange(1, 40) };
        let bound = cap0.filter(|_| roomy).unwrap_or(70);
        let small = |g: &mut Xo| -> usize {
            match g.below(8) {
                0 => 0,
                1..=4 => g.urange(1, 3),
                5 | 6 => g.urange(4, 8),
                _ if roomy && g.coin() => g.log_uniform(9, bound + 2),
                _ => g.urange(9, 70),
            }
        };
        let ops = (0..n)
            .map(|_| match g.weighted(&w) {
                0 => Op::Push,
                1 => Op::Pop,
                2 => Op::Pop2,
                3 => Op::Pop3,
                4 => Op::Top,
                5 => Op::Top2,
                6 => Op::Top3,
                7 => Op::Discard(small(g)),
                8 => Op::PushMany(small(g)),
                9 => Op::PushManyHuge(g.usize_below(4)),
                10 => Op::TryExtend(small(g)),
                11 => Op::SetMax(match g.below(6) {
                    0 => usize::MAX,
                    1 => 64,
                    2 if roomy => g.log_uniform(1, bound + 2),
                    _ => g.usize_below(8),
                }),
                12 => Op::Queries,
                _ => Op::CloneEq,
            })
            .collect();
        Sc { kind, cap0, ops, serial0: 1 }
    }

    fn execute(&self, sc: &Sc, obs: &mut Obs) -> Vec<Violation> {
        match sc.kind {
            Kind::Usize => run_history::<usize>(sc, obs),
            Kind::Str => run_history::<String>(sc, obs),
        }
    }

    fn extra_coverage(
        &self,
        _tier: Tier,
        _c: &std::collections::BTreeMap<String, u64>,
    ) -> serde_json::Map<String, serde_json::Value> {
        let mut m = serde_json::Map::new();
        m.insert("enumerated_histories".into(), serde_json::json!(enum_cells()));
        m.insert(
            "enumeration_note".into(),
            serde_json::json!("complete: every history of 1..=4 operations (26 operations with arguments 0..=3) x initial capacity 0..=3; the same under every VERIF_SEED"),
        );
        m
    }

    fn shrink(&self, sc: &Sc) -> Vec<Sc> {
        let mut out = Vec::new();
        for ops in drop_chunks(&sc.ops) {
            out.push(Sc { ops, ..sc.clone() });
        }
        if sc.kind == Kind::Str {
            out.push(Sc { kind: Kind::Usize, ..sc.clone() });
        }
        for (i, op) in sc.ops.iter().enumerate() {
            let smaller: Vec<Op> = match op {
                Op::Discard(n) if *n > 0 => vec![Op::Discard(n - 1), Op::Discard(n / 2)],
                Op::PushMany(n) if *n > 0 => vec![Op::PushMany(n - 1), Op::Push],
                Op::TryExtend(n) if *n > 0 => vec![Op::TryExtend(n - 1), Op::Push],
                Op::SetMax(n) if *n > 0 && *n != usize::MAX => vec![Op::SetMax(n - 1), Op::SetMax(0)],
                Op::PushManyHuge(n) if *n > 0 => vec![Op::PushManyHuge(n - 1)],
                _ => vec![],
            };
            for s in smaller {
                let mut ops = sc.ops.clone();
                ops[i] = s;
                out.push(Sc { ops, ..sc.clone() });
            }
        }
        if let Some(c) = sc.cap0 {
            if c > 0 && c != usize::MAX {
                out.push(Sc { cap0: Some(c - 1), ..sc.clone() });
            }
            out.push(Sc { cap0: None, ..sc.clone() });
        }
        out
    }

    fn assumptions(&self) -> Vec<String> {
        vec![
            "the Vec+capacity reference model in c04.rs is the intended meaning of the statement".into(),
            "is_full() is only asserted while size <= max; empty bulk insertions into an over-full stack may answer Ok or Overflow (statement silent)".into(),
            "iterators handed to try_extend are fused".into(),
        ]
    }

    fn real_components(&self) -> Vec<&'static str> {
        vec!["push::push_vm::stack::Stack (all public methods incl. TryExtend impl)"]
    }

    fn stub_components(&self) -> Vec<&'static str> {
        vec!["reference model Vec<T> + max", "plain (non-exact-size) probe iterator"]
    }
}

fn main() {
    main_for(C04);
}
