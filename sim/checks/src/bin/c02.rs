//! C02 — a failed instruction leaves the machine state untouched and is
//! skipped. (1) exhaustive boundary grid: every instruction variant × every
//! stack at size 0..=3 with capacity size/size+1/size+3; (2) resource faults
//! injected into running programs; (3) skip ≡ Noop on the real loop
//! (DESIGN §5 C02).

use checks::{
    vm::{
        build_real, snap, to_real, Caps, ExecOp, Ins, Lit, Prog, VmInit, ALL_BOOL_OPS,
        ALL_EXEC_OPS, ALL_FLOAT_OPS, ALL_INT_OPS, ALL_TY, F, VAL_TY,
    },
    vmgen::{self, gen_f64, gen_i64, Bias},
    vmsim::{self, Fault, Prop, VmSc},
};
use push::instruction::Instruction;
use serde::{Deserialize, Serialize};
use simcore::{catch, fnv1a, main_for, mix, Check, Obs, Tier, Violation, Xo};

#[derive(Serialize, Deserialize, Clone, Debug)]
enum Sc {
    Grid {
        prog: Prog,
        /// exec, int, float, bool
        sizes: [usize; 4],
        slack: [usize; 4],
        value_seed: u64,
    },
    Flight(VmSc),
    /// the helper functions instructions are written with (`HasStack::{not_full, with_push, with_replace}`,
    /// `PushOnto::{push_onto, replace_on}`, `StackPush::with_stack_push`, `StackDiscard::with_stack_discard`),
    /// called directly at the boundary states: they are how "the state handed back with the error" is produced
    /// a printing instruction on a user-defined state whose output refuses data beyond `room` bytes
    Custom { instr: u8, ints: usize, bools: usize, room: usize, value_seed: u64 },
    Helper {
        helper: u8,
        on_bool: bool,
        n: usize,
        sizes: [usize; 4],
        slack: [usize; 4],
        value_seed: u64,
    },
}

// ---------------------------------------------------------------------------
// a user-defined state type whose output can REFUSE data: the printing instructions are generic over the state
// (`HasStack<T> + HasStdout`), and `PushState`'s in-memory buffer never fails. Today a refused write panics (an
// `unwrap` the source marks as to-be-removed); whatever an implementation does instead, an instruction that hands
// back an ERROR must hand back the stacks it was given.

#[derive(Clone, Debug, PartialEq)]
struct Refusing {
    room: usize,
    /// take what fits (like a cursor over a fixed buffer) instead of all or nothing per call
    partial: bool,
    data: Vec<u8>,
}

impl std::io::Write for Refusing {
    fn write(&mut self, buf: &[u8]) -> std::io::Result<usize> {
        if self.partial && self.room > 0 && !buf.is_empty() {
            let n = buf.len().min(self.room);
            self.room -= n;
            self.data.extend_from_slice(&buf[..n]);
            return Ok(n);
        }
        // all or nothing per call
        if buf.len() > self.room {
            return Err(std::io::Error::new(std::io::ErrorKind::WriteZero, "output is full"));
        }
        self.room -= buf.len();
        self.data.extend_from_slice(buf);
        Ok(buf.len())
    }

    fn flush(&mut self) -> std::io::Result<()> {
        Ok(())
    }
}

#[derive(Clone, Debug, PartialEq)]
struct TinyState {
    int: push::push_vm::stack::Stack<i64>,
    bool: push::push_vm::stack::Stack<bool>,
    out: Refusing,
}

impl push::push_vm::stack::HasStack<i64> for TinyState {
    fn stack<U: push::push_vm::stack::TypeEq<This = i64>>(&self) -> &push::push_vm::stack::Stack<i64> {
        &self.int
    }

    fn stack_mut<U: push::push_vm::stack::TypeEq<This = i64>>(&mut self) -> &mut push::push_vm::stack::Stack<i64> {
        &mut self.int
    }
}

impl push::push_vm::stack::HasStack<bool> for TinyState {
    fn stack<U: push::push_vm::stack::TypeEq<This = bool>>(&self) -> &push::push_vm::stack::Stack<bool> {
        &self.bool
    }

    fn stack_mut<U: push::push_vm::stack::TypeEq<This = bool>>(&mut self) -> &mut push::push_vm::stack::Stack<bool> {
        &mut self.bool
    }
}

impl push::push_vm::push_io::HasStdout for TinyState {
    type Stdout = Refusing;

    fn stdout(&mut self) -> &mut Refusing {
        &mut self.out
    }
}

const CUSTOM_INSTRS: usize = 6;
const CUSTOM_CELLS: usize = CUSTOM_INSTRS * 4 * 3 * 16;

fn exec_custom(instr: u8, ints: usize, bools: usize, room: usize, value_seed: u64, obs: &mut Obs) -> Vec<Violation> {
    use push::instruction::printing::{Print, PrintChar, PrintLn, PrintString};
    let mut g = Xo::from_seed(value_seed);
    let mut st = TinyState { int: push::push_vm::stack::Stack::default(), bool: push::push_vm::stack::Stack::default(), out: Refusing { room: room % 8, partial: room >= 8, data: Vec::new() } };
    for _ in 0..ints {
        let _ = st.int.push(gen_i64(&mut g));
    }
    for _ in 0..bools {
        let _ = st.bool.push(g.coin());
    }
    let pre = st.clone();
    let name = ["Print<i64>", "PrintLn<i64>", "Print<bool>", "PrintLn<bool>", "PrintChar<'x'>", "PrintString"][instr as usize % CUSTOM_INSTRS];
    type R = push::error::InstructionResult<TinyState, push::instruction::instruction_error::PushInstructionError>;
    let r: Result<R, _> = catch(move || match instr as usize % CUSTOM_INSTRS {
        0 => Print::<i64>::new().perform(st),
        1 => PrintLn::<i64>::new().perform(st),
        2 => Print::<bool>::new().perform(st),
        3 => PrintLn::<bool>::new().perform(st),
        4 => PrintChar::<'x'>.perform(st),
        _ => PrintString("hello".to_string()).perform(st),
    });
    obs.count("steps", 1);
    obs.hit("probe.user-defined-state-with-refusing-output");
    let mut out = Vec::new();
    match r {
        Err(_) => obs.hit("probe.refused-write-panics(today's-behaviour)"),
        Ok(Ok(_)) => {}
        Ok(Err(e)) => {
            obs.hit("fault.custom-state-instruction-failed");
            obs.nontrivial(mix(fnv1a(name.as_bytes()), (ints * 64 + bools * 8 + room) as u64));
            // the causes the statement lists are missing operands, arithmetic faults and full destination STACKS: when
            // the operand is missing, everything (the output included) must be as before; when the operand is there,
            // the only thing that can have failed is the write, which is none of those causes — what a print does with
            // its operand when its output refuses the text is not judged (today it panics)
            let operand_missing = match instr as usize % CUSTOM_INSTRS {
                0 | 1 => ints == 0,
                2 | 3 => bools == 0,
                _ => false,
            };
            if !operand_missing {
                obs.hit("probe.refused-write-reported-as-an-error(not-judged)");
                return out;
            }
            let output_differs = e.state().out != pre.out;
            if e.state().int != pre.int || e.state().bool != pre.bool || output_differs {
                out.push(Violation::new(
                    "error-state-unchanged",
                    format!("error-state:custom-state:{name}"),
                    format!(
                        "{name} on a user-defined state (output with room for {} bytes{}) failed ({}), but the state handed back differs: before int {:?} bool {:?} output {:?} | carried int {:?} bool {:?} output {:?}",
                        room % 8,
                        if room >= 8 { ", taking what fits" } else { ", all or nothing per write" },
                        e.error(),
                        pre.int,
                        pre.bool,
                        String::from_utf8_lossy(&pre.out.data),
                        e.state().int,
                        e.state().bool,
                        String::from_utf8_lossy(&e.state().out.data)
                    ),
                ));
            }
        }
    }
    out
}

const HELPERS: usize = 8;
const HELPER_CELLS: usize = HELPERS * 2 * 5 * STATES_PER_STACK;

fn helper_cell(cell: usize, g: &mut Xo) -> Sc {
    let mut c = cell % HELPER_CELLS;
    let helper = (c % HELPERS) as u8;
    c /= HELPERS;
    let on_bool = c % 2 == 1;
    c /= 2;
    let n = c % 5;
    c /= 5;
    let mut sizes = [0usize; 4];
    let mut slack = [0usize; 4];
    for k in 0..4 {
        sizes[k] = g.urange(0, 3);
        slack[k] = *g.pick(&SLACKS);
    }
    let k = if on_bool { 3 } else { 1 };
    sizes[k] = c / 3;
    slack[k] = SLACKS[c % 3];
    Sc::Helper { helper, on_bool, n, sizes, slack, value_seed: g.next_u64() }
}

fn grid_state(sizes: [usize; 4], slack: [usize; 4], g: &mut Xo) -> Option<push::push_vm::push_state::PushState> {
    let filler = [Prog::I(Ins::Exec(ExecOp::Noop)), Prog::B(vec![Prog::I(Ins::PushBool(false))])];
    let init = VmInit {
        caps: Caps { exec: sizes[0] + slack[0], int: sizes[1] + slack[1], float: sizes[2] + slack[2], bool: sizes[3] + slack[3] },
        int: (0..sizes[1]).map(|_| gen_i64(g)).collect(),
        float: (0..sizes[2]).map(|_| F::of(gen_f64(g))).collect(),
        bool: (0..sizes[3]).map(|_| g.coin()).collect(),
        program: (0..sizes[0]).map(|k| filler[k % 2].clone()).collect(),
        inputs: vec![("i0".into(), Lit::Int(gen_i64(g)))],
        limit: 10,
        wrap: 0,
        giant: 0,
    };
    build_real(&init).ok()
}

/// One helper call on stack type `T`; the expected result is computed from the contents before the call.
fn helper_on<T>(helper: u8, n: usize, state: push::push_vm::push_state::PushState, v: T, obs: &mut Obs) -> Vec<Violation>
where
    T: Clone + PartialEq + std::fmt::Debug + std::panic::UnwindSafe + 'static,
    push::push_vm::push_state::PushState: push::push_vm::stack::HasStack<T>,
{
    use push::{
        error::{Error, InstructionResult},
        push_vm::{
            push_state::PushState,
            stack::{HasStack, PushOnto, StackDiscard, StackError, StackPush},
        },
    };
    let pre = state.clone();
    let before: Vec<T> = {
        let mut c = HasStack::<T>::stack::<T>(&pre).clone();
        let mut v = Vec::new();
        while let Ok(x) = c.pop() {
            v.push(x);
        }
        v // top first
    };
    let max = HasStack::<T>::stack::<T>(&pre).max_stack_size();
    let name = ["not_full", "with_push", "with_replace", "push_onto", "replace_on", "push_onto(Err)", "with_stack_push", "with_stack_discard"]
        [helper as usize % HELPERS];
    let vv = v.clone();
    let r: Result<InstructionResult<PushState, StackError>, _> = catch(move || match helper % HELPERS as u8 {
        0 => HasStack::<T>::not_full::<T>(state),
        1 => HasStack::<T>::with_push(state, vv),
        2 => HasStack::<T>::with_replace(state, n, vv),
        3 => Ok::<T, StackError>(vv).push_onto(state),
        4 => Ok::<T, StackError>(vv).replace_on(n, state),
        5 => Err::<T, StackError>(StackError::Underflow { num_requested: 1, num_present: 0 }).push_onto(state),
        6 => Ok::<PushState, Error<PushState, StackError>>(state).with_stack_push(vv),
        _ => Ok::<PushState, Error<PushState, StackError>>(state).with_stack_discard::<T>(n),
    });
    // expected contents (top first) on success; None = must fail
    let expected: Option<Vec<T>> = match helper % HELPERS as u8 {
        0 => (before.len() < max).then(|| before.clone()),
        1 | 3 | 6 => (before.len() < max).then(|| std::iter::once(v.clone()).chain(before.iter().cloned()).collect()),
        2 | 4 => (n <= before.len() && before.len() - n < max)
            .then(|| std::iter::once(v.clone()).chain(before[n..].iter().cloned()).collect()),
        5 => None,
        _ => (n <= before.len()).then(|| before[n..].to_vec()),
    };
    let mut out = Vec::new();
    obs.count("steps", 1);
    obs.hit("probe.helper-calls");
    match r {
        Err(p) => out.push(Violation::new(
            "never-panics",
            format!("panic:helper:{name}"),
            format!("{name}({n}) panicked in {}: {}", describe(&pre), p.message),
        )),
        Ok(Ok(post)) => {
            let after: Vec<T> = {
                let mut c = HasStack::<T>::stack::<T>(&post).clone();
                let mut v = Vec::new();
                while let Ok(x) = c.pop() {
                    v.push(x);
                }
                v
            };
            match expected {
                None => out.push(Violation::new(
                    "error-state-unchanged",
                    format!("helper-should-fail:{name}"),
                    format!("{name}({n}) succeeded in {} although it cannot be carried out; after: {}", describe(&pre), describe(&post)),
                )),
                Some(e) if e != after => out.push(Violation::new(
                    "error-state-unchanged",
                    format!("helper-result:{name}"),
                    format!("{name}({n}) in {} gave {after:?}, expected {e:?}", describe(&pre)),
                )),
                Some(_) => {}
            }
        }
        Ok(Err(e)) => {
            obs.hit("fault.helper-failure");
            obs.nontrivial(mix(fnv1a(name.as_bytes()), (n * 64 + before.len() * 8 + max.min(7)) as u64));
            if *e.state() != pre {
                out.push(Violation::new(
                    "error-state-unchanged",
                    format!("error-state:helper:{name}"),
                    format!(
                        "{name}({n}) failed ({}) but the carried state differs from the state before it: before {} | carried {}",
                        e.error(),
                        describe(&pre),
                        describe(e.state())
                    ),
                ));
            } else if expected.is_some() {
                out.push(Violation::new(
                    "error-state-unchanged",
                    format!("helper-should-succeed:{name}"),
                    format!("{name}({n}) failed ({}) in {} although it can be carried out", e.error(), describe(&pre)),
                ));
            }
        }
    }
    out
}

fn all_variants() -> Vec<Prog> {
    let mut v: Vec<Ins> = Vec::new();
    for t in ALL_TY {
        v.extend([Ins::Pop(t), Ins::Dup(t), Ins::Swap(t), Ins::IsEmpty(t), Ins::Depth(t), Ins::Flush(t)]);
    }
    v.extend([
        Ins::PushInt(0),
        Ins::PushFloat(F::of(0.0)),
        Ins::PushBool(true),
        Ins::PushExec(Box::new(Prog::I(Ins::Exec(ExecOp::Noop)))),
        Ins::PushExec(Box::new(Prog::B(vec![Prog::I(Ins::PushInt(1))]))),
    ]);
    for t in VAL_TY {
        v.extend([Ins::Print(t), Ins::PrintLn(t)]);
    }
    v.extend(ALL_INT_OPS.iter().map(|o| Ins::Int(*o)));
    v.extend(ALL_FLOAT_OPS.iter().map(|o| Ins::Float(*o)));
    v.extend(ALL_BOOL_OPS.iter().map(|o| Ins::Bool(*o)));
    v.extend(ALL_EXEC_OPS.iter().map(|o| Ins::Exec(*o)));
    v.extend([Ins::PrintSpace, Ins::PrintNewline, Ins::PrintPeriod, Ins::PrintString("xy".into())]);
    v.extend([Ins::Input("i0".into()), Ins::Input("f0".into()), Ins::Input("b0".into())]);
    let mut out: Vec<Prog> = v.into_iter().map(Prog::I).collect();
    for n in 0..=3 {
        out.push(Prog::B((0..n).map(|k| Prog::I(Ins::PushInt(k))).collect()));
    }
    out
}

const SLACKS: [usize; 3] = [0, 1, 3];
const STATES_PER_STACK: usize = 12; // 4 sizes × 3 slacks
const STATES: usize = STATES_PER_STACK * STATES_PER_STACK * STATES_PER_STACK * STATES_PER_STACK;

fn grid_cell(variants: &[Prog], cell: usize, value_seed: u64) -> Sc {
    let prog = variants[cell / STATES].clone();
    let mut st = cell % STATES;
    let mut sizes = [0usize; 4];
    let mut slack = [0usize; 4];
    for k in 0..4 {
        let x = st % STATES_PER_STACK;
        st /= STATES_PER_STACK;
        sizes[k] = x / 3;
        slack[k] = SLACKS[x % 3];
    }
    Sc::Grid { prog, sizes, slack, value_seed }
}

fn exec_grid(prog: &Prog, sizes: [usize; 4], slack: [usize; 4], value_seed: u64, obs: &mut Obs) -> Vec<Violation> {
    let mut g = Xo::from_seed(value_seed);
    let caps = Caps {
        exec: sizes[0] + slack[0],
        int: sizes[1] + slack[1],
        float: sizes[2] + slack[2],
        bool: sizes[3] + slack[3],
    };
    let filler = [
        Prog::I(Ins::Exec(ExecOp::Noop)),
        Prog::B(vec![Prog::I(Ins::PushBool(false))]),
        Prog::I(Ins::Int(checks::vm::IntOp::Add)),
    ];
    let init = VmInit {
        caps,
        int: (0..sizes[1]).map(|_| gen_i64(&mut g)).collect(),
        float: (0..sizes[2]).map(|_| F::of(gen_f64(&mut g))).collect(),
        bool: (0..sizes[3]).map(|_| g.coin()).collect(),
        program: (0..sizes[0]).map(|k| filler[k % 3].clone()).collect(),
        inputs: vec![
            ("i0".into(), Lit::Int(gen_i64(&mut g))),
            ("f0".into(), Lit::Float(F::of(gen_f64(&mut g)))),
            ("b0".into(), Lit::Bool(g.coin())),
        ],
        limit: 10,
        wrap: 0,
        giant: 0,
    };
    let Ok(state) = build_real(&init) else {
        return vec![Violation::new(
            "harness",
            "grid-build-failed",
            format!("builder rejected a grid state {init:?}"),
        )];
    };
    let pre = state.clone();
    let real_prog = to_real(prog);
    let name = checks::vm::prog_name(prog);
    obs.count("steps", 1);
    let r = catch(move || real_prog.perform(state));
    let mut out = Vec::new();
    match r {
        Err(p) => out.push(Violation::new(
            "never-panics",
            format!("panic:{name}"),
            format!("{name} panicked in {}: {}", describe(&pre), p.message),
        )),
        Ok(Ok(_)) => {}
        Ok(Err(e)) => {
            if e.is_recoverable() {
                obs.hit("fault.grid-recoverable-failure");
            } else {
                obs.hit("fault.grid-fatal-failure");
            }
            let mut fp = fnv1a(name.as_bytes());
            for k in 0..4 {
                fp = mix(fp, (sizes[k] * 8 + slack[k]) as u64);
            }
            obs.nontrivial(fp);
            if *e.state() != pre {
                out.push(Violation::new(
                    "error-state-unchanged",
                    format!("error-state:{name}"),
                    format!(
                        "{name} failed ({}, recoverable={}) but the carried state differs from the state before it: before {} | carried {}",
                        e.error(),
                        e.is_recoverable(),
                        describe(&pre),
                        describe(e.state())
                    ),
                ));
            }
        }
    }
    out
}

fn describe(s: &push::push_vm::push_state::PushState) -> String {
    let sn = snap(s);
    format!(
        "int={:?} float={:?} bool={:?} exec_len={} out={:?} caps={:?}",
        sn.int,
        sn.float.iter().map(|b| f64::from_bits(*b)).collect::<Vec<_>>(),
        sn.bool,
        sn.exec_len,
        sn.out,
        sn.caps
    )
}

const HELPER_RUNS: u64 = 16 * HELPER_CELLS as u64;

struct C02 {
    variants: Vec<Prog>,
}

impl C02 {
    fn cells(&self) -> u64 {
        (self.variants.len() * STATES) as u64
    }

    fn grid_runs(&self, tier: Tier) -> u64 {
        self.cells() * if tier == Tier::Quick { 1 } else { 16 }
    }
}

impl Check for C02 {
    type Scenario = Sc;

    fn id(&self) -> &'static str {
        "C02"
    }

    fn level(&self) -> &'static str {
        "fault_enumeration"
    }

    fn declared_probes(&self) -> Vec<&'static str> {
        vec![
            "fault.grid-fatal-failure",
            "fault.grid-recoverable-failure",
            "fault.helper-failure",
            "probe.user-defined-state-with-refusing-output",
            "probe.helper-calls",
        ]
    }

    fn rule(&self) -> String {
        format!(
            "(1) enumerated grid: {} instruction variants (every variant of every family, literal/exec pushes, inputs, blocks of 0-3 items) \
             x 12^4 boundary states (each of exec/int/float/bool at size 0..=3 with capacity size, size+1, size+3), values from \
             boundary pools (1 draw per cell quick, 16 thorough), every cell performed on the real code; (1b) the 8 helper functions instructions are written with (not_full, with_push, with_replace, push_onto, replace_on, with_stack_push, with_stack_discard) called directly with n = 0..=4 on the int and bool stacks at the same boundary shapes; (2) seeded programs with \
             capacity-shrink / operand-starve faults between steps and skip-equals-Noop comparisons on the real loop. \
             Non-trivial iff an instruction actually failed (returned Err); distinct = distinct (instruction, state shape) cells \
             resp. scenario fingerprints",
            self.variants.len()
        )
    }

    fn runs(&self, tier: Tier) -> u64 {
        self.grid_runs(tier)
            + HELPER_RUNS
            + vmgen::operand_cells() as u64
            + vmgen::small_cells() as u64
            + match tier {
                Tier::Quick => 400_000,
                Tier::Thorough => 40_000_000,
            }
    }

    fn generate(&self, g: &mut Xo, tier: Tier, run: u64) -> Sc {
        let grid = self.grid_runs(tier);
        if run < grid {
            grid_cell(&self.variants, (run % self.cells()) as usize, g.next_u64())
        } else if run < grid + HELPER_RUNS && (run - grid) < (4 * CUSTOM_CELLS) as u64 {
            // (the first helper runs are given to the user-defined state: 4 value draws per cell)
            let c = ((run - grid) as usize) % CUSTOM_CELLS;
            Sc::Custom { instr: (c % CUSTOM_INSTRS) as u8, ints: (c / CUSTOM_INSTRS) % 4, bools: (c / CUSTOM_INSTRS / 4) % 3, room: c / CUSTOM_INSTRS / 12, value_seed: g.next_u64() }
        } else if run < grid + HELPER_RUNS {
            helper_cell((run - grid) as usize, g)
        } else if run < grid + HELPER_RUNS + vmgen::operand_cells() as u64 {
            // the enumerated operand grid (every int / float instruction x every ordered pair of boundary literals)
            Sc::Flight(vmgen::gen_operand_cell((run - grid - HELPER_RUNS) as usize))
        } else if run < grid + HELPER_RUNS + (vmgen::operand_cells() + vmgen::small_cells()) as u64 {
            // the small-scope enumeration of exec-structural programs
            Sc::Flight(vmgen::gen_small_cell((run - grid - HELPER_RUNS) as usize - vmgen::operand_cells()))
        } else {
            let mut sc = vmgen::gen_scenario(g, Bias::Balanced);
            // bias: faults land right before instructions, early in the program
            if sc.faults.is_empty() {
                for _ in 0..g.urange(1, 4) {
                    let step = g.urange(0, 12);
                    if g.coin() {
                        sc.faults.push(Fault::CapShrink { step, ty: *g.pick(&ALL_TY), slack: g.urange(0, 1) });
                    } else {
                        sc.faults.push(Fault::Starve { step, ty: *g.pick(&VAL_TY), keep: g.urange(0, 2) });
                    }
                }
            }
            Sc::Flight(sc)
        }
    }

    fn execute(&self, sc: &Sc, obs: &mut Obs) -> Vec<Violation> {
        match sc {
            Sc::Grid { prog, sizes, slack, value_seed } => {
                obs.hit("grid-cells");
                exec_grid(prog, *sizes, *slack, *value_seed, obs)
            }
            Sc::Custom { instr, ints, bools, room, value_seed } => exec_custom(*instr, *ints, *bools, *room, *value_seed, obs),
            Sc::Helper { helper, on_bool, n, sizes, slack, value_seed } => {
                let mut g = Xo::from_seed(*value_seed);
                let Some(state) = grid_state(*sizes, *slack, &mut g) else { return Vec::new() };
                if *on_bool {
                    helper_on::<bool>(*helper, *n, state, g.coin(), obs)
                } else {
                    helper_on::<i64>(*helper, *n, state, gen_i64(&mut g), obs)
                }
            }
            Sc::Flight(v) => {
                let c = |o: &Obs, k: &str| o.counters.get(k).copied().unwrap_or(0);
                let f0 = c(obs, "probe.recoverable-error") + c(obs, "probe.fatal-error");
                let tagged = vmsim::simulate(v, obs);
                if c(obs, "probe.recoverable-error") + c(obs, "probe.fatal-error") > f0 {
                    obs.nontrivial(fnv1a(format!("{v:?}").as_bytes()));
                }
                tagged.into_iter().filter(|t| t.prop == Prop::C02).map(|t| t.v).collect()
            }
        }
    }

    fn shrink(&self, sc: &Sc) -> Vec<Sc> {
        match sc {
            Sc::Grid { .. } | Sc::Helper { .. } | Sc::Custom { .. } => Vec::new(),
            Sc::Flight(v) => vmgen::shrink(v).into_iter().map(Sc::Flight).collect(),
        }
    }

    fn extra_coverage(
        &self,
        tier: Tier,
        _c: &std::collections::BTreeMap<String, u64>,
    ) -> serde_json::Map<String, serde_json::Value> {
        let mut m = serde_json::Map::new();
        m.insert("grid_cells".into(), serde_json::json!(self.cells()));
        m.insert("grid_value_draws_per_cell".into(), serde_json::json!(if tier == Tier::Quick { 1 } else { 16 }));
        m.insert(
            "exhaustive".into(),
            serde_json::json!(false),
        );
        m.insert(
            "exhaustive_note".into(),
            serde_json::json!("the (instruction, state-shape) grid is enumerated completely; the values in the stacks and the in-flight part are sampled"),
        );
        m
    }

    fn assumptions(&self) -> Vec<String> {
        vec![
            "over-full stacks (size > capacity) are not states reachable by a program and are not generated (C04 covers the stack itself)".into(),
            "state equality is the derived PartialEq of PushState (all four stacks with capacities, output cursor, inputs, step limit)".into(),
        ]
    }

    fn real_components(&self) -> Vec<&'static str> {
        vec!["push (every Instruction::perform, error::Error::state, try_recover, run_to_completion)"]
    }

    fn stub_components(&self) -> Vec<&'static str> {
        vec!["pushmodel (only to keep the in-flight runs aligned; the C02 oracles need no model)"]
    }
}

fn main() {
    main_for(C02 { variants: all_variants() });
}
