//! `pushmodel` — an independent small-step reference interpreter for Push,
//! written from the property statements and the rustdoc action tables
//! (DESIGN Appendix A). It works on plain `Vec`s and shares no helper with the
//! implementation. `perform` returns the *set* of allowed outcomes: a
//! singleton almost everywhere, wider exactly where the statements are silent
//! (DESIGN §8).

use std::collections::BTreeMap;

use crate::vm::{canon, BoolOp, ExecOp, FloatOp, Ins, IntOp, Lit, Prog, Ty, VmInit};

#[derive(Clone, Copy, Debug, PartialEq, Eq)]
pub enum Class {
    Ok,
    Recoverable,
    Fatal,
}

#[derive(Clone, Debug)]
pub struct M {
    pub int: Vec<i64>,
    pub float: Vec<f64>,
    pub bool: Vec<bool>,
    pub exec: Vec<Prog>,
    /// exec, int, float, bool
    pub caps: [usize; 4],
    pub out: String,
    pub inputs: BTreeMap<String, Lit>,
}

impl M {
    pub fn from_init(init: &VmInit) -> Self {
        let mut inputs = BTreeMap::new();
        for (n, l) in &init.inputs {
            inputs.insert(n.clone(), l.clone());
        }
        Self {
            int: init.int.iter().rev().copied().collect(),
            float: init.float.iter().rev().map(|f| f.get()).collect(),
            bool: init.bool.iter().rev().copied().collect(),
            exec: crate::vm::effective_program(init).into_iter().rev().collect(),
            caps: [init.caps.exec, init.caps.int, init.caps.float, init.caps.bool],
            out: String::new(),
            inputs,
        }
    }

    pub fn len(&self, t: Ty) -> usize {
        match t {
            Ty::Exec => self.exec.len(),
            Ty::Int => self.int.len(),
            Ty::Float => self.float.len(),
            Ty::Bool => self.bool.len(),
        }
    }

    pub fn cap(&self, t: Ty) -> usize {
        match t {
            Ty::Exec => self.caps[0],
            Ty::Int => self.caps[1],
            Ty::Float => self.caps[2],
            Ty::Bool => self.caps[3],
        }
    }

    pub fn set_cap(&mut self, t: Ty, c: usize) {
        match t {
            Ty::Exec => self.caps[0] = c,
            Ty::Int => self.caps[1] = c,
            Ty::Float => self.caps[2] = c,
            Ty::Bool => self.caps[3] = c,
        }
    }

    pub fn full(&self, t: Ty) -> bool {
        self.len(t) >= self.cap(t)
    }

    pub fn truncate(&mut self, t: Ty, keep: usize) {
        match t {
            Ty::Exec => self.exec.truncate(keep),
            Ty::Int => self.int.truncate(keep),
            Ty::Float => self.float.truncate(keep),
            Ty::Bool => self.bool.truncate(keep),
        }
    }

    pub fn float_bits(&self) -> Vec<u64> {
        self.float.iter().map(|f| canon(*f)).collect()
    }
}

#[derive(Clone, Debug)]
pub struct Outcome {
    pub class: Class,
    pub state: M,
}

fn ok(state: M) -> Outcome {
    Outcome { class: Class::Ok, state }
}

fn rec(m: &M) -> Vec<Outcome> {
    vec![Outcome { class: Class::Recoverable, state: m.clone() }]
}

fn fatal(m: &M) -> Vec<Outcome> {
    vec![Outcome { class: Class::Fatal, state: m.clone() }]
}

fn either(m: &M) -> Vec<Outcome> {
    vec![
        Outcome { class: Class::Recoverable, state: m.clone() },
        Outcome { class: Class::Fatal, state: m.clone() },
    ]
}

/// Guard for an instruction that reads `need` operands from `src` and pushes
/// one result onto a *different* stack `dst`. Returns Some(outcomes) when it
/// cannot run.
fn cross_guard(m: &M, src: Ty, need: usize, dst: Ty) -> Option<Vec<Outcome>> {
    let missing = m.len(src) < need;
    let full = m.full(dst);
    match (missing, full) {
        (true, true) => Some(either(m)),
        (true, false) => Some(rec(m)),
        (false, true) => Some(fatal(m)),
        (false, false) => None,
    }
}

fn floor_div(x: i64, y: i64) -> Option<i64> {
    let q = x.checked_div(y)?;
    let r = x.checked_rem(y)?;
    if r != 0 && ((r < 0) != (y < 0)) {
        q.checked_sub(1)
    } else {
        Some(q)
    }
}

fn floor_mod(x: i64, y: i64) -> Option<i64> {
    let r = x.checked_rem(y)?;
    if r != 0 && ((r < 0) != (y < 0)) {
        r.checked_add(y)
    } else {
        Some(r)
    }
}

fn next_up(x: f64) -> f64 {
    if x.is_nan() || x == f64::INFINITY {
        return x;
    }
    let b = x.to_bits();
    let nb = if x == 0.0 {
        1
    } else if x > 0.0 {
        b + 1
    } else {
        b - 1
    };
    f64::from_bits(nb)
}

fn next_down(x: f64) -> f64 {
    -next_up(-x)
}

/// The outcomes allowed for performing `p` in state `m` (`m` = the state after
/// the interpreter popped `p` from exec).
pub fn perform(m: &M, p: &Prog) -> Vec<Outcome> {
    match p {
        Prog::B(items) => {
            // items[0] must end up on top; all or nothing
            let fits = items.len().checked_add(m.exec.len()).is_some_and(|s| s <= m.caps[0]);
            if !fits {
                return fatal(m);
            }
            let mut s = m.clone();
            s.exec.extend(items.iter().rev().cloned());
            vec![ok(s)]
        }
        Prog::I(i) => perform_ins(m, i),
    }
}

fn push_lit(m: &M, l: &Lit) -> Vec<Outcome> {
    let mut s = m.clone();
    match l {
        Lit::Int(v) => {
            if m.full(Ty::Int) {
                return fatal(m);
            }
            s.int.push(*v);
        }
        Lit::Float(v) => {
            if m.full(Ty::Float) {
                return fatal(m);
            }
            s.float.push(v.get());
        }
        Lit::Bool(v) => {
            if m.full(Ty::Bool) {
                return fatal(m);
            }
            s.bool.push(*v);
        }
    }
    vec![ok(s)]
}

#[allow(clippy::too_many_lines)]
fn perform_ins(m: &M, i: &Ins) -> Vec<Outcome> {
    let mut s = m.clone();
    match i {
        Ins::Pop(t) => {
            let n = m.len(*t);
            if n == 0 {
                return rec(m);
            }
            s.truncate(*t, n - 1);
            vec![ok(s)]
        }
        Ins::Dup(t) => {
            let n = m.len(*t);
            if n == 0 {
                // empty and (capacity 0 ⇒) full at once: the statement does not
                // say which fault wins
                return if m.full(*t) { either(m) } else { rec(m) };
            }
            if m.full(*t) {
                return fatal(m);
            }
            match t {
                Ty::Int => s.int.push(m.int[n - 1]),
                Ty::Float => s.float.push(m.float[n - 1]),
                Ty::Bool => s.bool.push(m.bool[n - 1]),
                Ty::Exec => s.exec.push(m.exec[n - 1].clone()),
            }
            vec![ok(s)]
        }
        Ins::Swap(t) => {
            let n = m.len(*t);
            if n < 2 {
                return rec(m);
            }
            match t {
                Ty::Int => s.int.swap(n - 1, n - 2),
                Ty::Float => s.float.swap(n - 1, n - 2),
                Ty::Bool => s.bool.swap(n - 1, n - 2),
                Ty::Exec => s.exec.swap(n - 1, n - 2),
            }
            vec![ok(s)]
        }
        Ins::IsEmpty(t) => {
            if m.full(Ty::Bool) {
                return fatal(m);
            }
            s.bool.push(m.len(*t) == 0);
            vec![ok(s)]
        }
        Ins::Depth(t) => {
            if m.full(Ty::Int) {
                return fatal(m);
            }
            s.int.push(i64::try_from(m.len(*t)).unwrap_or(i64::MAX));
            vec![ok(s)]
        }
        Ins::Flush(t) => {
            s.truncate(*t, 0);
            vec![ok(s)]
        }
        Ins::PushInt(v) => push_lit(m, &Lit::Int(*v)),
        Ins::PushFloat(v) => push_lit(m, &Lit::Float(*v)),
        Ins::PushBool(v) => push_lit(m, &Lit::Bool(*v)),
        Ins::PushExec(p) => {
            if m.full(Ty::Exec) {
                return fatal(m);
            }
            s.exec.push((**p).clone());
            vec![ok(s)]
        }
        Ins::Input(name) => match m.inputs.get(name) {
            Some(l) => push_lit(m, l),
            // unbound names are excluded by the properties' proviso; the
            // generator never emits them
            None => Vec::new(),
        },
        Ins::Print(t) | Ins::PrintLn(t) => {
            let n = m.len(*t);
            if n == 0 {
                return rec(m);
            }
            let text = match t {
                Ty::Int => format!("{}", m.int[n - 1]),
                Ty::Float => format!("{}", m.float[n - 1]),
                Ty::Bool => format!("{}", m.bool[n - 1]),
                Ty::Exec => return Vec::new(),
            };
            s.truncate(*t, n - 1);
            s.out.push_str(&text);
            if matches!(i, Ins::PrintLn(_)) {
                s.out.push('\n');
            }
            vec![ok(s)]
        }
        Ins::PrintSpace => {
            s.out.push(' ');
            vec![ok(s)]
        }
        Ins::PrintNewline => {
            s.out.push('\n');
            vec![ok(s)]
        }
        Ins::PrintPeriod => {
            s.out.push('.');
            vec![ok(s)]
        }
        Ins::PrintString(t) => {
            s.out.push_str(t);
            vec![ok(s)]
        }
        Ins::Int(op) => int_op(m, *op),
        Ins::Float(op) => float_op(m, *op),
        Ins::Bool(op) => bool_op(m, *op),
        Ins::Exec(op) => exec_op(m, *op),
    }
}

fn replace_int(m: &M, arity: usize, values: &[Option<i64>]) -> Vec<Outcome> {
    // each candidate: Some(v) = replace the operands by v; None = skip
    let mut out = Vec::new();
    for v in values {
        match v {
            Some(v) => {
                let mut s = m.clone();
                let n = s.int.len();
                s.int.truncate(n - arity);
                s.int.push(*v);
                out.push(ok(s));
            }
            None => out.push(Outcome { class: Class::Recoverable, state: m.clone() }),
        }
    }
    out
}

#[allow(clippy::too_many_lines)]
fn int_op(m: &M, op: IntOp) -> Vec<Outcome> {
    let n = m.int.len();
    let top = |k: usize| m.int[n - 1 - k];
    match op {
        IntOp::Inc | IntOp::Dec | IntOp::Square | IntOp::Negate | IntOp::Abs => {
            if n < 1 {
                return rec(m);
            }
            let x = top(0);
            let v = match op {
                IntOp::Inc => x.checked_add(1),
                IntOp::Dec => x.checked_sub(1),
                IntOp::Square => x.checked_mul(x),
                // negate / abs saturate (MIN -> MAX)
                IntOp::Negate => Some(if x == i64::MIN { i64::MAX } else { -x }),
                IntOp::Abs => Some(if x == i64::MIN { i64::MAX } else { x.abs() }),
                _ => unreachable!(),
            };
            replace_int(m, 1, &[v])
        }
        IntOp::Add
        | IntOp::Subtract
        | IntOp::Multiply
        | IntOp::ProtectedDivide
        | IntOp::Mod
        | IntOp::Power
        | IntOp::Min
        | IntOp::Max => {
            if n < 2 {
                return rec(m);
            }
            let (x, y) = (top(0), top(1)); // x = top, y = second; result = x op y
            let cands: Vec<Option<i64>> = match op {
                IntOp::Add => vec![x.checked_add(y)],
                IntOp::Subtract => vec![x.checked_sub(y)],
                IntOp::Multiply => vec![x.checked_mul(y)],
                IntOp::Min => vec![Some(x.min(y))],
                IntOp::Max => vec![Some(x.max(y))],
                IntOp::ProtectedDivide => {
                    if y == 0 {
                        vec![Some(1)]
                    } else if x == i64::MIN && y == -1 {
                        vec![None]
                    } else {
                        // truncated or floored quotient
                        vec![x.checked_div(y), floor_div(x, y)]
                    }
                }
                IntOp::Mod => {
                    if y == 0 {
                        vec![Some(0)]
                    } else if x == i64::MIN && y == -1 {
                        vec![None, Some(0)]
                    } else {
                        vec![x.checked_rem(y), floor_mod(x, y)]
                    }
                }
                IntOp::Power => {
                    if y < 0 {
                        vec![None]
                    } else if let Ok(e) = u32::try_from(y) {
                        vec![x.checked_pow(e)]
                    } else {
                        // exponent beyond u32: skip, or the exact value where
                        // it is representable
                        let exact = match x {
                            0 => Some(0),
                            1 => Some(1),
                            -1 => Some(if y % 2 == 0 { 1 } else { -1 }),
                            _ => None,
                        };
                        let mut v = vec![None];
                        if exact.is_some() {
                            v.push(exact);
                        }
                        v
                    }
                }
                _ => unreachable!(),
            };
            replace_int(m, 2, &cands)
        }
        IntOp::Clamp => {
            if n < 3 {
                return rec(m);
            }
            let (x, a, b) = (top(0), top(1), top(2));
            let (lo, hi) = (a.min(b), a.max(b));
            replace_int(m, 3, &[Some(x.max(lo).min(hi))])
        }
        IntOp::IsZero | IntOp::IsPositive | IntOp::IsNegative | IntOp::IsEven | IntOp::IsOdd => {
            if let Some(o) = cross_guard(m, Ty::Int, 1, Ty::Bool) {
                return o;
            }
            let x = top(0);
            let ans = match op {
                IntOp::IsZero => x == 0,
                IntOp::IsPositive => x > 0,
                IntOp::IsNegative => x < 0,
                IntOp::IsEven => x.rem_euclid(2) == 0,
                IntOp::IsOdd => x.rem_euclid(2) == 1,
                _ => unreachable!(),
            };
            let mut s = m.clone();
            s.int.truncate(n - 1);
            s.bool.push(ans);
            vec![ok(s)]
        }
        IntOp::Equal
        | IntOp::NotEqual
        | IntOp::LessThan
        | IntOp::LessThanEqual
        | IntOp::GreaterThan
        | IntOp::GreaterThanEqual => {
            if let Some(o) = cross_guard(m, Ty::Int, 2, Ty::Bool) {
                return o;
            }
            let (x, y) = (top(0), top(1));
            let ans = match op {
                IntOp::Equal => x == y,
                IntOp::NotEqual => x != y,
                IntOp::LessThan => x < y,
                IntOp::LessThanEqual => x <= y,
                IntOp::GreaterThan => x > y,
                IntOp::GreaterThanEqual => x >= y,
                _ => unreachable!(),
            };
            let mut s = m.clone();
            s.int.truncate(n - 2); // a comparison consumes both operands
            s.bool.push(ans);
            vec![ok(s)]
        }
        IntOp::FromBoolean => {
            if let Some(o) = cross_guard(m, Ty::Bool, 1, Ty::Int) {
                return o;
            }
            let mut s = m.clone();
            let b = s.bool.pop().unwrap_or(false);
            s.int.push(i64::from(b));
            vec![ok(s)]
        }
        IntOp::FromFloatApprox => {
            if let Some(o) = cross_guard(m, Ty::Float, 1, Ty::Int) {
                return o;
            }
            let f = *m.float.last().unwrap_or(&0.0);
            let mut cands: Vec<Option<i64>> = Vec::new();
            const LIM: f64 = 9_223_372_036_854_775_808.0; // 2^63
            if f.is_nan() {
                cands.push(Some(0));
                cands.push(None);
            } else if f >= -LIM && f < LIM {
                for g in [f.trunc(), f.floor(), f.ceil(), f.round()] {
                    if g >= -LIM && g < LIM {
                        #[allow(clippy::cast_possible_truncation)]
                        cands.push(Some(g as i64));
                    }
                }
            } else {
                cands.push(Some(if f > 0.0 { i64::MAX } else { i64::MIN }));
                cands.push(None);
            }
            let mut out = Vec::new();
            for c in cands {
                match c {
                    Some(v) => {
                        let mut s = m.clone();
                        s.float.pop();
                        s.int.push(v);
                        out.push(ok(s));
                    }
                    None => out.push(Outcome { class: Class::Recoverable, state: m.clone() }),
                }
            }
            out
        }
    }
}

fn float_op(m: &M, op: FloatOp) -> Vec<Outcome> {
    let n = m.float.len();
    let top = |k: usize| m.float[n - 1 - k];
    match op {
        FloatOp::Add | FloatOp::Subtract | FloatOp::Multiply | FloatOp::ProtectedDivide => {
            if n < 2 {
                return rec(m);
            }
            let (x, y) = (top(0), top(1));
            let v = match op {
                FloatOp::Add => x + y,
                FloatOp::Subtract => x - y,
                FloatOp::Multiply => x * y,
                FloatOp::ProtectedDivide => {
                    if y == 0.0 {
                        1.0
                    } else {
                        x / y
                    }
                }
                _ => unreachable!(),
            };
            let mut s = m.clone();
            s.float.truncate(n - 2);
            s.float.push(v);
            vec![ok(s)]
        }
        FloatOp::Equal
        | FloatOp::NotEqual
        | FloatOp::GreaterThan
        | FloatOp::LessThan
        | FloatOp::GreaterThanOrEqual
        | FloatOp::LessThanOrEqual => {
            if let Some(o) = cross_guard(m, Ty::Float, 2, Ty::Bool) {
                return o;
            }
            let (x, y) = (top(0), top(1));
            // total order of the stack's element type: NaN equals itself and
            // is greatest; −0 == +0
            let total = |a: f64, b: f64| -> std::cmp::Ordering {
                match (a.is_nan(), b.is_nan()) {
                    (true, true) => std::cmp::Ordering::Equal,
                    (true, false) => std::cmp::Ordering::Greater,
                    (false, true) => std::cmp::Ordering::Less,
                    (false, false) => a.partial_cmp(&b).unwrap_or(std::cmp::Ordering::Equal),
                }
            };
            let ord = total(x, y);
            let ans_total = match op {
                FloatOp::Equal => ord.is_eq(),
                FloatOp::NotEqual => ord.is_ne(),
                FloatOp::GreaterThan => ord.is_gt(),
                FloatOp::LessThan => ord.is_lt(),
                FloatOp::GreaterThanOrEqual => ord.is_ge(),
                FloatOp::LessThanOrEqual => ord.is_le(),
                _ => unreachable!(),
            };
            let ans_ieee = match op {
                FloatOp::Equal => x == y,
                FloatOp::NotEqual => x != y,
                FloatOp::GreaterThan => x > y,
                FloatOp::LessThan => x < y,
                FloatOp::GreaterThanOrEqual => x >= y,
                FloatOp::LessThanOrEqual => x <= y,
                _ => unreachable!(),
            };
            let mut answers = vec![ans_total];
            if ans_ieee != ans_total {
                answers.push(ans_ieee); // only possible when a NaN is involved
            }
            answers
                .into_iter()
                .map(|a| {
                    let mut s = m.clone();
                    s.float.truncate(n - 2);
                    s.bool.push(a);
                    ok(s)
                })
                .collect()
        }
        FloatOp::FromIntApprox => {
            if let Some(o) = cross_guard(m, Ty::Int, 1, Ty::Float) {
                return o;
            }
            let i = *m.int.last().unwrap_or(&0);
            #[allow(clippy::cast_precision_loss)]
            let f = i as f64;
            let mut cands = vec![f];
            for g in [next_up(f), next_down(f)] {
                // adjacent representable value, if it is also within 1 ulp of i
                cands.push(g);
            }
            cands
                .into_iter()
                .map(|v| {
                    let mut s = m.clone();
                    s.int.pop();
                    s.float.push(v);
                    ok(s)
                })
                .collect()
        }
    }
}

fn bool_op(m: &M, op: BoolOp) -> Vec<Outcome> {
    let n = m.bool.len();
    match op {
        BoolOp::Not => {
            if n < 1 {
                return rec(m);
            }
            let mut s = m.clone();
            s.bool[n - 1] = !m.bool[n - 1];
            vec![ok(s)]
        }
        BoolOp::And | BoolOp::Or | BoolOp::Xor | BoolOp::Implies => {
            if n < 2 {
                return rec(m);
            }
            let (x, y) = (m.bool[n - 1], m.bool[n - 2]);
            let v = match op {
                BoolOp::And => x && y,
                BoolOp::Or => x || y,
                BoolOp::Xor => x != y,
                BoolOp::Implies => !x || y,
                _ => unreachable!(),
            };
            let mut s = m.clone();
            s.bool.truncate(n - 2);
            s.bool.push(v);
            vec![ok(s)]
        }
        BoolOp::FromInt => {
            if let Some(o) = cross_guard(m, Ty::Int, 1, Ty::Bool) {
                return o;
            }
            let mut s = m.clone();
            let i = s.int.pop().unwrap_or(0);
            s.bool.push(i != 0);
            vec![ok(s)]
        }
    }
}

fn exec_op(m: &M, op: ExecOp) -> Vec<Outcome> {
    let ne = m.exec.len();
    let nb = m.bool.len();
    let cond = m.bool.last().copied();
    let mut s = m.clone();
    match op {
        ExecOp::Noop => vec![ok(s)],
        ExecOp::DupBlock => {
            // documented table: missing block -> recoverable whatever the fullness
            if ne == 0 {
                return rec(m);
            }
            if m.full(Ty::Exec) {
                return fatal(m);
            }
            s.exec.push(m.exec[ne - 1].clone());
            vec![ok(s)]
        }
        ExecOp::When => match (cond, ne > 0) {
            (Some(true), true) => {
                s.bool.truncate(nb - 1);
                vec![ok(s)]
            }
            (Some(false), true) => {
                s.bool.truncate(nb - 1);
                s.exec.truncate(ne - 1);
                vec![ok(s)]
            }
            (None, true) => {
                s.exec.truncate(ne - 1);
                vec![ok(s)]
            }
            (Some(_), false) => vec![ok(s)],
            (None, false) => rec(m),
        },
        ExecOp::Unless => match (cond, ne > 0) {
            (Some(false), true) => {
                s.bool.truncate(nb - 1);
                vec![ok(s)]
            }
            (Some(true), true) => {
                s.bool.truncate(nb - 1);
                s.exec.truncate(ne - 1);
                vec![ok(s)]
            }
            (None, true) | (Some(_), false) => vec![ok(s)],
            (None, false) => rec(m),
        },
        ExecOp::IfElse => {
            if ne == 0 {
                return rec(m);
            }
            match (cond, ne >= 2) {
                (Some(true), true) => {
                    // keep "then" (top), drop "else" (second)
                    s.bool.truncate(nb - 1);
                    s.exec.remove(ne - 2);
                    vec![ok(s)]
                }
                (Some(false), true) => {
                    s.bool.truncate(nb - 1);
                    s.exec.truncate(ne - 1);
                    vec![ok(s)]
                }
                (Some(true), false) => {
                    s.bool.truncate(nb - 1);
                    vec![ok(s)]
                }
                (Some(false), false) => {
                    s.bool.truncate(nb - 1);
                    s.exec.truncate(ne - 1);
                    vec![ok(s)]
                }
                (None, _) => {
                    s.exec.truncate(ne - 1);
                    vec![ok(s)]
                }
            }
        }
    }
}
