//! Harness-side, serialisable Push AST, its 1:1 mapping onto the real
//! `PushProgram` / `PushInstruction` through public constructors (never through
//! Plushy translation), state construction through the generated builder, and
//! observation of a real `PushState` through its public API.

use std::fmt;

use ordered_float::OrderedFloat;
use push::{
    instruction::{
        printing::{Print, PrintLn, PrintString},
        variable_name::VariableName,
        BoolInstruction, ExecInstruction, FloatInstruction, IntInstruction, PushInstruction,
    },
    push_vm::{program::PushProgram, push_state::PushState, stack::StackError, HasStack},
};
use serde::{Deserialize, Serialize};

/// f64 carried as raw bits so that NaN / ±inf / −0.0 survive JSON exactly.
#[derive(Serialize, Deserialize, Clone, Copy, PartialEq, Eq, Hash)]
pub struct F(pub u64);

impl F {
    pub fn of(x: f64) -> Self {
        Self(x.to_bits())
    }

    pub fn get(self) -> f64 {
        f64::from_bits(self.0)
    }
}

impl fmt::Debug for F {
    fn fmt(&self, f: &mut fmt::Formatter<'_>) -> fmt::Result {
        write!(f, "{:?}", self.get())
    }
}

#[derive(Serialize, Deserialize, Clone, Copy, Debug, PartialEq, Eq, Hash)]
pub enum Ty {
    Int,
    Float,
    Bool,
    Exec,
}

pub const ALL_TY: [Ty; 4] = [Ty::Int, Ty::Float, Ty::Bool, Ty::Exec];
pub const VAL_TY: [Ty; 3] = [Ty::Int, Ty::Float, Ty::Bool];

#[derive(Serialize, Deserialize, Clone, Copy, Debug, PartialEq, Eq, Hash)]
pub enum IntOp {
    Negate,
    Abs,
    Min,
    Max,
    Clamp,
    Inc,
    Dec,
    Add,
    Subtract,
    Multiply,
    ProtectedDivide,
    Mod,
    Power,
    Square,
    IsZero,
    IsPositive,
    IsNegative,
    IsEven,
    IsOdd,
    Equal,
    NotEqual,
    LessThan,
    LessThanEqual,
    GreaterThan,
    GreaterThanEqual,
    FromBoolean,
    FromFloatApprox,
}

pub const ALL_INT_OPS: [IntOp; 27] = [
    IntOp::Negate,
    IntOp::Abs,
    IntOp::Min,
    IntOp::Max,
    IntOp::Clamp,
    IntOp::Inc,
    IntOp::Dec,
    IntOp::Add,
    IntOp::Subtract,
    IntOp::Multiply,
    IntOp::ProtectedDivide,
    IntOp::Mod,
    IntOp::Power,
    IntOp::Square,
    IntOp::IsZero,
    IntOp::IsPositive,
    IntOp::IsNegative,
    IntOp::IsEven,
    IntOp::IsOdd,
    IntOp::Equal,
    IntOp::NotEqual,
    IntOp::LessThan,
    IntOp::LessThanEqual,
    IntOp::GreaterThan,
    IntOp::GreaterThanEqual,
    IntOp::FromBoolean,
    IntOp::FromFloatApprox,
];

#[derive(Serialize, Deserialize, Clone, Copy, Debug, PartialEq, Eq, Hash)]
pub enum FloatOp {
    Add,
    Subtract,
    Multiply,
    ProtectedDivide,
    Equal,
    NotEqual,
    GreaterThan,
    LessThan,
    GreaterThanOrEqual,
    LessThanOrEqual,
    FromIntApprox,
}

pub const ALL_FLOAT_OPS: [FloatOp; 11] = [
    FloatOp::Add,
    FloatOp::Subtract,
    FloatOp::Multiply,
    FloatOp::ProtectedDivide,
    FloatOp::Equal,
    FloatOp::NotEqual,
    FloatOp::GreaterThan,
    FloatOp::LessThan,
    FloatOp::GreaterThanOrEqual,
    FloatOp::LessThanOrEqual,
    FloatOp::FromIntApprox,
];

#[derive(Serialize, Deserialize, Clone, Copy, Debug, PartialEq, Eq, Hash)]
pub enum BoolOp {
    Not,
    Or,
    And,
    Xor,
    Implies,
    FromInt,
}

pub const ALL_BOOL_OPS: [BoolOp; 6] =
    [BoolOp::Not, BoolOp::Or, BoolOp::And, BoolOp::Xor, BoolOp::Implies, BoolOp::FromInt];

#[derive(Serialize, Deserialize, Clone, Copy, Debug, PartialEq, Eq, Hash)]
pub enum ExecOp {
    Noop,
    DupBlock,
    When,
    Unless,
    IfElse,
}

pub const ALL_EXEC_OPS: [ExecOp; 5] =
    [ExecOp::Noop, ExecOp::DupBlock, ExecOp::When, ExecOp::Unless, ExecOp::IfElse];

#[derive(Serialize, Deserialize, Clone, Debug, PartialEq, Eq, Hash)]
pub enum Ins {
    Pop(Ty),
    Dup(Ty),
    Swap(Ty),
    IsEmpty(Ty),
    Depth(Ty),
    Flush(Ty),
    PushInt(i64),
    PushFloat(F),
    PushBool(bool),
    PushExec(Box<Prog>),
    /// Print / PrintLn exist for int, float, bool
    Print(Ty),
    PrintLn(Ty),
    Int(IntOp),
    Float(FloatOp),
    Bool(BoolOp),
    Exec(ExecOp),
    PrintSpace,
    PrintNewline,
    PrintPeriod,
    PrintString(String),
    Input(String),
}

#[derive(Serialize, Deserialize, Clone, Debug, PartialEq, Eq, Hash)]
pub enum Prog {
    I(Ins),
    B(Vec<Prog>),
}

impl Prog {
    pub fn depth(&self) -> usize {
        match self {
            Prog::I(Ins::PushExec(p)) => 1 + p.depth(),
            Prog::I(_) => 0,
            Prog::B(v) => 1 + v.iter().map(Prog::depth).max().unwrap_or(0),
        }
    }

    pub fn nodes(&self) -> usize {
        match self {
            Prog::I(Ins::PushExec(p)) => 1 + p.nodes(),
            Prog::I(_) => 1,
            Prog::B(v) => 1 + v.iter().map(Prog::nodes).sum::<usize>(),
        }
    }
}

impl Ins {
    /// Short stable name used in finding keys.
    pub fn name(&self) -> String {
        match self {
            Ins::Pop(t) => format!("{t:?}.Pop"),
            Ins::Dup(t) => format!("{t:?}.Dup"),
            Ins::Swap(t) => format!("{t:?}.Swap"),
            Ins::IsEmpty(t) => format!("{t:?}.IsEmpty"),
            Ins::Depth(t) => format!("{t:?}.StackDepth"),
            Ins::Flush(t) => format!("{t:?}.Flush"),
            Ins::PushInt(_) => "Int.Push".into(),
            Ins::PushFloat(_) => "Float.Push".into(),
            Ins::PushBool(_) => "Bool.Push".into(),
            Ins::PushExec(_) => "Exec.Push".into(),
            Ins::Print(t) => format!("{t:?}.Print"),
            Ins::PrintLn(t) => format!("{t:?}.PrintLn"),
            Ins::Int(o) => format!("Int.{o:?}"),
            Ins::Float(o) => format!("Float.{o:?}"),
            Ins::Bool(o) => format!("Bool.{o:?}"),
            Ins::Exec(o) => format!("Exec.{o:?}"),
            Ins::PrintSpace => "PrintSpace".into(),
            Ins::PrintNewline => "PrintNewline".into(),
            Ins::PrintPeriod => "PrintPeriod".into(),
            Ins::PrintString(_) => "PrintString".into(),
            Ins::Input(_) => "InputVar".into(),
        }
    }
}

pub fn prog_name(p: &Prog) -> String {
    match p {
        Prog::I(i) => i.name(),
        Prog::B(_) => "Block".into(),
    }
}

// ---------------------------------------------------------------------------
// AST -> real types, through public constructors only

pub fn to_real_ins(i: &Ins) -> PushInstruction {
    match i {
        Ins::Pop(Ty::Int) => IntInstruction::pop().into(),
        Ins::Dup(Ty::Int) => IntInstruction::dup().into(),
        Ins::Swap(Ty::Int) => IntInstruction::swap().into(),
        Ins::IsEmpty(Ty::Int) => IntInstruction::is_empty().into(),
        Ins::Depth(Ty::Int) => IntInstruction::stack_depth().into(),
        Ins::Flush(Ty::Int) => IntInstruction::flush().into(),
        Ins::Pop(Ty::Float) => FloatInstruction::pop().into(),
        Ins::Dup(Ty::Float) => FloatInstruction::dup().into(),
        Ins::Swap(Ty::Float) => FloatInstruction::swap().into(),
        Ins::IsEmpty(Ty::Float) => FloatInstruction::is_empty().into(),
        Ins::Depth(Ty::Float) => FloatInstruction::stack_depth().into(),
        Ins::Flush(Ty::Float) => FloatInstruction::flush().into(),
        Ins::Pop(Ty::Bool) => BoolInstruction::Pop(Default::default()).into(),
        Ins::Dup(Ty::Bool) => BoolInstruction::Dup(Default::default()).into(),
        Ins::Swap(Ty::Bool) => BoolInstruction::Swap(Default::default()).into(),
        Ins::IsEmpty(Ty::Bool) => BoolInstruction::IsEmpty(Default::default()).into(),
        Ins::Depth(Ty::Bool) => BoolInstruction::StackDepth(Default::default()).into(),
        Ins::Flush(Ty::Bool) => BoolInstruction::Flush(Default::default()).into(),
        Ins::Pop(Ty::Exec) => ExecInstruction::Pop(Default::default()).into(),
        Ins::Dup(Ty::Exec) => ExecInstruction::Dup(Default::default()).into(),
        Ins::Swap(Ty::Exec) => ExecInstruction::Swap(Default::default()).into(),
        Ins::IsEmpty(Ty::Exec) => ExecInstruction::IsEmpty(Default::default()).into(),
        Ins::Depth(Ty::Exec) => ExecInstruction::StackDepth(Default::default()).into(),
        Ins::Flush(Ty::Exec) => ExecInstruction::Flush(Default::default()).into(),
        Ins::PushInt(v) => PushInstruction::push_int(*v),
        Ins::PushFloat(v) => PushInstruction::push_float(OrderedFloat(v.get())),
        Ins::PushBool(v) => PushInstruction::push_bool(*v),
        Ins::PushExec(p) => {
            let mut e = ExecInstruction::Push(Default::default());
            if let ExecInstruction::Push(b) = &mut e {
                b.0 = to_real(p);
            }
            e.into()
        }
        Ins::Print(Ty::Int) => IntInstruction::Print(Print::new()).into(),
        Ins::PrintLn(Ty::Int) => IntInstruction::PrintLn(PrintLn::new()).into(),
        Ins::Print(Ty::Float) => FloatInstruction::Print(Print::new()).into(),
        Ins::PrintLn(Ty::Float) => FloatInstruction::PrintLn(PrintLn::new()).into(),
        Ins::Print(Ty::Bool) => BoolInstruction::Print(Print::new()).into(),
        Ins::PrintLn(Ty::Bool) => BoolInstruction::Println(PrintLn::new()).into(),
        Ins::Print(Ty::Exec) | Ins::PrintLn(Ty::Exec) => {
            unreachable!("there is no exec print instruction; the generator never emits it")
        }
        Ins::Int(o) => match o {
            IntOp::Negate => IntInstruction::negate(),
            IntOp::Abs => IntInstruction::abs(),
            IntOp::Min => IntInstruction::Min,
            IntOp::Max => IntInstruction::Max,
            IntOp::Clamp => IntInstruction::clamp(),
            IntOp::Inc => IntInstruction::Inc,
            IntOp::Dec => IntInstruction::Dec,
            IntOp::Add => IntInstruction::Add,
            IntOp::Subtract => IntInstruction::Subtract,
            IntOp::Multiply => IntInstruction::Multiply,
            IntOp::ProtectedDivide => IntInstruction::ProtectedDivide,
            IntOp::Mod => IntInstruction::Mod,
            IntOp::Power => IntInstruction::Power,
            IntOp::Square => IntInstruction::Square,
            IntOp::IsZero => IntInstruction::IsZero,
            IntOp::IsPositive => IntInstruction::IsPositive,
            IntOp::IsNegative => IntInstruction::IsNegative,
            IntOp::IsEven => IntInstruction::IsEven,
            IntOp::IsOdd => IntInstruction::IsOdd,
            IntOp::Equal => IntInstruction::Equal,
            IntOp::NotEqual => IntInstruction::NotEqual,
            IntOp::LessThan => IntInstruction::LessThan,
            IntOp::LessThanEqual => IntInstruction::LessThanEqual,
            IntOp::GreaterThan => IntInstruction::GreaterThan,
            IntOp::GreaterThanEqual => IntInstruction::GreaterThanEqual,
            IntOp::FromBoolean => IntInstruction::FromBoolean,
            IntOp::FromFloatApprox => IntInstruction::FromFloatApprox,
        }
        .into(),
        Ins::Float(o) => match o {
            FloatOp::Add => FloatInstruction::Add,
            FloatOp::Subtract => FloatInstruction::Subtract,
            FloatOp::Multiply => FloatInstruction::Multiply,
            FloatOp::ProtectedDivide => FloatInstruction::ProtectedDivide,
            FloatOp::Equal => FloatInstruction::Equal,
            FloatOp::NotEqual => FloatInstruction::NotEqual,
            FloatOp::GreaterThan => FloatInstruction::GreaterThan,
            FloatOp::LessThan => FloatInstruction::LessThan,
            FloatOp::GreaterThanOrEqual => FloatInstruction::GreaterThanOrEqual,
            FloatOp::LessThanOrEqual => FloatInstruction::LessThanOrEqual,
            FloatOp::FromIntApprox => FloatInstruction::FromIntApprox,
        }
        .into(),
        Ins::Bool(o) => match o {
            BoolOp::Not => BoolInstruction::Not,
            BoolOp::Or => BoolInstruction::Or,
            BoolOp::And => BoolInstruction::And,
            BoolOp::Xor => BoolInstruction::Xor,
            BoolOp::Implies => BoolInstruction::Implies,
            BoolOp::FromInt => BoolInstruction::FromInt,
        }
        .into(),
        Ins::Exec(o) => match o {
            ExecOp::Noop => ExecInstruction::noop(),
            ExecOp::DupBlock => ExecInstruction::dup_block(),
            ExecOp::When => ExecInstruction::when(),
            ExecOp::Unless => ExecInstruction::unless(),
            ExecOp::IfElse => ExecInstruction::if_else(),
        }
        .into(),
        Ins::PrintSpace => PushInstruction::PrintSpace(Default::default()),
        Ins::PrintNewline => PushInstruction::PrintNewline(Default::default()),
        Ins::PrintPeriod => PushInstruction::PrintPeriod(Default::default()),
        Ins::PrintString(s) => PushInstruction::PrintString(PrintString::new(s.clone())),
        Ins::Input(name) => PushInstruction::InputVar(VariableName::from(name.as_str())),
    }
}

pub fn to_real(p: &Prog) -> PushProgram {
    match p {
        Prog::I(i) => PushProgram::Instruction(to_real_ins(i)),
        Prog::B(v) => PushProgram::Block(v.iter().map(to_real).collect()),
    }
}

// ---------------------------------------------------------------------------
// initial state

#[derive(Serialize, Deserialize, Clone, Debug, PartialEq, Eq, Hash)]
pub enum Lit {
    Int(i64),
    Float(F),
    Bool(bool),
}

#[derive(Serialize, Deserialize, Clone, Debug, PartialEq, Eq)]
pub struct Caps {
    pub exec: usize,
    pub int: usize,
    pub float: usize,
    pub bool: usize,
}

impl Caps {
    pub fn all(c: usize) -> Self {
        Self { exec: c, int: c, float: c, bool: c }
    }
}

#[derive(Serialize, Deserialize, Clone, Debug, PartialEq)]
pub struct VmInit {
    pub caps: Caps,
    /// initial values, first = top (builder order)
    pub int: Vec<i64>,
    pub float: Vec<F>,
    pub bool: Vec<bool>,
    /// first element executes first
    pub program: Vec<Prog>,
    /// input bindings in declaration order (later declarations of the same
    /// name replace earlier ones)
    pub inputs: Vec<(String, Lit)>,
    pub limit: usize,
    /// deep nesting, stored compactly: when > 0 the whole `program` is one item wrapped in this many
    /// nested blocks (`[[[ ... program ... ]]]`); expanded by `effective_program`
    #[serde(default)]
    pub wrap: usize,
    /// one giant block, stored compactly: when > 0 the loaded program is ONE block of `giant` children, child i
    /// being `program[i % program.len()]` with an integer literal replaced by `i` (so that the order of
    /// execution shows in the values)
    #[serde(default)]
    pub giant: usize,
}

/// The program actually loaded: `program`, or `program` wrapped in `wrap` nested blocks.
pub fn effective_program(init: &VmInit) -> Vec<Prog> {
    if init.giant > 0 && !init.program.is_empty() {
        let k = init.program.len();
        let children = (0..init.giant)
            .map(|i| match &init.program[i % k] {
                Prog::I(Ins::PushInt(_)) => Prog::I(Ins::PushInt(i as i64)),
                other => other.clone(),
            })
            .collect();
        return vec![Prog::B(children)];
    }
    if init.wrap == 0 {
        return init.program.clone();
    }
    let mut p = Prog::B(init.program.clone());
    for _ in 1..init.wrap {
        p = Prog::B(vec![p]);
    }
    vec![p]
}

/// Build the real state through the generated builder. `Err` = the builder
/// reported an overflow for the supplied values / program.
pub fn build_real(init: &VmInit) -> Result<PushState, StackError> {
    build_real_from(
        &init.caps,
        init.int.clone(),
        init.float.iter().map(|f| OrderedFloat(f.get())).collect(),
        init.bool.clone(),
        effective_program(init).iter().map(to_real).collect(),
        &init.inputs,
        init.limit,
    )
}

pub fn build_real_from(
    caps: &Caps,
    int_top_first: Vec<i64>,
    float_top_first: Vec<OrderedFloat<f64>>,
    bool_top_first: Vec<bool>,
    program_first_first: Vec<PushProgram>,
    inputs: &[(String, Lit)],
    limit: usize,
) -> Result<PushState, StackError> {
    let mut b = PushState::builder()
        .with_max_stack_size(caps.exec)
        .with_int_max_size(caps.int)
        .with_float_max_size(caps.float)
        .with_bool_max_size(caps.bool)
        .with_program(program_first_first)?
        .with_int_values(int_top_first)?
        .with_float_values(float_top_first)?
        .with_bool_values(bool_top_first)?;
    for (name, lit) in inputs {
        b = match lit {
            Lit::Int(v) => b.with_int_input(name, *v),
            Lit::Float(v) => b.with_float_input(name, OrderedFloat(v.get())),
            Lit::Bool(v) => b.with_bool_input(name, *v),
        };
    }
    Ok(b.with_instruction_step_limit(limit).build())
}

// ---------------------------------------------------------------------------
// observation

fn drain<T: Clone>(s: &push::push_vm::stack::Stack<T>) -> Vec<T> {
    let mut c = s.clone();
    let mut v = Vec::with_capacity(c.size());
    while let Ok(x) = c.pop() {
        v.push(x);
    }
    v.reverse();
    v
}

/// Canonical float bits: every NaN is one value; ±0 stay distinct.
pub fn canon(x: f64) -> u64 {
    if x.is_nan() {
        f64::NAN.to_bits() | 1
    } else {
        x.to_bits()
    }
}

/// Everything observable about a state except the exec contents and inputs
/// (bottom-first vectors).
#[derive(Clone, Debug, PartialEq, Eq)]
pub struct Snap {
    pub int: Vec<i64>,
    pub float: Vec<u64>,
    pub bool: Vec<bool>,
    pub exec_len: usize,
    pub caps: [usize; 4], // exec, int, float, bool
    pub out: String,
}

pub fn snap(state: &PushState) -> Snap {
    let mut s = state.clone();
    Snap {
        int: drain(state.stack::<i64>()),
        float: drain(state.stack::<OrderedFloat<f64>>())
            .into_iter()
            .map(|f| canon(f.0))
            .collect(),
        bool: drain(state.stack::<bool>()),
        exec_len: state.stack::<PushProgram>().size(),
        caps: [
            state.stack::<PushProgram>().max_stack_size(),
            state.stack::<i64>().max_stack_size(),
            state.stack::<OrderedFloat<f64>>().max_stack_size(),
            state.stack::<bool>().max_stack_size(),
        ],
        out: s.stdout_string().unwrap_or_else(|_| "<non-utf8 output>".to_string()),
    }
}

pub fn exec_contents(state: &PushState) -> Vec<PushProgram> {
    drain(state.stack::<PushProgram>())
}

pub fn float_contents(state: &PushState) -> Vec<OrderedFloat<f64>> {
    drain(state.stack::<OrderedFloat<f64>>())
}

/// Rebuild an equal state through the builder from the observable contents of
/// `state` ("restart with only observable state surviving").
pub fn rebuild(
    state: &PushState,
    inputs: &[(String, Lit)],
    limit: usize,
    replace_top_exec: Option<PushProgram>,
) -> Result<PushState, StackError> {
    let sn = snap(state);
    let caps = Caps { exec: sn.caps[0], int: sn.caps[1], float: sn.caps[2], bool: sn.caps[3] };
    let mut exec = exec_contents(state);
    if let Some(r) = replace_top_exec {
        if let Some(top) = exec.last_mut() {
            *top = r;
        }
    }
    exec.reverse();
    let mut int = sn.int;
    int.reverse();
    let mut float = float_contents(state);
    float.reverse();
    let mut bl = sn.bool;
    bl.reverse();
    let mut st = build_real_from(&caps, int, float, bl, exec, inputs, limit)?;
    // the output buffer is observable state too
    if !sn.out.is_empty() {
        use push::push_vm::push_io::HasStdout;
        use std::io::Write;
        let _ = st.stdout().write_all(sn.out.as_bytes());
    }
    Ok(st)
}
