//! Seeded, swarm-configured generator of Push VM scenarios.

use simcore::Xo;

use crate::{
    vm::{
        BoolOp, Caps, ExecOp, FloatOp, Ins, IntOp, Lit, Prog, Ty, VmInit, ALL_BOOL_OPS,
        ALL_FLOAT_OPS, ALL_INT_OPS, ALL_TY, F, VAL_TY,
    },
    vmsim::{Fault, VmSc},
};

pub const I64_POOL: [i64; 32] = [
    i64::MIN,
    i64::MIN + 1,
    -4_000_000_000,
    -3_500_000_000,
    -3_037_000_500,
    -3_037_000_499,
    -(1 << 32),
    -(u32::MAX as i64),
    -(1 << 31) - 1,
    -(1 << 31),
    -(i32::MAX as i64),
    -3,
    -2,
    -1,
    0,
    1,
    2,
    3,
    7,
    63,
    64,
    65_536,
    i32::MAX as i64,
    1 << 31,
    (1 << 31) + 1,
    u32::MAX as i64,
    1 << 32,
    3_037_000_499,
    3_037_000_500,
    3_500_000_000,
    i64::MAX - 1,
    i64::MAX,
];

pub fn f64_pool() -> [f64; 24] {
    [
        // neighbours one unit in the last place apart (an "approximately equal" must not equate them)
        0.3,
        0.300_000_000_000_000_04,
        3.0,
        3.000_000_000_000_000_4,
        f64::NAN,
        f64::INFINITY,
        f64::NEG_INFINITY,
        0.0,
        -0.0,
        1.0,
        -1.0,
        0.5,
        -2.5,
        0.1,
        f64::MIN_POSITIVE,
        f64::MAX,
        f64::MIN,
        f64::EPSILON,
        1e308,
        -1e308,
        9_223_372_036_854_775_807.0,
        -9_223_372_036_854_775_808.0,
        9.3e18,
        4_503_599_627_370_497.5,
    ]
}

pub fn gen_i64(g: &mut Xo) -> i64 {
    match g.below(10) {
        0..=4 => *g.pick(&I64_POOL),
        5..=7 => g.range(0, 20) as i64 - 10,
        8 => (g.next_u64() >> g.below(64)) as i64,
        _ => g.next_u64() as i64,
    }
}

pub fn gen_f64(g: &mut Xo) -> f64 {
    match g.below(10) {
        0..=4 => *g.pick(&f64_pool()),
        5..=7 => (g.range(0, 40) as f64 - 20.0) / 4.0,
        8 => f64::from_bits(g.next_u64()),
        _ => (g.f64_unit() - 0.5) * 1e6,
    }
}

#[derive(Clone, Copy, Debug, PartialEq, Eq)]
pub enum Bias {
    Balanced,
    /// loop- and growth-heavy programs (C03)
    Growth,
}

const N_FAM: usize = 16;

struct Swarm {
    fam: [u32; N_FAM],
    tys: [u32; 4],
    names: Vec<(String, Lit)>,
    block_pct: u64,
    /// per cent chance that an item repeats the item before it, and that a block starts with the instruction
    /// that precedes the block (evolved programs are full of runs of one instruction; anything remembered from
    /// one instruction to the next shows on such runs)
    echo_pct: u64,
}

fn gen_ins(g: &mut Xo, sw: &Swarm, depth: usize) -> Ins {
    let ty = ALL_TY[g.weighted(&sw.tys)];
    let vty = if ty == Ty::Exec { *g.pick(&VAL_TY) } else { ty };
    match g.weighted(&sw.fam) {
        0 => Ins::PushInt(gen_i64(g)),
        1 => Ins::PushFloat(F::of(gen_f64(g))),
        2 => Ins::PushBool(g.coin()),
        3 => match g.below(6) {
            0 => Ins::Pop(ty),
            1 => Ins::Dup(ty),
            2 => Ins::Swap(ty),
            3 => Ins::IsEmpty(ty),
            4 => Ins::Depth(ty),
            _ => Ins::Flush(ty),
        },
        4 => {
            if g.coin() {
                Ins::Print(vty)
            } else {
                Ins::PrintLn(vty)
            }
        }
        5 => Ins::Int(*g.pick(&ALL_INT_OPS[..14])), // arithmetic
        6 => Ins::Int(*g.pick(&ALL_INT_OPS[14..25])), // predicates
        7 => Ins::Int(*g.pick(&ALL_INT_OPS[25..])), // conversions
        8 => Ins::Float(*g.pick(&ALL_FLOAT_OPS[..4])),
        9 => Ins::Float(*g.pick(&ALL_FLOAT_OPS[4..10])),
        10 => match g.below(3) {
            0 => Ins::Float(FloatOp::FromIntApprox),
            1 => Ins::Bool(BoolOp::FromInt),
            _ => Ins::Int(IntOp::FromBoolean),
        },
        11 => Ins::Bool(*g.pick(&ALL_BOOL_OPS)),
        12 => match g.below(8) {
            0 => Ins::Exec(ExecOp::Noop),
            1 | 2 => Ins::Exec(ExecOp::DupBlock),
            3 => Ins::Exec(ExecOp::When),
            4 => Ins::Exec(ExecOp::Unless),
            5 => Ins::Exec(ExecOp::IfElse),
            6 => Ins::Dup(Ty::Exec),
            _ => Ins::Swap(Ty::Exec),
        },
        13 => {
            // (the pushed program is generated one level down; at the bottom it is a plain
            // instruction, never another exec push — otherwise a swarm configuration that enables
            // only this family would recurse without bound)
            let p = if depth > 0 && g.coin() {
                Prog::B(gen_items(g, sw, depth - 1, 3))
            } else if depth > 0 {
                Prog::I(gen_ins(g, sw, depth - 1))
            } else {
                Prog::I(match g.below(4) {
                    0 => Ins::Exec(ExecOp::Noop),
                    1 => Ins::PushInt(gen_i64(g)),
                    2 => Ins::Int(*g.pick(&ALL_INT_OPS)),
                    _ => Ins::Dup(Ty::Exec),
                })
            };
            Ins::PushExec(Box::new(p))
        }
        14 => {
            if sw.names.is_empty() {
                Ins::PushInt(gen_i64(g))
            } else {
                Ins::Input(g.pick(&sw.names).0.clone())
            }
        }
        _ => match g.below(4) {
            0 => Ins::PrintSpace,
            1 => Ins::PrintNewline,
            2 => Ins::PrintPeriod,
            _ => Ins::PrintString(g.pick(&["", "x", "a b", "é\n", "0.5"]).to_string()),
        },
    }
}

fn gen_items(g: &mut Xo, sw: &Swarm, depth: usize, max_items: usize) -> Vec<Prog> {
    gen_items_led(g, sw, depth, max_items, None)
}

fn gen_items_led(g: &mut Xo, sw: &Swarm, depth: usize, max_items: usize, lead: Option<&Prog>) -> Vec<Prog> {
    let n = g.urange(0, max_items);
    let mut v: Vec<Prog> = Vec::with_capacity(n + 1);
    if let Some(l) = lead {
        v.push(l.clone());
    }
    for _ in 0..n {
        let echo = sw.echo_pct > 0 && g.below(100) < sw.echo_pct;
        let prev_ins: Option<Prog> = v.iter().rev().find(|p| matches!(p, Prog::I(_))).cloned();
        if depth > 0 && g.below(100) < sw.block_pct {
            let inner = if g.chance(1, 6) { 1 } else { 5 };
            let lead = if echo { prev_ins.as_ref() } else { None };
            v.push(Prog::B(gen_items_led(g, sw, depth - 1, inner, lead)));
        } else if let (true, Some(p)) = (echo, v.last().cloned()) {
            v.push(p);
        } else {
            v.push(Prog::I(gen_ins(g, sw, depth)));
        }
    }
    v
}

fn gen_cap(g: &mut Xo, regime: u64) -> usize {
    match regime {
        0 => g.urange(0, 3),
        1 => g.urange(4, 12),
        2 => 64,
        4 => g.log_uniform(13, 1500),
        _ => usize::MAX,
    }
}

pub fn gen_scenario(g: &mut Xo, bias: Bias) -> VmSc {
    // --- swarm configuration
    let mut fam = [0u32; N_FAM];
    for f in &mut fam {
        *f = if g.chance(1, 3) { 0 } else { 1 + g.below(8) as u32 };
    }
    if bias == Bias::Growth {
        fam[12] = 6 + g.below(10) as u32;
        fam[13] = 3 + g.below(6) as u32;
        fam[5] += 3;
        fam[3] += 2;
    }
    if fam.iter().all(|x| *x == 0) {
        fam[0] = 1;
    }
    let mut tys = [0u32; 4];
    for t in &mut tys {
        *t = if g.chance(1, 4) { 0 } else { 1 + g.below(4) as u32 };
    }
    if tys.iter().all(|x| *x == 0) {
        tys[0] = 1;
    }
    // inputs, bound in a seeded order
    let mut names: Vec<(String, Lit)> = Vec::new();
    for k in 0..g.below(4) {
        names.push((format!("i{k}"), Lit::Int(gen_i64(g))));
    }
    for k in 0..g.below(3) {
        names.push((format!("f{k}"), Lit::Float(F::of(gen_f64(g)))));
    }
    for k in 0..g.below(3) {
        names.push((format!("b{k}"), Lit::Bool(g.coin())));
    }
    g.shuffle(&mut names);
    let sw = Swarm {
        fam,
        tys,
        names,
        block_pct: if bias == Bias::Growth { 10 + g.below(30) } else { g.below(25) },
        echo_pct: *g.pick(&[0u64, 0, 10, 30]),
    };

    let depth = match bias {
        Bias::Balanced => g.urange(0, 6),
        Bias::Growth => g.urange(1, 8),
    };
    let max_items = match g.below(4) {
        0 => 4,
        1 | 2 => 12,
        _ => 40,
    };
    let program = gen_items(g, &sw, depth, max_items);

    // --- capacities
    let regime = match bias {
        // (regime 4: capacities of arbitrary magnitude, 13..=1500, in 1/25 of the runs)
        _ if g.chance(1, 25) => 4,
        Bias::Balanced => g.below(4),
        Bias::Growth => g.below(3),
    };
    let mut caps = Caps {
        exec: gen_cap(g, regime),
        int: gen_cap(g, regime),
        float: gen_cap(g, regime),
        bool: gen_cap(g, regime),
    };
    if g.chance(1, 3) {
        // one stack in a different regime
        let r2 = g.below(4);
        match g.below(4) {
            0 => caps.exec = gen_cap(g, r2),
            1 => caps.int = gen_cap(g, r2),
            2 => caps.float = gen_cap(g, r2),
            _ => caps.bool = gen_cap(g, r2),
        }
    }
    if bias == Bias::Growth && caps.exec == usize::MAX {
        caps.exec = 64;
    }
    if program.len() > caps.exec {
        // the builder would reject the program; make exec just big enough
        // (slack 0..2 so that "exec exactly full at the start" occurs)
        caps.exec = program.len() + g.urange(0, 2);
    }
    // initial stack heights: mostly 0..=8; sometimes anywhere up to the capacity (<= 600), sometimes exactly full
    let fill = |g: &mut Xo, cap: usize| -> usize {
        if cap > 8 && g.chance(1, 12) {
            let top = cap.min(600);
            if g.chance(1, 4) { top } else { g.log_uniform(9, top.max(9)).min(cap) }
        } else {
            g.urange(0, 8).min(cap)
        }
    };
    let n_int = if g.chance(1, 4) { caps.int.min(8) } else { fill(g, caps.int) };
    let n_float = fill(g, caps.float);
    let n_bool = if g.chance(1, 4) { caps.bool.min(8) } else { fill(g, caps.bool) };
    let int = (0..n_int).map(|_| gen_i64(g)).collect();
    let float = (0..n_float).map(|_| F::of(gen_f64(g))).collect();
    let bool = (0..n_bool).map(|_| g.coin()).collect();

    let limit = match g.below(8) {
        0 => 0,
        1 => 1,
        2 => g.urange(2, 30),
        3 => 100,
        4 => 1000,
        _ => usize::MAX,
    };

    // --- mode B limits
    let mut limits = vec![0usize, 1];
    let t = g.urange(1, 40);
    limits.extend([t - 1, t, t + 1, 10_000, usize::MAX]);
    limits.sort_unstable();
    limits.dedup();

    // --- resource faults between steps
    let mut faults = Vec::new();
    if g.coin() {
        for _ in 0..g.urange(1, 3) {
            let step = g.urange(0, 25);
            if g.chance(3, 5) {
                faults.push(Fault::CapShrink { step, ty: *g.pick(&ALL_TY), slack: g.urange(0, 1) });
            } else {
                faults.push(Fault::Starve { step, ty: *g.pick(&VAL_TY), keep: g.urange(0, 2) });
            }
        }
    }
    let rebuild_at = if g.chance(1, 4) { Some(g.urange(0, 20)) } else { None };

    // --- deep nesting (stored compactly): the whole program inside 65..=200 nested blocks, so that the
    // stepped run still reaches the inside; rarely 201..=1200
    let mut wrap = 0;
    if caps.exec >= 1 && g.chance(1, 200) {
        wrap = if g.chance(1, 40) { g.urange(201, 1200) } else { g.urange(65, 200) };
    }
    let limit = if wrap > 0 && limit < wrap && g.coin() { usize::MAX } else { limit };

    VmSc {
        init: VmInit { caps, int, float, bool, program, inputs: sw.names, limit, wrap, giant: 0 },
        faults,
        limits,
        rebuild_at,
        long: false,
    }
}

/// A VERY long execution (millions of steps, i.e. a sizeable fraction of a second of real evaluation): the same
/// self-re-creating loop with a short body that neither prints nor grows a stack without bound, so that the run
/// lasts until the step limit. Anything that makes evaluation depend on elapsed time, or that accumulates over
/// millions of steps, shows as a difference from the model-only run.
pub fn gen_very_long(g: &mut Xo, steps: usize) -> VmSc {
    let mut sc = gen_long(g);
    // bodies with a net stack effect of zero (so that no stack ever overflows and the loop runs until the step
    // limit) and without cross-stack instructions (so that the model never allows more than one outcome)
    let templates: [&[Ins]; 4] = [
        &[Ins::PushInt(1), Ins::Int(IntOp::Add), Ins::Exec(ExecOp::Noop)],
        &[Ins::PushBool(true), Ins::Bool(BoolOp::Not), Ins::Pop(Ty::Bool), Ins::Int(IntOp::Inc)],
        &[Ins::Dup(Ty::Int), Ins::Int(IntOp::Max), Ins::Swap(Ty::Int), Ins::Int(IntOp::Dec)],
        &[Ins::PushInt(3), Ins::PushInt(4), Ins::Int(IntOp::Multiply), Ins::Pop(Ty::Int), Ins::Bool(BoolOp::Not)],
    ];
    let mut body: Vec<Prog> = g.pick(&templates).iter().map(|i| Prog::I(i.clone())).collect();
    for _ in 0..g.urange(0, 2) {
        body.push(Prog::I(Ins::Exec(ExecOp::Noop)));
    }
    body.push(Prog::I(Ins::Dup(Ty::Exec)));
    sc.init.program = vec![Prog::I(Ins::Dup(Ty::Exec)), Prog::B(body)];
    sc.init.caps = Caps { exec: 32, int: 16, float: 16, bool: 16 };
    sc.init.int = vec![0, 5];
    sc.init.float.truncate(4);
    sc.init.bool = vec![false];
    sc.init.limit = steps;
    sc.limits = vec![steps];
    sc
}

// ---------------------------------------------------------------------------
// small-scope enumeration of exec-structural programs

/// The instructions whose meaning depends on the exec stack (plus three literal pushes as operands / fillers).
fn small_alphabet() -> Vec<Ins> {
    let mut v: Vec<Ins> = crate::vm::ALL_EXEC_OPS.iter().map(|o| Ins::Exec(*o)).collect();
    v.extend([
        Ins::Pop(Ty::Exec),
        Ins::Dup(Ty::Exec),
        Ins::Swap(Ty::Exec),
        Ins::Flush(Ty::Exec),
        Ins::IsEmpty(Ty::Exec),
        Ins::Depth(Ty::Exec),
        Ins::PushInt(1),
        Ins::PushBool(true),
        Ins::PushBool(false),
    ]);
    v
}

const SLOT_A: i64 = -1000;
const SLOT_B: i64 = -1001;

/// Every forest (program) of exactly `n` nodes whose leaves are one of two slots and whose inner nodes are blocks.
fn forests_exact(n: usize, memo: &mut Vec<Option<Vec<Vec<Prog>>>>) -> Vec<Vec<Prog>> {
    if let Some(Some(f)) = memo.get(n) {
        return f.clone();
    }
    let out = if n == 0 {
        vec![Vec::new()]
    } else {
        let mut out = Vec::new();
        for m in 1..=n {
            // trees of exactly m nodes
            let mut trees: Vec<Prog> = Vec::new();
            if m == 1 {
                trees.push(Prog::I(Ins::PushInt(SLOT_A)));
                trees.push(Prog::I(Ins::PushInt(SLOT_B)));
            }
            for inner in forests_exact(m - 1, memo) {
                trees.push(Prog::B(inner));
            }
            let rest = forests_exact(n - m, memo);
            for t in &trees {
                for r in &rest {
                    let mut f = Vec::with_capacity(r.len() + 1);
                    f.push(t.clone());
                    f.extend(r.iter().cloned());
                    out.push(f);
                }
            }
        }
        out
    };
    if memo.len() <= n {
        memo.resize(n + 1, None);
    }
    memo[n] = Some(out.clone());
    out
}

fn small_shapes() -> &'static Vec<Vec<Prog>> {
    static SHAPES: std::sync::OnceLock<Vec<Vec<Prog>>> = std::sync::OnceLock::new();
    SHAPES.get_or_init(|| {
        let mut memo = Vec::new();
        (1..=5).flat_map(|n| forests_exact(n, &mut memo)).collect()
    })
}

fn small_pairs() -> &'static Vec<(Ins, Ins)> {
    static PAIRS: std::sync::OnceLock<Vec<(Ins, Ins)>> = std::sync::OnceLock::new();
    PAIRS.get_or_init(|| {
        let a = small_alphabet();
        let structural = a.len() - 3;
        let mut v = Vec::new();
        for i in 0..structural {
            for j in i..a.len() {
                v.push((a[i].clone(), a[j].clone()));
            }
        }
        v
    })
}

fn fill_slots(p: &Prog, a: &Ins, b: &Ins) -> Prog {
    match p {
        Prog::I(Ins::PushInt(SLOT_A)) => Prog::I(a.clone()),
        Prog::I(Ins::PushInt(SLOT_B)) => Prog::I(b.clone()),
        Prog::I(i) => Prog::I(i.clone()),
        Prog::B(v) => Prog::B(v.iter().map(|x| fill_slots(x, a, b)).collect()),
    }
}

/// Number of cells of the small-scope enumeration (`gen_small_cell`).
pub fn small_cells() -> usize {
    small_pairs().len() * small_shapes().len() * 6
}

/// Cell `idx` of the SMALL-SCOPE ENUMERATION: every program of at most 5 nodes (instructions and blocks, nested in
/// every way) built from at most two distinct instructions, at least one of which depends on the exec stack
/// (no-op, dup-block, when, unless, if-else, pop / dup / swap / flush / is-empty / depth on exec), on three bool
/// stacks ([], [true], [false, true]) and two exec capacities (roomy, tight). Whatever goes wrong with the order of
/// unfolding, with operands taken from the exec stack, or with anything remembered from one instruction to the
/// next, goes wrong on a program this small.
pub fn gen_small_cell(idx: usize) -> VmSc {
    let idx = idx % small_cells();
    let shapes = small_shapes();
    let pairs = small_pairs();
    let variant = idx % 6;
    let rest = idx / 6;
    let shape = &shapes[rest % shapes.len()];
    let (a, b) = &pairs[rest / shapes.len()];
    let program: Vec<Prog> = shape.iter().map(|p| fill_slots(p, a, b)).collect();
    let bool = match variant % 3 {
        0 => Vec::new(),
        1 => vec![true],
        _ => vec![false, true],
    };
    let exec_cap = if variant / 3 == 0 { 64 } else { program.len().max(2) + 1 };
    VmSc {
        init: VmInit {
            caps: Caps { exec: exec_cap, int: 8, float: 4, bool: 8 },
            int: vec![3, 4],
            float: Vec::new(),
            bool,
            program,
            inputs: Vec::new(),
            limit: usize::MAX,
            wrap: 0,
            giant: 0,
        },
        faults: Vec::new(),
        limits: vec![0, 1, 2, 3, 4, 5, 6, 8, 12, usize::MAX],
        rebuild_at: None,
        long: false,
    }
}

/// A program that prints one character of `vmsim::PRINT_CHARS` (see `vmsim::simulate`: also run through the
/// `PrintChar` instantiation for that character).
pub fn gen_print_char(idx: usize) -> VmSc {
    let c = crate::vmsim::PRINT_CHARS[idx % crate::vmsim::PRINT_CHARS.len()];
    let mut sc = gen_operand_cell(0);
    sc.init.program = vec![Prog::I(Ins::PrintString(c.to_string()))];
    sc
}

/// Number of cells of the enumerated operand grid (`gen_operand_cell`).
pub fn operand_cells() -> usize {
    ALL_INT_OPS.len() * I64_POOL.len() * I64_POOL.len() + ALL_FLOAT_OPS.len() * f64_pool().len() * f64_pool().len()
}

/// Cell `idx` of the ENUMERATED operand grid: every integer instruction on every ordered pair of boundary literals,
/// every float instruction on every ordered pair of boundary floats (`[push a, push b, op]`; a unary instruction uses
/// b). A value band that matters only for one instruction and one pair of operands (-2^31 / -1, 3 037 000 500 squared,
/// two factors just below 2^32) is met in every invocation instead of by luck.
pub fn gen_operand_cell(idx: usize) -> VmSc {
    let idx = idx % operand_cells();
    let ni = I64_POOL.len();
    let int_cells = ALL_INT_OPS.len() * ni * ni;
    let program = if idx < int_cells {
        let (op, rest) = (idx / (ni * ni), idx % (ni * ni));
        vec![
            Prog::I(Ins::PushInt(I64_POOL[rest / ni])),
            Prog::I(Ins::PushInt(I64_POOL[rest % ni])),
            Prog::I(Ins::Int(ALL_INT_OPS[op])),
        ]
    } else {
        let fp = f64_pool();
        let nf = fp.len();
        let k = idx - int_cells;
        let (op, rest) = (k / (nf * nf), k % (nf * nf));
        vec![
            Prog::I(Ins::PushFloat(F::of(fp[rest / nf]))),
            Prog::I(Ins::PushFloat(F::of(fp[rest % nf]))),
            Prog::I(Ins::Float(ALL_FLOAT_OPS[op])),
        ]
    };
    VmSc {
        init: VmInit {
            caps: Caps { exec: 8, int: 4, float: 4, bool: 4 },
            int: vec![7],
            float: vec![F::of(0.5)],
            bool: vec![true],
            program,
            inputs: Vec::new(),
            limit: usize::MAX,
            wrap: 0,
            giant: 0,
        },
        faults: Vec::new(),
        limits: vec![0, 1, 2, 3, 4, usize::MAX],
        rebuild_at: None,
        long: false,
    }
}

/// ONE giant block (65 536 .. 300 000 children, stored compactly: `VmInit::giant`): sizes at which a block-wise
/// or 16-bit shortcut in unfolding a block, in the exec stack or in the run loop would first matter. Children
/// are literal pushes (the integer pushed is the child's position, so the order of execution shows in the final
/// stack), no-ops and small nested blocks; the capacities either hold everything, or the int stack overflows
/// part-way, or the block itself does not fit; the step limit is unbounded or falls inside the block.
pub fn gen_giant(g: &mut Xo) -> VmSc {
    gen_giant_nth(g, u64::MAX)
}

/// The `j`-th giant of a batch: every fourth one (j % 4 == 1) is an unbounded stretch of more than 2^18 instructions
/// that all fail recoverably, whatever the seed.
pub fn gen_giant_nth(g: &mut Xo, j: u64) -> VmSc {
    let forced = j % 4 == 1;
    let n = if forced {
        [262_145usize, 300_000, 524_289, 262_144][((j / 4) % 4) as usize]
    } else {
        gen_giant_size(g)
    };
    gen_giant_of(g, n, forced)
}

fn gen_giant_size(g: &mut Xo) -> usize {
    match g.below(8) {
        0 => 65_536,
        1 => 65_537,
        2 => 131_073,
        3 => 262_145,
        4 => 300_000,
        _ => g.log_uniform(65_536, 300_000),
    }
}

fn gen_giant_of(g: &mut Xo, n: usize, forced: bool) -> VmSc {
    // one in four giants is a stretch of instructions that ALL fail recoverably (empty operand stacks): hundreds of
    // thousands of consecutive skips, each of which must count as a step and none of which may end the run
    let all_fail = g.chance(1, 4) || forced;
    let mut pattern: Vec<Prog> = vec![Prog::I(if all_fail { Ins::Pop(Ty::Bool) } else { Ins::PushInt(0) })];
    for _ in 0..if all_fail { 0 } else { g.urange(0, 6) } {
        pattern.push(match g.below(6) {
            0 => Prog::I(Ins::Exec(ExecOp::Noop)),
            1 => Prog::I(Ins::PushBool(g.coin())),
            2 => Prog::B(vec![Prog::I(Ins::PushInt(-1)), Prog::I(Ins::Pop(Ty::Int))]),
            3 => Prog::I(Ins::Pop(Ty::Bool)),
            _ => Prog::I(Ins::PushInt(0)),
        });
    }
    let int_cap = match g.below(4) {
        0 => g.urange(1, n), // the int stack overflows part-way through the block
        1 => n,
        _ => usize::MAX,
    };
    let exec_cap = match g.below(5) {
        _ if forced => usize::MAX,
        0 => n - 1 - g.urange(0, 2), // the block's children do not fit
        1 => n,
        2 => n + g.urange(1, 70_000),
        _ => usize::MAX,
    };
    let total = 4 * n + 100;
    let limit = match g.below(4) {
        0 => g.urange(1, n),
        1 => n + 1,
        _ => usize::MAX,
    };
    VmSc {
        init: VmInit {
            caps: Caps { exec: exec_cap, int: int_cap, float: 4, bool: if g.coin() { usize::MAX } else { g.urange(1, n) } },
            int: Vec::new(),
            float: Vec::new(),
            bool: Vec::new(),
            program: pattern,
            inputs: Vec::new(),
            limit: if all_fail { usize::MAX } else { limit },
            wrap: 0,
            giant: n,
        },
        faults: Vec::new(),
        limits: vec![if all_fail { total } else { limit.min(total) }],
        rebuild_at: None,
        long: true,
    }
}

/// A long execution: `[exec.dup, [body.., exec.dup]]` re-creates its own block forever, so the run lasts
/// until the step limit (1000..=LONG_CAP) or until a stack overflows. Bodies are seeded instruction
/// sequences; some contain a very long string literal (> 64 KiB of output in one step) or several prints.
pub fn gen_long(g: &mut Xo) -> VmSc {
    let mut sc = gen_scenario(g, Bias::Balanced);
    let sw = Swarm {
        fam: {
            let mut fam = [0u32; N_FAM];
            for f in &mut fam {
                *f = if g.chance(1, 3) { 0 } else { 1 + g.below(8) as u32 };
            }
            // no exec-growing families inside the body: the loop skeleton provides the repetition
            fam[12] = 0;
            fam[13] = 0;
            if fam.iter().all(|x| *x == 0) {
                fam[0] = 1;
            }
            fam
        },
        tys: [2, 1, 1, 0],
        names: sc.init.inputs.clone(),
        block_pct: 0,
        echo_pct: 0,
    };
    let mut body: Vec<Prog> = (0..g.urange(1, 8)).map(|_| Prog::I(gen_ins(g, &sw, 0))).collect();
    match g.below(6) {
        0 => {
            let n = 65_530 + g.urange(0, 5000);
            body.insert(0, Prog::I(Ins::PrintString("x".repeat(n))));
        }
        1 | 2 => {
            body.push(Prog::I(Ins::PushInt(gen_i64(g))));
            body.push(Prog::I(Ins::PrintLn(Ty::Int)));
            body.push(Prog::I(Ins::PrintString("abcdefghijklmnopqrstuvwxyz".repeat(g.urange(1, 4)))));
        }
        _ => {}
    }
    // no exec-flushing / exec-popping instruction may cut the loop short too often: keep what was drawn,
    // the model follows either way
    body.push(Prog::I(Ins::Dup(Ty::Exec)));
    sc.init.program = vec![Prog::I(Ins::Dup(Ty::Exec)), Prog::B(body)];
    sc.init.wrap = 0;
    sc.init.caps.exec = g.urange(4, 64).max(sc.init.program.len() + 12);
    for c in [&mut sc.init.caps.int, &mut sc.init.caps.float, &mut sc.init.caps.bool] {
        if *c == usize::MAX {
            *c = 64;
        }
    }
    sc.init.limit = if g.chance(1, 4) { crate::vmsim::LONG_CAP } else { g.urange(1000, crate::vmsim::LONG_CAP) };
    sc.faults.clear();
    sc.limits.clear();
    sc.rebuild_at = None;
    sc.long = true;
    sc
}

/// Shrink candidates shared by C01/C02/C03.
pub fn shrink(sc: &VmSc) -> Vec<VmSc> {
    let mut out = Vec::new();
    if sc.init.wrap > 0 {
        for w in [0, sc.init.wrap / 2, sc.init.wrap - 1] {
            if w != sc.init.wrap {
                let mut s = sc.clone();
                s.init.wrap = w;
                out.push(s);
            }
        }
    }
    let with_prog = |p: Vec<Prog>| {
        let mut s = sc.clone();
        s.init.program = p;
        s
    };
    for p in simcore::drop_chunks(&sc.init.program) {
        out.push(with_prog(p));
    }
    // unwrap / shrink blocks
    for (i, item) in sc.init.program.iter().enumerate() {
        match item {
            Prog::B(inner) => {
                let mut p = sc.init.program.clone();
                p.splice(i..=i, inner.iter().cloned());
                out.push(with_prog(p));
                for smaller in simcore::drop_chunks(inner) {
                    let mut p = sc.init.program.clone();
                    p[i] = Prog::B(smaller);
                    out.push(with_prog(p));
                }
            }
            Prog::I(Ins::PushExec(b)) => {
                let mut p = sc.init.program.clone();
                p[i] = (**b).clone();
                out.push(with_prog(p));
            }
            Prog::I(Ins::PushInt(v)) if *v != 0 && *v != 1 => {
                for r in [0i64, 1, -1, *v / 2] {
                    let mut p = sc.init.program.clone();
                    p[i] = Prog::I(Ins::PushInt(r));
                    out.push(with_prog(p));
                }
            }
            Prog::I(Ins::PushFloat(v)) if v.get() != 0.0 && v.get() != 1.0 => {
                for r in [0.0f64, 1.0] {
                    let mut p = sc.init.program.clone();
                    p[i] = Prog::I(Ins::PushFloat(F::of(r)));
                    out.push(with_prog(p));
                }
            }
            _ => {}
        }
    }
    if !sc.faults.is_empty() {
        for f in simcore::drop_chunks(&sc.faults) {
            out.push(VmSc { faults: f, ..sc.clone() });
        }
    }
    if sc.rebuild_at.is_some() {
        out.push(VmSc { rebuild_at: None, ..sc.clone() });
    }
    if sc.limits.len() > 1 {
        for l in simcore::drop_chunks(&sc.limits) {
            out.push(VmSc { limits: l, ..sc.clone() });
        }
    }
    macro_rules! stack {
        ($field:ident) => {
            for v in simcore::drop_chunks(&sc.init.$field) {
                let mut s = sc.clone();
                s.init.$field = v;
                out.push(s);
            }
        };
    }
    stack!(int);
    stack!(float);
    stack!(bool);
    for (i, v) in sc.init.int.iter().enumerate() {
        if *v != 0 && *v != 1 {
            for r in [0i64, 1, -1] {
                let mut s = sc.clone();
                s.init.int[i] = r;
                out.push(s);
            }
        }
    }
    for (i, v) in sc.init.float.iter().enumerate() {
        if v.get() != 0.0 && v.get() != 1.0 {
            for r in [0.0f64, 1.0] {
                let mut s = sc.clone();
                s.init.float[i] = F::of(r);
                out.push(s);
            }
        }
    }
    if !sc.init.inputs.is_empty() {
        // dropping an input is only valid if the program does not mention it;
        // the executor treats an unbound mention as "scenario invalid"
        for v in simcore::drop_chunks(&sc.init.inputs) {
            let mut s = sc.clone();
            s.init.inputs = v;
            out.push(s);
        }
    }
    // relax capacities
    let c = &sc.init.caps;
    if c.int != usize::MAX || c.float != usize::MAX || c.bool != usize::MAX || c.exec != usize::MAX {
        let mut s = sc.clone();
        s.init.caps = Caps::all(usize::MAX);
        out.push(s);
        for k in 0..4 {
            let mut s = sc.clone();
            match k {
                0 => s.init.caps.exec = usize::MAX,
                1 => s.init.caps.int = usize::MAX,
                2 => s.init.caps.float = usize::MAX,
                _ => s.init.caps.bool = usize::MAX,
            }
            if s.init.caps != sc.init.caps {
                out.push(s);
            }
        }
    }
    if sc.init.limit != usize::MAX {
        let mut s = sc.clone();
        s.init.limit = usize::MAX;
        out.push(s);
    }
    out
}

/// Names mentioned by a program (to validate scenarios after shrinking).
pub fn mentions(p: &[Prog], out: &mut Vec<String>) {
    for x in p {
        match x {
            Prog::I(Ins::Input(n)) => out.push(n.clone()),
            Prog::I(Ins::PushExec(b)) => mentions(std::slice::from_ref(&**b), out),
            Prog::B(v) => mentions(v, out),
            Prog::I(_) => {}
        }
    }
}

pub fn all_inputs_bound(sc: &VmSc) -> bool {
    let mut m = Vec::new();
    mentions(&sc.init.program, &mut m);
    m.iter().all(|n| sc.init.inputs.iter().any(|(k, _)| k == n))
}
