//! `vmsim` — the Push VM simulator (engine E2). Runs the *real* interpreter in
//! two modes (harness-stepped, real loop), injects resource faults between
//! steps, and checks refinement against `pushmodel`, error-state preservation,
//! skip semantics, totality and bounds.

use ordered_float::OrderedFloat;
use push::{
    error::{into_state::IntoState, Error as PushError},
    instruction::instruction_error::PushInstructionError,
    push_vm::{
        program::PushProgram,
        push_state::PushState,
        stack::StackError,
        HasStack, State,
    },
};
use serde::{Deserialize, Serialize};
use simcore::{catch, Obs, Violation};

use crate::{
    pushmodel::{self, Class, M},
    vm::{
        build_real, exec_contents, prog_name, rebuild, snap, to_real, ExecOp, Ins, Prog, Snap, Ty,
        VmInit,
    },
};

#[derive(Serialize, Deserialize, Clone, Debug, PartialEq)]
pub enum Fault {
    /// before step `step`: set the stack's maximum to its current size + slack
    CapShrink { step: usize, ty: Ty, slack: usize },
    /// before step `step`: discard elements of a value stack down to `keep`
    Starve { step: usize, ty: Ty, keep: usize },
}

impl Fault {
    fn step(&self) -> usize {
        match self {
            Fault::CapShrink { step, .. } | Fault::Starve { step, .. } => *step,
        }
    }
}

#[derive(Serialize, Deserialize, Clone, Debug, PartialEq)]
pub struct VmSc {
    pub init: VmInit,
    pub faults: Vec<Fault>,
    /// step limits for the real loop (mode B); only used when the stepped run
    /// is known to end
    pub limits: Vec<usize>,
    pub rebuild_at: Option<usize>,
    /// long execution (thousands of steps of a looping program): only the real loop runs, compared with
    /// a model-only run at the end (`long_run`)
    #[serde(default)]
    pub long: bool,
}

#[derive(Clone, Copy, Debug, PartialEq, Eq)]
pub enum Prop {
    C01,
    C02,
    C03,
}

pub struct Tagged {
    pub prop: Prop,
    pub v: Violation,
}

fn tag(prop: Prop, clause: &str, key: String, msg: String) -> Tagged {
    Tagged { prop, v: Violation::new(clause, key, msg) }
}

/// Upper bound on harness-stepped steps per run (cost bound only).
pub const STEP_CAP: usize = 400;
/// Upper bound on the total number of program nodes on the exec stack while stepping.
pub const EXEC_NODE_CAP: usize = 3000;

fn model_matches(m: &M, sn: &Snap, real: &PushState) -> bool {
    if m.int != sn.int || m.bool != sn.bool || m.out != sn.out || m.caps != sn.caps {
        return false;
    }
    if m.float_bits() != sn.float {
        return false;
    }
    if m.exec.len() != sn.exec_len {
        return false;
    }
    let exec: Vec<PushProgram> = m.exec.iter().map(to_real).collect();
    *real.stack::<PushProgram>() == exec
}

/// Output text for messages: long outputs are abbreviated.
fn short_out(s: &str) -> String {
    if s.len() <= 160 {
        format!("{s:?}")
    } else {
        let head: String = s.chars().take(60).collect();
        let tail: String = s.chars().rev().take(40).collect::<Vec<_>>().into_iter().rev().collect();
        format!("{head:?}..({} bytes)..{tail:?}", s.len())
    }
}

fn describe(m: &M) -> String {
    format!(
        "int={:?} float={:?} bool={:?} exec_len={} out={} caps={:?}",
        m.int,
        m.float,
        m.bool,
        m.exec.len(),
        short_out(&m.out),
        m.caps
    )
}

fn describe_snap(s: &Snap) -> String {
    format!(
        "int={:?} float={:?} bool={:?} exec_len={} out={} caps={:?}",
        s.int,
        s.float.iter().map(|b| f64::from_bits(*b)).collect::<Vec<_>>(),
        s.bool,
        s.exec_len,
        short_out(&s.out),
        s.caps
    )
}

/// `caps` = the *configured* maxima (exec, int, float, bool): what the builder
/// / the harness set, not what the state currently claims — an instruction
/// that silently changed a maximum must not excuse an over-full stack.
fn sizes_within_caps(sn: &Snap, caps: &[usize; 4]) -> bool {
    sn.exec_len <= caps[0] && sn.int.len() <= caps[1] && sn.float.len() <= caps[2] && sn.bool.len() <= caps[3]
}

/// Does the error value look like "a stack would overflow"? Only used as a secondary signal: WHERE a fatal error is
/// allowed is decided by the model ("a stack would overflow at exactly this step"), not by the error's variant — a
/// maintainer may report overflow through another variant (e.g. a `CapacityExceeded` with counts).
fn is_overflow_err(e: &PushInstructionError) -> bool {
    if matches!(e, PushInstructionError::StackError(StackError::Overflow { .. })) {
        return true;
    }
    // any other stack error that is not the (structurally known) underflow
    matches!(e, PushInstructionError::StackError(se) if !matches!(se, StackError::Underflow { .. }))
}

pub struct Stepped {
    /// real state after k completed steps (index k)
    pub states: Vec<PushState>,
    /// Some(t): the t-th perform (0-based) failed fatally; carries the state
    /// handed back with the error
    pub fatal_at: Option<(usize, PushState)>,
    /// steps completed
    pub steps: usize,
    /// true iff the run ended because exec ran empty or a fatal error struck
    /// (not because of STEP_CAP / the step limit)
    pub ended: bool,
    /// step indices at which an instruction failed recoverably (pre-pop state
    /// is states[t])
    pub recoverable_at: Vec<usize>,
    pub aborted_by_violation: bool,
}

/// Mode A: harness-stepped run of the real code, with the model alongside.
#[allow(clippy::too_many_lines)]
pub fn stepped(sc: &VmSc, with_faults: bool, keep_states: bool, obs: &mut Obs, out: &mut Vec<Tagged>) -> Option<Stepped> {
    let init = &sc.init;
    let mut real = match build_real(init) {
        Ok(s) => s,
        Err(_) => {
            obs.hit("probe.builder-rejected-initial-contents");
            return None;
        }
    };
    let mut model = M::from_init(init);
    let mut res = Stepped {
        states: Vec::new(),
        fatal_at: None,
        steps: 0,
        ended: false,
        recoverable_at: Vec::new(),
        aborted_by_violation: false,
    };
    if keep_states {
        res.states.push(real.clone());
    }
    {
        let sn = snap(&real);
        if !model_matches(&model, &sn, &real) {
            // builder misbehaviour is C19's subject; without an equal start
            // nothing downstream is meaningful
            obs.hit("probe.initial-state-differs-from-model");
            return None;
        }
    }
    let max_steps = init.limit.min(STEP_CAP + init.wrap);
    let mut t = 0usize;
    while t < max_steps {
        if with_faults {
            for f in sc.faults.iter().filter(|f| f.step() == t) {
                match f {
                    Fault::CapShrink { ty, slack, .. } => {
                        let size = model.len(*ty);
                        let c = size.saturating_add(*slack);
                        match ty {
                            Ty::Exec => real.stack_mut::<PushProgram>().set_max_stack_size(c),
                            Ty::Int => real.stack_mut::<i64>().set_max_stack_size(c),
                            Ty::Float => real.stack_mut::<OrderedFloat<f64>>().set_max_stack_size(c),
                            Ty::Bool => real.stack_mut::<bool>().set_max_stack_size(c),
                        }
                        model.set_cap(*ty, c);
                        obs.hit("fault.capacity-shrink");
                    }
                    Fault::Starve { ty, keep, .. } => {
                        let size = model.len(*ty);
                        if size > *keep {
                            let n = size - keep;
                            let r = match ty {
                                Ty::Exec => Ok(()),
                                Ty::Int => real.stack_mut::<i64>().discard(n),
                                Ty::Float => real.stack_mut::<OrderedFloat<f64>>().discard(n),
                                Ty::Bool => real.stack_mut::<bool>().discard(n),
                            };
                            if r.is_ok() && *ty != Ty::Exec {
                                model.truncate(*ty, *keep);
                                obs.hit("fault.operand-starve");
                            }
                        }
                    }
                }
            }
        }
        // pop exec
        let popped = real.stack_mut::<PushProgram>().pop();
        let mp = model.exec.pop();
        let (program, mp) = match (popped, mp) {
            (Err(_), None) => {
                res.ended = true;
                break;
            }
            (Ok(p), Some(mp)) => (p, mp),
            (Ok(_), None) | (Err(_), Some(_)) => {
                out.push(tag(
                    Prop::C01,
                    "front-to-back-order",
                    "exec-length".into(),
                    format!("step {t}: exec stack and model disagree on emptiness"),
                ));
                res.aborted_by_violation = true;
                break;
            }
        };
        let name = prog_name(&mp);
        if program != to_real(&mp) {
            out.push(tag(
                Prop::C01,
                "front-to-back-order",
                format!("next-instruction:{name}"),
                format!("step {t}: real exec top is {program}, model expected {name}"),
            ));
            res.aborted_by_violation = true;
            break;
        }
        let post_pop = real.clone();
        let allowed = pushmodel::perform(&model, &mp);
        obs.count_dyn(&format!("ins.{name}"), 1);
        let performed = catch(move || real.perform(&program));
        let r = match performed {
            Ok(r) => r,
            Err(p) => {
                out.push(tag(
                    Prop::C03,
                    "never-panics",
                    format!("panic:{name}"),
                    format!("step {t}: performing {name} panicked: {} | state before: {}", p.message, describe(&model)),
                ));
                res.aborted_by_violation = true;
                break;
            }
        };
        let (class, new_state, fatal_err) = match r {
            Ok(s) => (Class::Ok, s, None),
            Err(e) => {
                // C02: the state handed back equals the state before the instruction
                if *e.state() != post_pop {
                    out.push(tag(
                        Prop::C02,
                        "error-state-unchanged",
                        format!("error-state:{name}"),
                        format!(
                            "step {t}: {name} failed ({}) but the carried state differs from the state before it: before {} | carried {}",
                            e.error(),
                            describe_snap(&snap(&post_pop)),
                            describe_snap(&snap(e.state()))
                        ),
                    ));
                }
                match e {
                    PushError::Recoverable(re) => {
                        obs.hit("probe.recoverable-error");
                        (Class::Recoverable, re.into_state(), None)
                    }
                    PushError::Fatal(fe) => {
                        obs.hit("probe.fatal-error");
                        let e = PushError::Fatal(fe);
                        let overflow = is_overflow_err(e.error());
                        let text = format!("{}", e.error());
                        (Class::Fatal, e.into_state(), Some((overflow, text)))
                    }
                }
            }
        };
        let sn = snap(&new_state);
        // C03: no stack above its maximum at a step boundary
        if class == Class::Ok && !sizes_within_caps(&sn, &model.caps) {
            out.push(tag(
                Prop::C03,
                "stack-size-within-max",
                format!("over-max:{name}"),
                format!(
                    "step {t}: after {name} a stack exceeds its configured maximum {:?}: {}",
                    model.caps,
                    describe_snap(&sn)
                ),
            ));
        }
        if sn.caps != model.caps {
            out.push(tag(
                Prop::C03,
                "stack-size-within-max",
                format!("max-changed:{name}"),
                format!(
                    "step {t}: {name} changed a stack's maximum size: configured {:?}, now {:?}",
                    model.caps, sn.caps
                ),
            ));
        }
        // C03: only overflow aborts
        if let Some((overflow, text)) = &fatal_err {
            let model_allows_fatal = allowed.iter().any(|o| o.class == Class::Fatal);
            if !*overflow || !model_allows_fatal {
                out.push(tag(
                    Prop::C03,
                    "only-overflow-aborts",
                    format!("abort:{name}"),
                    format!(
                        "step {t}: {name} aborted the program with `{text}` although no stack would overflow: {}",
                        describe(&model)
                    ),
                ));
            }
        }
        // C01: refinement
        let matched = allowed
            .iter()
            .find(|o| o.class == class && model_matches(&o.state, &sn, &new_state));
        match matched {
            Some(o) => {
                model = o.state.clone();
                if allowed.len() > 1 {
                    obs.hit("probe.model-allowed-set-wider-than-one");
                }
            }
            None => {
                let class_ok = allowed.iter().any(|o| o.class == class);
                let exp = allowed
                    .first()
                    .map(|o| format!("{:?} {}", o.class, describe(&o.state)))
                    .unwrap_or_else(|| "<no outcome: unbound input>".into());
                let (clause, key) = if class_ok {
                    ("instruction-semantics", format!("semantics:{name}"))
                } else {
                    ("instruction-outcome-class", format!("outcome-class:{name}"))
                };
                out.push(tag(
                    Prop::C01,
                    clause,
                    key,
                    format!(
                        "step {t}: {name} in state [{}] gave {:?} [{}]; model expects {} ({} allowed outcome(s))",
                        describe(&model),
                        class,
                        describe_snap(&sn),
                        exp,
                        allowed.len()
                    ),
                ));
                res.aborted_by_violation = true;
                // keep bookkeeping consistent, then stop this run
                if class == Class::Fatal {
                    res.fatal_at = Some((t, new_state));
                }
                break;
            }
        }
        match class {
            Class::Fatal => {
                res.fatal_at = Some((t, new_state));
                res.ended = true;
                break;
            }
            Class::Recoverable => {
                res.recoverable_at.push(t);
                real = new_state;
            }
            Class::Ok => real = new_state,
        }
        t += 1;
        res.steps = t;
        if keep_states {
            res.states.push(real.clone());
        }
        // cost bound of the harness (not of the code under test): an unbounded exec stack may
        // legitimately grow by a whole block per step; stop stepping (the run then counts as
        // "not ended", so the real loop is not consulted) before the recorded states get large
        if model.exec.iter().map(Prog::nodes).sum::<usize>() > EXEC_NODE_CAP + 2 * init.wrap {
            obs.hit("probe.stepping-stopped-at-exec-node-cap");
            break;
        }
    }
    obs.count("steps", res.steps as u64);
    if init.wrap > 0 && !with_faults {
        obs.hit("probe.deep-nesting-run");
        if res.steps > init.wrap {
            obs.hit("probe.deep-nesting-fully-unwrapped");
        }
        if init.wrap > 200 {
            obs.hit("probe.deep-nesting>200");
        }
    }
    Some(res)
}

type LoopResult = Result<PushState, push::error::stateful::FatalError<PushState, PushInstructionError>>;

/// Compare two results of the real loop by value: final states with the
/// derived `PartialEq` (hash-map equality is order independent), fatal errors
/// by carried state and error text.
fn same_result(a: LoopResult, b: LoopResult) -> bool {
    match (a, b) {
        (Ok(x), Ok(y)) => x == y,
        (Err(x), Err(y)) => {
            let (x, y) = (PushError::Fatal(x), PushError::Fatal(y));
            let same_err = format!("{}", x.error()) == format!("{}", y.error());
            same_err && x.into_state() == y.into_state()
        }
        _ => false,
    }
}

/// Full simulation of one scenario: fault-free stepped run with refinement,
/// real-loop comparison for every limit, skip-equals-noop, pause-rebuild-
/// resume, and (if any) the faulted stepped run.
#[allow(clippy::too_many_lines)]
/// Upper bound on the steps of a long execution.
pub const LONG_CAP: usize = 30_000;

/// Long execution: the real loop alone runs a (typically looping) program for up to `LONG_CAP` steps; a
/// model-only run of the same length predicts the outcome. Where the model allows more than one outcome
/// at some step (statement-silent corners) the exact comparison is skipped and only the invariants that
/// need no prediction are checked (returns, no panic, only overflow aborts, sizes within maxima).
pub fn long_run(sc: &VmSc, obs: &mut Obs) -> Vec<Tagged> {
    let mut out = Vec::new();
    if !crate::vmgen::all_inputs_bound(sc) {
        return out;
    }
    let mut init = sc.init.clone();
    // (a single entry in `limits` overrides the cap: the "very long" executions of millions of steps)
    init.limit = init.limit.min(sc.limits.first().copied().unwrap_or(LONG_CAP));
    let l = init.limit;
    let Ok(real) = build_real(&init) else {
        obs.hit("probe.builder-rejected-initial-contents");
        return out;
    };
    // ---- model-only run (the output is accumulated outside the model so that a step never copies it)
    let mut m = M::from_init(&init);
    let mut printed = String::new();
    let mut steps = 0usize;
    let mut ambiguous = false;
    let mut model_fatal: Option<(usize, String)> = None;
    let giant = init.giant > 0;
    if giant {
        obs.hit("probe.giant-block>=65536-children");
    }
    while steps < l {
        let Some(p) = m.exec.pop() else { break };
        if giant {
            // in-place forms of the successful cases of the cheapest instructions (a general model step copies
            // the whole state, which is quadratic over a block of 10^5 children); every failing case and every
            // other instruction goes through `perform` below
            let done = match &p {
                Prog::B(ch) if ch.len().checked_add(m.exec.len()).is_some_and(|t| t <= m.caps[0]) => {
                    m.exec.extend(ch.iter().rev().cloned());
                    true
                }
                Prog::I(Ins::PushInt(v)) if m.int.len() < m.caps[1] => {
                    m.int.push(*v);
                    true
                }
                Prog::I(Ins::PushBool(b)) if m.bool.len() < m.caps[3] => {
                    m.bool.push(*b);
                    true
                }
                // (popping an empty stack is a recoverable error: the instruction is skipped, the step counts)
                Prog::I(Ins::Pop(Ty::Int)) => {
                    m.int.pop();
                    true
                }
                Prog::I(Ins::Pop(Ty::Bool)) => {
                    m.bool.pop();
                    true
                }
                Prog::I(Ins::Exec(ExecOp::Noop)) => true,
                _ => false,
            };
            if done {
                steps += 1;
                continue;
            }
        }
        let mut outs = pushmodel::perform(&m, &p);
        if outs.len() != 1 {
            ambiguous = true;
            break;
        }
        let o = outs.pop().unwrap_or_else(|| unreachable!());
        let class = o.class;
        m = o.state;
        if !m.out.is_empty() {
            printed.push_str(&m.out);
            m.out.clear();
        }
        if class == Class::Fatal {
            model_fatal = Some((steps, prog_name(&p)));
            break;
        }
        steps += 1;
        if !giant && steps % 256 == 0 && (m.exec.iter().map(Prog::nodes).sum::<usize>() > 40_000 || printed.len() > 8_000_000) {
            ambiguous = true; // cost bound of the harness
            break;
        }
    }
    m.out = printed;
    obs.count("steps", steps as u64);
    obs.hit("probe.long-run");
    if steps >= 1_000_000 {
        obs.hit("probe.long-run-of-millions-of-steps");
    }
    if ambiguous {
        obs.hit("probe.long-run-without-exact-prediction");
    }
    if m.out.len() > 65_536 {
        obs.hit("probe.long-run-output>64KiB");
    }
    // ---- the real loop
    let r = match catch(move || real.run_to_completion()) {
        Ok(r) => r,
        Err(p) => {
            out.push(tag(
                Prop::C03,
                "never-panics",
                "panic:run_to_completion:long".into(),
                format!("run_to_completion (limit {l}, long execution) panicked: {}", p.message),
            ));
            return out;
        }
    };
    let configured = [init.caps.exec, init.caps.int, init.caps.float, init.caps.bool];
    match r {
        Ok(fin) => {
            let sn = snap(&fin);
            if !sizes_within_caps(&sn, &configured) {
                out.push(tag(
                    Prop::C03,
                    "stack-size-within-max",
                    "over-max:long".into(),
                    format!("limit {l}: final state of a long execution exceeds a maximum: {}", describe_snap(&sn)),
                ));
            }
            if !ambiguous {
                if let Some((t, name)) = &model_fatal {
                    out.push(tag(
                        Prop::C01,
                        "real-loop-vs-model",
                        "long-missed-fatal".into(),
                        format!("limit {l}: the model meets a fatal overflow at step {t} ({name}) but run_to_completion returned Ok [{}]", describe_snap(&sn)),
                    ));
                } else if !model_matches(&m, &sn, &fin) {
                    out.push(tag(
                        Prop::C01,
                        "real-loop-vs-model",
                        "long-state-differs".into(),
                        format!(
                            "limit {l}: after {steps} model steps the model is in [{}] but run_to_completion ended in [{}]",
                            describe(&m),
                            describe_snap(&sn)
                        ),
                    ));
                }
            }
        }
        Err(fe) => {
            obs.hit("probe.real-loop-fatal");
            let e = PushError::Fatal(fe);
            if !is_overflow_err(e.error()) {
                out.push(tag(
                    Prop::C03,
                    "only-overflow-aborts",
                    "abort:long".into(),
                    format!("limit {l}: a long execution failed with `{}`", e.error()),
                ));
            }
            let text = format!("{}", e.error());
            let st = e.into_state();
            let sn = snap(&st);
            if !ambiguous {
                match &model_fatal {
                    None => out.push(tag(
                        Prop::C03,
                        "only-overflow-aborts",
                        "long-unexpected-fatal".into(),
                        format!("limit {l}: run_to_completion failed with `{text}` but the model meets no overflow in {steps} steps [{}]", describe(&m)),
                    )),
                    Some((t, name)) => {
                        if !model_matches(&m, &sn, &st) {
                            out.push(tag(
                                Prop::C02,
                                "fatal-carries-pre-state",
                                "long-fatal-state".into(),
                                format!(
                                    "limit {l}: the state carried by the fatal error differs from the model's state before step {t} ({name}): {} vs {}",
                                    describe_snap(&sn),
                                    describe(&m)
                                ),
                            ));
                        }
                    }
                }
            }
        }
    }
    out
}

/// Evaluation must be a function of (program, inputs, limits) — not of how long it takes. One evaluation with
/// step limit K*c is compared with K consecutive evaluations of c steps each (each continuing from the state
/// the previous one returned): the same K*c steps, but every piece is short in real time. Needs no model.
pub fn chunked_vs_whole(sc: &VmSc, chunk: usize, k: usize, obs: &mut Obs) -> Vec<Tagged> {
    let mut out = Vec::new();
    let mut whole_init = sc.init.clone();
    whole_init.limit = chunk.saturating_mul(k);
    let mut piece_init = sc.init.clone();
    piece_init.limit = chunk;
    let (Ok(whole), Ok(mut piece)) = (build_real(&whole_init), build_real(&piece_init)) else { return out };
    let t0 = std::time::Instant::now();
    let whole = catch(move || whole.run_to_completion());
    let whole_ms = t0.elapsed().as_millis() as u64;
    let mut pieces_ok = true;
    for _ in 0..k {
        match catch(move || piece.run_to_completion()) {
            Ok(Ok(st)) => piece = st,
            _ => {
                pieces_ok = false;
                // (a fatal error or a panic inside a piece: the ordinary long run reports those)
                return out;
            }
        }
    }
    obs.hit("probe.whole-vs-chunked-evaluation");
    if !obs.audit {
        // (a real-time measurement: reported as evidence, not part of the determinism audit)
        obs.count("probe.whole-evaluation-real-milliseconds", whole_ms);
    }
    obs.count("steps", 2 * whole_init.limit as u64);
    if let (Ok(Ok(w)), true) = (whole, pieces_ok) {
        let (a, b) = (snap(&w), snap(&piece));
        // (capacities and contents; the two states carry different step limits by construction)
        if a != b || exec_contents(&w) != exec_contents(&piece) {
            out.push(tag(
                Prop::C03,
                "at-most-limit-steps",
                "whole-vs-chunked-evaluation".into(),
                format!(
                    "one evaluation with step limit {} ended in [{}], {k} consecutive evaluations of {chunk} steps ended in [{}] \
                     (the single evaluation took {whole_ms} ms of real time)",
                    whole_init.limit,
                    describe_snap(&a),
                    describe_snap(&b)
                ),
            ));
        }
    }
    out
}

/// The characters `PrintChar` is instantiated for by the harness (ASCII, Latin-1, 2-, 3- and 4-byte UTF-8, the
/// first and the last scalar values around the surrogate gap).
pub const PRINT_CHARS: [char; 12] = ['a', ' ', '\0', '\u{7f}', '\u{80}', 'é', 'ÿ', 'λ', '→', '\u{d7ff}', '🦀', '\u{10ffff}'];

fn print_char_probe(sc: &VmSc, c: char, obs: &mut Obs) -> Vec<Tagged> {
    use push::instruction::{printing::PrintChar, Instruction};
    let mut out = Vec::new();
    let Ok(state) = build_real(&sc.init) else { return out };
    macro_rules! go {
        ($($ch:literal),+) => {
            match c {
                $($ch => Some(catch(move || PrintChar::<$ch>.perform(state))),)+
                _ => None,
            }
        };
    }
    let Some(r) = go!('a', ' ', '\0', '\u{7f}', '\u{80}', 'é', 'ÿ', 'λ', '→', '\u{d7ff}', '🦀', '\u{10ffff}') else { return out };
    obs.hit("probe.print-char-instantiation");
    match r {
        Err(p) => out.push(tag(Prop::C03, "never-panics", format!("panic:PrintChar<{:?}>", c), format!("PrintChar::<{c:?}> panicked: {}", p.message))),
        Ok(Err(e)) => out.push(tag(
            Prop::C01,
            "semantics",
            format!("semantics:PrintChar<{:?}>", c),
            format!("PrintChar::<{c:?}> failed with `{}`", e.error()),
        )),
        Ok(Ok(st)) => {
            let sn = snap(&st);
            if sn.out != c.to_string() {
                out.push(tag(
                    Prop::C01,
                    "semantics",
                    format!("semantics:PrintChar<{:?}>", c),
                    format!("PrintChar::<{c:?}> printed {:?} (bytes {:?}), expected {:?}", sn.out, sn.out.as_bytes(), c.to_string()),
                ));
            }
        }
    }
    out
}

pub fn simulate(sc: &VmSc, obs: &mut Obs) -> Vec<Tagged> {
    if sc.long {
        let mut out = long_run(sc, obs);
        if let [steps] = sc.limits[..] {
            if steps >= 1_000_000 && !out.iter().any(|t| t.prop == Prop::C03) {
                out.extend(chunked_vs_whole(sc, steps, 6, obs));
            }
        }
        return out;
    }
    let mut out = Vec::new();
    // the character-printing instruction is generic over its character (`PrintChar<const CHAR>`); the interpreter's
    // instruction set names three instantiations only. A program that prints a one-character string is also run
    // through the instantiation for that character: both must print exactly that character.
    if let [Prog::I(Ins::PrintString(text))] = &sc.init.program[..] {
        let mut cs = text.chars();
        if let (Some(c), None) = (cs.next(), cs.next()) {
            out.extend(print_char_probe(sc, c, obs));
        }
    }
    if !crate::vmgen::all_inputs_bound(sc) {
        // (only reachable through shrinking) the properties exclude unbound inputs
        return out;
    }
    let Some(a) = stepped(sc, false, true, obs, &mut out) else {
        return out;
    };
    let init = &sc.init;

    // ---- mode B: the real loop
    if !a.aborted_by_violation && a.ended {
        let total = a.steps; // completed steps
        let mut limits = sc.limits.clone();
        if !limits.is_empty() {
            // every scenario also probes the limits around its own length
            limits.extend([total.saturating_sub(1), total, total + 1]);
        }
        for &l in &limits {
            let mut i2 = init.clone();
            i2.limit = l;
            let Ok(st) = build_real(&i2) else { continue };
            obs.hit("probe.real-loop-runs");
            let r = catch(move || st.run_to_completion());
            let r = match r {
                Ok(r) => r,
                Err(p) => {
                    out.push(tag(
                        Prop::C03,
                        "never-panics",
                        "panic:run_to_completion".into(),
                        format!("run_to_completion with limit {l} panicked: {}", p.message),
                    ));
                    continue;
                }
            };
            let expect_fatal = a.fatal_at.as_ref().filter(|(t, _)| l > *t);
            match (r, expect_fatal) {
                (Ok(fin), None) => {
                    let k = l.min(total);
                    obs.hit("fault.step-budget-cut");
                    let want = &a.states[k];
                    let got = snap(&fin);
                    let configured =
                        [init.caps.exec, init.caps.int, init.caps.float, init.caps.bool];
                    if !sizes_within_caps(&got, &configured) {
                        out.push(tag(
                            Prop::C03,
                            "stack-size-within-max",
                            "over-max:loop".into(),
                            format!("limit {l}: final state exceeds a maximum: {}", describe_snap(&got)),
                        ));
                    }
                    if got != snap(want) || exec_contents(&fin) != exec_contents(want) {
                        // did it perform a different number of steps?
                        let other = a
                            .states
                            .iter()
                            .position(|s| snap(s) == got && exec_contents(s) == exec_contents(&fin));
                        let (prop, clause, key) = match other {
                            Some(j) if j > k => (Prop::C03, "at-most-limit-steps", "loop-too-many-steps".to_string()),
                            Some(_) => (Prop::C01, "real-loop-vs-stepped", "loop-too-few-steps".to_string()),
                            None => (Prop::C01, "real-loop-vs-stepped", "loop-state-differs".to_string()),
                        };
                        out.push(tag(
                            prop,
                            clause,
                            key,
                            format!(
                                "limit {l}: run_to_completion ended in [{}] but stepping {k} step(s) gives [{}] (matches stepped state #{other:?})",
                                describe_snap(&got),
                                describe_snap(&snap(want))
                            ),
                        ));
                    }
                }
                (Err(fe), Some((t, carried))) => {
                    obs.hit("probe.real-loop-fatal");
                    let e = PushError::Fatal(fe);
                    if !is_overflow_err(e.error()) {
                        out.push(tag(
                            Prop::C03,
                            "only-overflow-aborts",
                            "abort:loop".into(),
                            format!("limit {l}: run_to_completion failed with `{}`", e.error()),
                        ));
                    }
                    let st = e.into_state();
                    // (the two states were built with different step limits, so
                    // compare everything observable except the limit)
                    if snap(&st) != snap(carried) || exec_contents(&st) != exec_contents(carried) {
                        out.push(tag(
                            Prop::C02,
                            "fatal-carries-pre-state",
                            "loop-fatal-state".into(),
                            format!(
                                "limit {l}: the state carried by the fatal error of the real loop differs from the state before the failing instruction (step {t}): {} vs {}",
                                describe_snap(&snap(&st)),
                                describe_snap(&snap(carried))
                            ),
                        ));
                    }
                }
                (Ok(fin), Some((t, _))) => {
                    out.push(tag(
                        Prop::C01,
                        "real-loop-vs-stepped",
                        "loop-missed-fatal".into(),
                        format!(
                            "limit {l}: stepping hits a fatal overflow at step {t} but run_to_completion returned Ok [{}]",
                            describe_snap(&snap(&fin))
                        ),
                    ));
                }
                (Err(fe), None) => {
                    let e = PushError::Fatal(fe);
                    out.push(tag(
                        Prop::C03,
                        "only-overflow-aborts",
                        "loop-unexpected-fatal".into(),
                        format!(
                            "limit {l}: run_to_completion failed with `{}` but stepping {} step(s) meets no fatal error",
                            e.error(),
                            l.min(total)
                        ),
                    ));
                }
            }
        }
    }

    // ---- skip semantics: a recoverably failing X behaves like Noop
    if !a.aborted_by_violation {
        for &t in a.recoverable_at.iter().take(2) {
            let s = &a.states[t];
            let remaining = a.steps - t;
            for l in [1usize, 2, remaining + 1] {
                let x = rebuild(s, &init.inputs, l, None);
                let n = rebuild(s, &init.inputs, l, Some(to_real(&Prog::I(Ins::Exec(ExecOp::Noop)))));
                let (Ok(x), Ok(n)) = (x, n) else { continue };
                obs.hit("probe.skip-equals-noop-compared");
                let rx = catch(move || x.run_to_completion());
                let rn = catch(move || n.run_to_completion());
                let (Ok(rx), Ok(rn)) = (rx, rn) else {
                    out.push(tag(
                        Prop::C03,
                        "never-panics",
                        "panic:run_to_completion".into(),
                        format!("run_to_completion panicked while comparing a failed instruction with Noop (step {t}, limit {l})"),
                    ));
                    continue;
                };
                if !same_result(rx, rn) {
                    let nm = exec_contents(s).last().map(|p| format!("{p}")).unwrap_or_default();
                    out.push(tag(
                        Prop::C02,
                        "skip-equals-noop",
                        "skip-equals-noop".into(),
                        format!(
                            "step {t}, limit {l}: running on after the recoverably failing {nm} differs from running with Noop in its place"
                        ),
                    ));
                }
            }
        }
    }

    // ---- pause, rebuild from observable state, resume
    if let (false, true, Some(t)) = (a.aborted_by_violation, a.ended, sc.rebuild_at) {
        if t <= a.steps && !a.states.is_empty() {
            let s = &a.states[t];
            let budget = a.steps - t + 2;
            if let Ok(st) = rebuild(s, &init.inputs, budget, None) {
                obs.hit("fault.pause-rebuild-resume");
                match catch(move || st.run_to_completion()) {
                    Err(p) => out.push(tag(
                        Prop::C03,
                        "never-panics",
                        "panic:run_to_completion".into(),
                        format!("resumed run panicked: {}", p.message),
                    )),
                    Ok(Ok(fin)) => {
                        let want = a.states.last().unwrap_or(s);
                        if a.fatal_at.is_some() || snap(&fin) != snap(want) || exec_contents(&fin) != exec_contents(want) {
                            out.push(tag(
                                Prop::C01,
                                "pause-rebuild-resume",
                                "resume-differs".into(),
                                format!(
                                    "rebuilding the state after step {t} and resuming ends in [{}], the uninterrupted run in [{}] (fatal: {})",
                                    describe_snap(&snap(&fin)),
                                    describe_snap(&snap(want)),
                                    a.fatal_at.is_some()
                                ),
                            ));
                        }
                    }
                    Ok(Err(fe)) => {
                        let st = PushError::<PushState, PushInstructionError>::Fatal(fe).into_state();
                        let same = a
                            .fatal_at
                            .as_ref()
                            .is_some_and(|(_, c)| snap(c) == snap(&st) && exec_contents(c) == exec_contents(&st));
                        if !same {
                            out.push(tag(
                                Prop::C01,
                                "pause-rebuild-resume",
                                "resume-differs".into(),
                                format!("rebuilding after step {t} and resuming fails fatally, unlike the uninterrupted run"),
                            ));
                        }
                    }
                }
            }
        }
    }

    // ---- the same program with resource faults striking between steps
    if !sc.faults.is_empty() {
        let _ = stepped(sc, true, false, obs, &mut out);
    }
    out
}
