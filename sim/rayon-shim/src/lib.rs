//! Stand-in for `rayon` under the shuttle scheduler (C09, engine E4).
//!
//! Models what `ec_core::generation` uses, following rayon's documented behaviour:
//! * `iter::repeatn(x, n)` — an indexed parallel iterator of n clones;
//! * `map_init(init, f)` — `init()` is called once per *split* (here: once per
//!   job), `f(&mut state, item)` once per item;
//! * `collect::<Vec<_>>()` keeps index order;
//! * `collect::<Result<C, E>>()` — the first error to be *stored* wins, and
//!   once an error was seen other workers stop taking items (rayon's `full`
//!   flag), so some items may never be attempted.
//!
//! The number of workers / jobs and the split points come from a per-thread
//! configuration the harness sets before each execution.

use std::cell::RefCell;
use std::collections::VecDeque;

use shuttle::sync::atomic::{AtomicBool, Ordering};
use shuttle::sync::Mutex;

#[derive(Clone, Debug)]
pub struct ShimConfig {
    pub workers: usize,
    /// job boundaries: sorted split points inside 0..n are derived from these
    /// fractions (in 1/1024ths)
    pub splits: Vec<u16>,
}

impl Default for ShimConfig {
    fn default() -> Self {
        Self { workers: 2, splits: vec![512] }
    }
}

thread_local! {
    static CONFIG: RefCell<ShimConfig> = RefCell::new(ShimConfig::default());
    static STATS: RefCell<ShimStats> = RefCell::new(ShimStats::default());
}

#[derive(Clone, Debug, Default)]
pub struct ShimStats {
    pub jobs: usize,
    pub items_attempted: usize,
    pub items_skipped_after_stop: usize,
    pub inits: usize,
}

/// Configuration lives in a plain thread-local: all shuttle "threads" of one
/// execution are continuations on the OS thread that runs the execution.
pub fn configure(c: ShimConfig) {
    CONFIG.with(|x| *x.borrow_mut() = c);
    STATS.with(|s| *s.borrow_mut() = ShimStats::default());
}

pub fn take_stats() -> ShimStats {
    STATS.with(|s| std::mem::take(&mut *s.borrow_mut()))
}

pub mod prelude {
    pub use crate::iter::{FromParallelIterator, ParallelIterator};
}

pub mod iter {
    use super::*;

    pub trait ParallelIterator: Sized + Send {
        type Item: Send;

        /// Number of items (all iterators modelled here are indexed).
        fn len(&self) -> usize;

        /// Hand every item to `consume(index, item)`; `consume` returns false
        /// to signal "full" (stop taking further items).
        fn drive(self, consume: &(dyn Fn(usize, Self::Item) -> bool + Sync));

        fn map_init<INIT, T, F, R>(self, init: INIT, f: F) -> MapInit<Self, INIT, F>
        where
            INIT: Fn() -> T + Sync + Send,
            F: Fn(&mut T, Self::Item) -> R + Sync + Send,
            R: Send,
        {
            MapInit { base: self, init, f }
        }

        fn map<F, R>(self, f: F) -> MapInit<Self, fn(), impl Fn(&mut (), Self::Item) -> R + Sync + Send>
        where
            F: Fn(Self::Item) -> R + Sync + Send,
            R: Send,
        {
            fn unit() {}
            MapInit { base: self, init: unit as fn(), f: move |_: &mut (), x| f(x) }
        }

        fn collect<C>(self) -> C
        where
            C: FromParallelIterator<Self::Item>,
        {
            C::from_par_iter(self)
        }
    }

    pub trait FromParallelIterator<T: Send> {
        fn from_par_iter<I>(par_iter: I) -> Self
        where
            I: ParallelIterator<Item = T>;
    }

    /// Source iterators can produce the item at an index on demand.
    pub trait Indexed: Sync {
        type Item: Send;
        fn count(&self) -> usize;
        fn get(&self, i: usize) -> Self::Item;
    }

    pub struct RepeatN<T> {
        item: T,
        n: usize,
    }

    pub fn repeatn<T: Clone + Send + Sync>(item: T, n: usize) -> RepeatN<T> {
        RepeatN { item, n }
    }

    // rayon 1.10 also has the snake-case alias
    pub fn repeat_n<T: Clone + Send + Sync>(item: T, n: usize) -> RepeatN<T> {
        RepeatN { item, n }
    }

    impl<T: Clone + Send + Sync> Indexed for RepeatN<T> {
        type Item = T;
        fn count(&self) -> usize {
            self.n
        }
        fn get(&self, _: usize) -> T {
            self.item.clone()
        }
    }

    impl<T: Clone + Send + Sync> ParallelIterator for RepeatN<T> {
        type Item = T;
        fn len(&self) -> usize {
            self.n
        }
        fn drive(self, consume: &(dyn Fn(usize, T) -> bool + Sync)) {
            run_jobs(&self, &|| (), &|_: &mut (), x| x, consume);
        }
    }

    pub struct MapInit<B, INIT, F> {
        base: B,
        init: INIT,
        f: F,
    }

    impl<B, INIT, T, F, R> ParallelIterator for MapInit<B, INIT, F>
    where
        B: ParallelIterator + Indexed<Item = <B as ParallelIterator>::Item>,
        INIT: Fn() -> T + Sync + Send,
        F: Fn(&mut T, <B as ParallelIterator>::Item) -> R + Sync + Send,
        R: Send,
    {
        type Item = R;
        fn len(&self) -> usize {
            ParallelIterator::len(&self.base)
        }
        fn drive(self, consume: &(dyn Fn(usize, R) -> bool + Sync)) {
            run_jobs(&self.base, &self.init, &self.f, consume);
        }
    }

    /// The scheduler-visible part: split 0..n into jobs, let `workers` shuttle
    /// threads pull jobs from a shared queue; `init()` once per job.
    fn run_jobs<S, INIT, T, F, R>(src: &S, init: &INIT, f: &F, consume: &(dyn Fn(usize, R) -> bool + Sync))
    where
        S: Indexed,
        INIT: Fn() -> T + Sync,
        F: Fn(&mut T, S::Item) -> R + Sync,
        R: Send,
    {
        let n = src.count();
        let cfg = CONFIG.with(|c| c.borrow().clone());
        let mut cuts: Vec<usize> = cfg.splits.iter().map(|s| (*s as usize * n) / 1024).filter(|c| *c > 0 && *c < n).collect();
        cuts.sort_unstable();
        cuts.dedup();
        let mut jobs: VecDeque<(usize, usize)> = VecDeque::new();
        let mut start = 0;
        for c in cuts {
            jobs.push_back((start, c));
            start = c;
        }
        if start < n || n == 0 {
            if n > 0 {
                jobs.push_back((start, n));
            }
        }
        let n_jobs = jobs.len();
        let queue = Mutex::new(jobs);
        let stop = AtomicBool::new(false);
        let attempted = shuttle::sync::atomic::AtomicUsize::new(0);
        let skipped = shuttle::sync::atomic::AtomicUsize::new(0);
        let inits = shuttle::sync::atomic::AtomicUsize::new(0);
        let workers = cfg.workers.max(1);
        let work = || loop {
            let job = queue.lock().unwrap().pop_front();
            let Some((a, b)) = job else { break };
            if stop.load(Ordering::SeqCst) {
                skipped.fetch_add(b - a, Ordering::SeqCst);
                continue;
            }
            inits.fetch_add(1, Ordering::SeqCst);
            let mut state = init();
            for i in a..b {
                if stop.load(Ordering::SeqCst) {
                    skipped.fetch_add(b - i, Ordering::SeqCst);
                    break;
                }
                attempted.fetch_add(1, Ordering::SeqCst);
                let r = f(&mut state, src.get(i));
                if !consume(i, r) {
                    stop.store(true, Ordering::SeqCst);
                }
            }
        };
        if n_jobs > 0 {
            // like rayon, the calling thread takes part in the work
            shuttle::thread::scope(|s| {
                for _ in 1..workers {
                    s.spawn(work);
                }
                work();
            });
        }
        STATS.with(|s| {
            let mut s = s.borrow_mut();
            s.jobs += n_jobs;
            s.items_attempted += attempted.load(Ordering::SeqCst);
            s.items_skipped_after_stop += skipped.load(Ordering::SeqCst);
            s.inits += inits.load(Ordering::SeqCst);
        });
    }

    impl<T: Send> FromParallelIterator<T> for Vec<T> {
        fn from_par_iter<I>(par_iter: I) -> Self
        where
            I: ParallelIterator<Item = T>,
        {
            let n = par_iter.len();
            let slots: Mutex<Vec<Option<T>>> = Mutex::new((0..n).map(|_| None).collect());
            par_iter.drive(&|i, x| {
                slots.lock().unwrap()[i] = Some(x);
                true
            });
            // index order, like rayon's indexed collect
            slots.into_inner().unwrap().into_iter().flatten().collect()
        }
    }

    struct OkAdapter<'a, I, E> {
        inner: I,
        saved: &'a Mutex<Option<E>>,
    }

    impl<I, T, E> ParallelIterator for OkAdapter<'_, I, E>
    where
        I: ParallelIterator<Item = Result<T, E>>,
        T: Send,
        E: Send,
    {
        type Item = T;
        fn len(&self) -> usize {
            self.inner.len()
        }
        fn drive(self, consume: &(dyn Fn(usize, T) -> bool + Sync)) {
            let saved = self.saved;
            self.inner.drive(&|i, r| match r {
                Ok(x) => consume(i, x),
                Err(e) => {
                    let mut g = saved.lock().unwrap();
                    if g.is_none() {
                        *g = Some(e);
                    }
                    false
                }
            });
        }
    }

    impl<C, T, E> FromParallelIterator<Result<T, E>> for Result<C, E>
    where
        C: FromParallelIterator<T>,
        T: Send,
        E: Send,
    {
        fn from_par_iter<I>(par_iter: I) -> Self
        where
            I: ParallelIterator<Item = Result<T, E>>,
        {
            let saved: Mutex<Option<E>> = Mutex::new(None);
            let collection = C::from_par_iter(OkAdapter { inner: par_iter, saved: &saved });
            match saved.into_inner().unwrap() {
                Some(e) => Err(e),
                None => Ok(collection),
            }
        }
    }
}
