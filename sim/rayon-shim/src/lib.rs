//! Stand-in for `rayon` under the shuttle scheduler (C09, engine E4).
//!
//! Models the part of rayon's API that `ec_core::generation` uses (and the
//! neighbouring calls a change to it is likely to reach for), following
//! rayon's documented behaviour:
//! * sources (`repeatn`, ranges, vectors, slices) are split into *jobs*; a pool
//!   of `workers` shuttle threads (the caller included) pulls jobs from a shared
//!   queue — every queue access and every flag access is a scheduling point;
//! * `map_init(init, f)`: `init()` runs once per job (rayon: once per split);
//! * `collect::<Vec<_>>()` keeps source order;
//! * `collect::<Result<C, E>>()`: the first error to be *stored* wins and, once
//!   one was seen, workers stop taking further items (rayon's `full` flag), so
//!   some items may never be attempted;
//! * `current_num_threads()` is the configured worker count.
//!
//! Anything else is simply absent: if the tree under test uses more of rayon
//! than this, the shuttle leg does not build and is skipped with a note (the
//! real-rayon legs still decide the property).

use std::cell::RefCell;
use std::collections::VecDeque;

use shuttle::sync::atomic::{AtomicBool, AtomicUsize, Ordering};
use shuttle::sync::Mutex;

#[derive(Clone, Debug)]
pub struct ShimConfig {
    pub workers: usize,
    /// job boundaries as fractions (1/1024ths) of the source length
    pub splits: Vec<u16>,
}

impl Default for ShimConfig {
    fn default() -> Self {
        Self { workers: 2, splits: vec![512] }
    }
}

#[derive(Clone, Debug, Default)]
pub struct ShimStats {
    pub jobs: usize,
    pub items_attempted: usize,
    pub items_skipped_after_stop: usize,
    pub inits: usize,
}

thread_local! {
    static CONFIG: RefCell<ShimConfig> = RefCell::new(ShimConfig::default());
    static STATS: RefCell<ShimStats> = RefCell::new(ShimStats::default());
}

/// Configuration lives in a plain thread-local: all shuttle "threads" of one
/// execution are continuations on the OS thread that runs the execution.
pub fn configure(c: ShimConfig) {
    CONFIG.with(|x| *x.borrow_mut() = c);
    STATS.with(|s| *s.borrow_mut() = ShimStats::default());
}

pub fn take_stats() -> ShimStats {
    STATS.with(|s| std::mem::take(&mut *s.borrow_mut()))
}

pub fn current_num_threads() -> usize {
    CONFIG.with(|c| c.borrow().workers.max(1))
}

pub mod prelude {
    pub use crate::iter::{
        FromParallelIterator, IndexedParallelIterator, IntoParallelIterator, IntoParallelRefIterator, ParallelIterator,
    };
}

pub mod iter {
    use super::*;

    /// Position of an item in the output order (source index, sub-index for
    /// `flat_map_iter`).
    pub type Key = (usize, usize);

    pub trait ParallelIterator: Sized + Send {
        type Item: Send;

        /// The one primitive: run the pipeline on the worker pool. `init()` is
        /// called once per job; `g(state, key, item)` once per produced item and
        /// returns false to signal "full" (stop taking further items).
        fn drive_stateful<T, INIT, G>(self, init: &INIT, g: &G)
        where
            INIT: Fn() -> T + Sync,
            G: Fn(&mut T, Key, Self::Item) -> bool + Sync;

        fn drive(self, consume: &(dyn Fn(Key, Self::Item) -> bool + Sync)) {
            self.drive_stateful(&|| (), &|(): &mut (), k, x| consume(k, x));
        }

        fn map<F, R>(self, f: F) -> Map<Self, F>
        where
            F: Fn(Self::Item) -> R + Sync + Send,
            R: Send,
        {
            Map { base: self, f }
        }

        fn map_init<INIT, T, F, R>(self, init: INIT, f: F) -> MapInit<Self, INIT, F>
        where
            INIT: Fn() -> T + Sync + Send,
            F: Fn(&mut T, Self::Item) -> R + Sync + Send,
            R: Send,
        {
            MapInit { base: self, init, f }
        }

        fn map_with<T, F, R>(self, init: T, f: F) -> MapInit<Self, CloneInit<T>, F>
        where
            T: Clone + Send + Sync,
            F: Fn(&mut T, Self::Item) -> R + Sync + Send,
            R: Send,
        {
            MapInit { base: self, init: CloneInit(init), f }
        }

        fn flat_map_iter<F, SI>(self, f: F) -> FlatMapIter<Self, F>
        where
            F: Fn(Self::Item) -> SI + Sync + Send,
            SI: IntoIterator,
            SI::Item: Send,
        {
            FlatMapIter { base: self, f }
        }

        fn filter_map<F, R>(self, f: F) -> FilterMap<Self, F>
        where
            F: Fn(Self::Item) -> Option<R> + Sync + Send,
            R: Send,
        {
            FilterMap { base: self, f }
        }

        fn for_each<F>(self, f: F)
        where
            F: Fn(Self::Item) + Sync + Send,
        {
            self.drive(&|_, x| {
                f(x);
                true
            });
        }

        fn count(self) -> usize {
            let n = std::sync::atomic::AtomicUsize::new(0);
            self.drive(&|_, _| {
                n.fetch_add(1, std::sync::atomic::Ordering::SeqCst);
                true
            });
            n.into_inner()
        }

        fn collect<C>(self) -> C
        where
            C: FromParallelIterator<Self::Item>,
        {
            C::from_par_iter(self)
        }
    }

    pub trait IndexedParallelIterator: ParallelIterator {
        fn len(&self) -> usize;

        fn enumerate(self) -> Enumerate<Self> {
            Enumerate { base: self }
        }

        /// Splitting hints: the stand-in decides its own (seeded) split points, so these are accepted and ignored.
        fn with_min_len(self, _min: usize) -> Self {
            self
        }

        fn with_max_len(self, _max: usize) -> Self {
            self
        }
    }

    pub trait FromParallelIterator<T: Send> {
        fn from_par_iter<I>(par_iter: I) -> Self
        where
            I: ParallelIterator<Item = T>;
    }

    pub trait IntoParallelIterator {
        type Iter: ParallelIterator<Item = Self::Item>;
        type Item: Send;
        fn into_par_iter(self) -> Self::Iter;
    }

    pub trait IntoParallelRefIterator<'data> {
        type Iter: ParallelIterator<Item = Self::Item>;
        type Item: Send + 'data;
        fn par_iter(&'data self) -> Self::Iter;
    }

    // ---- sources -----------------------------------------------------------

    /// A source can produce the item at an index on demand.
    pub trait Source: Sync + Send + Sized {
        type Item: Send;
        fn count(&self) -> usize;
        fn get(&self, i: usize) -> Self::Item;
    }

    pub struct RepeatN<T> {
        item: T,
        n: usize,
    }

    pub fn repeatn<T: Clone + Send + Sync>(item: T, n: usize) -> RepeatN<T> {
        RepeatN { item, n }
    }

    pub fn repeat_n<T: Clone + Send + Sync>(item: T, n: usize) -> RepeatN<T> {
        RepeatN { item, n }
    }

    impl<T: Clone + Send + Sync> Source for RepeatN<T> {
        type Item = T;
        fn count(&self) -> usize {
            self.n
        }
        fn get(&self, _: usize) -> T {
            self.item.clone()
        }
    }

    pub struct RangeIter(std::ops::Range<usize>);

    impl Source for RangeIter {
        type Item = usize;
        fn count(&self) -> usize {
            self.0.end.saturating_sub(self.0.start)
        }
        fn get(&self, i: usize) -> usize {
            self.0.start + i
        }
    }

    impl IntoParallelIterator for std::ops::Range<usize> {
        type Iter = RangeIter;
        type Item = usize;
        fn into_par_iter(self) -> RangeIter {
            RangeIter(self)
        }
    }

    pub struct SliceIter<'a, T>(&'a [T]);

    impl<'a, T: Sync> Source for SliceIter<'a, T> {
        type Item = &'a T;
        fn count(&self) -> usize {
            self.0.len()
        }
        fn get(&self, i: usize) -> &'a T {
            &self.0[i]
        }
    }

    impl<'data, T: Sync + 'data> IntoParallelRefIterator<'data> for Vec<T> {
        type Iter = SliceIter<'data, T>;
        type Item = &'data T;
        fn par_iter(&'data self) -> SliceIter<'data, T> {
            SliceIter(self)
        }
    }

    impl<'data, T: Sync + 'data> IntoParallelRefIterator<'data> for [T] {
        type Iter = SliceIter<'data, T>;
        type Item = &'data T;
        fn par_iter(&'data self) -> SliceIter<'data, T> {
            SliceIter(self)
        }
    }

    pub struct VecIter<T>(Vec<Mutex<Option<T>>>);

    impl<T: Send> Source for VecIter<T> {
        type Item = T;
        fn count(&self) -> usize {
            self.0.len()
        }
        fn get(&self, i: usize) -> T {
            self.0[i].lock().unwrap().take().expect("each vector element is taken once")
        }
    }

    impl<T: Send> IntoParallelIterator for Vec<T> {
        type Iter = VecIter<T>;
        type Item = T;
        fn into_par_iter(self) -> VecIter<T> {
            VecIter(self.into_iter().map(|x| Mutex::new(Some(x))).collect())
        }
    }

    macro_rules! source_is_par_iter {
        ($($t:tt)+) => {
            $($t)+ {
                type Item = <Self as Source>::Item;
                fn drive_stateful<ST, INIT, G>(self, init: &INIT, g: &G)
                where
                    INIT: Fn() -> ST + Sync,
                    G: Fn(&mut ST, Key, Self::Item) -> bool + Sync,
                {
                    run_jobs(&self, init, g);
                }
            }
        };
    }
    source_is_par_iter!(impl<T: Clone + Send + Sync> ParallelIterator for RepeatN<T>);
    source_is_par_iter!(impl ParallelIterator for RangeIter);
    source_is_par_iter!(impl<'a, T: Sync> ParallelIterator for SliceIter<'a, T>);
    source_is_par_iter!(impl<T: Send> ParallelIterator for VecIter<T>);

    impl<T: Clone + Send + Sync> IndexedParallelIterator for RepeatN<T> {
        fn len(&self) -> usize {
            self.n
        }
    }
    impl IndexedParallelIterator for RangeIter {
        fn len(&self) -> usize {
            Source::count(self)
        }
    }
    impl<T: Sync> IndexedParallelIterator for SliceIter<'_, T> {
        fn len(&self) -> usize {
            self.0.len()
        }
    }
    impl<T: Send> IndexedParallelIterator for VecIter<T> {
        fn len(&self) -> usize {
            self.0.len()
        }
    }

    /// The scheduler-visible part: split 0..n into jobs, let the worker pool
    /// pull jobs from a shared queue; `init()` once per job.
    fn run_jobs<S, ST, INIT, G>(src: &S, init: &INIT, g: &G)
    where
        S: Source,
        INIT: Fn() -> ST + Sync,
        G: Fn(&mut ST, Key, S::Item) -> bool + Sync,
    {
        let n = src.count();
        let cfg = CONFIG.with(|c| c.borrow().clone());
        let mut cuts: Vec<usize> = cfg.splits.iter().map(|s| (*s as usize * n) / 1024).filter(|c| *c > 0 && *c < n).collect();
        cuts.sort_unstable();
        cuts.dedup();
        let mut jobs: VecDeque<(usize, usize)> = VecDeque::new();
        let mut start = 0;
        for c in cuts {
            jobs.push_back((start, c));
            start = c;
        }
        if start < n {
            jobs.push_back((start, n));
        }
        let n_jobs = jobs.len();
        let queue = Mutex::new(jobs);
        let stop = AtomicBool::new(false);
        let attempted = AtomicUsize::new(0);
        let skipped = AtomicUsize::new(0);
        let inits = AtomicUsize::new(0);
        let workers = cfg.workers.max(1);
        let work = || loop {
            let job = queue.lock().unwrap().pop_front();
            let Some((a, b)) = job else { break };
            if stop.load(Ordering::SeqCst) {
                skipped.fetch_add(b - a, Ordering::SeqCst);
                continue;
            }
            inits.fetch_add(1, Ordering::SeqCst);
            let mut state = init();
            for i in a..b {
                if stop.load(Ordering::SeqCst) {
                    skipped.fetch_add(b - i, Ordering::SeqCst);
                    break;
                }
                attempted.fetch_add(1, Ordering::SeqCst);
                if !g(&mut state, (i, 0), src.get(i)) {
                    stop.store(true, Ordering::SeqCst);
                }
            }
        };
        if n_jobs > 0 {
            // like rayon, the calling thread takes part in the work
            shuttle::thread::scope(|s| {
                for _ in 1..workers {
                    s.spawn(work);
                }
                work();
            });
        }
        STATS.with(|s| {
            let mut s = s.borrow_mut();
            s.jobs += n_jobs;
            s.items_attempted += attempted.load(Ordering::SeqCst);
            s.items_skipped_after_stop += skipped.load(Ordering::SeqCst);
            s.inits += inits.load(Ordering::SeqCst);
        });
    }

    // ---- adapters ----------------------------------------------------------

    pub struct Map<B, F> {
        base: B,
        f: F,
    }

    impl<B, F, R> ParallelIterator for Map<B, F>
    where
        B: ParallelIterator,
        F: Fn(B::Item) -> R + Sync + Send,
        R: Send,
    {
        type Item = R;
        fn drive_stateful<T, INIT, G>(self, init: &INIT, g: &G)
        where
            INIT: Fn() -> T + Sync,
            G: Fn(&mut T, Key, R) -> bool + Sync,
        {
            let f = &self.f;
            self.base.drive_stateful(init, &|st: &mut T, k, x| g(st, k, f(x)));
        }
    }

    impl<B, F, R> IndexedParallelIterator for Map<B, F>
    where
        B: IndexedParallelIterator,
        F: Fn(B::Item) -> R + Sync + Send,
        R: Send,
    {
        fn len(&self) -> usize {
            self.base.len()
        }
    }

    pub struct CloneInit<T>(T);

    pub trait InitFn: Sync + Send {
        type State;
        fn make(&self) -> Self::State;
    }

    impl<T, F: Fn() -> T + Sync + Send> InitFn for F {
        type State = T;
        fn make(&self) -> T {
            self()
        }
    }

    impl<T: Clone + Send + Sync> InitFn for CloneInit<T> {
        type State = T;
        fn make(&self) -> T {
            self.0.clone()
        }
    }

    pub struct MapInit<B, INIT, F> {
        base: B,
        init: INIT,
        f: F,
    }

    impl<B, INIT2, F, R> ParallelIterator for MapInit<B, INIT2, F>
    where
        B: ParallelIterator,
        INIT2: InitFn,
        F: Fn(&mut INIT2::State, B::Item) -> R + Sync + Send,
        R: Send,
    {
        type Item = R;
        fn drive_stateful<T, INIT, G>(self, init: &INIT, g: &G)
        where
            INIT: Fn() -> T + Sync,
            G: Fn(&mut T, Key, R) -> bool + Sync,
        {
            let (init2, f) = (&self.init, &self.f);
            self.base.drive_stateful(&|| (init(), init2.make()), &|st: &mut (T, INIT2::State), k, x| {
                let r = f(&mut st.1, x);
                g(&mut st.0, k, r)
            });
        }
    }

    impl<B, INIT2, F, R> IndexedParallelIterator for MapInit<B, INIT2, F>
    where
        B: IndexedParallelIterator,
        INIT2: InitFn,
        F: Fn(&mut INIT2::State, B::Item) -> R + Sync + Send,
        R: Send,
    {
        fn len(&self) -> usize {
            self.base.len()
        }
    }

    pub struct Enumerate<B> {
        base: B,
    }

    impl<B: IndexedParallelIterator> ParallelIterator for Enumerate<B> {
        type Item = (usize, B::Item);
        fn drive_stateful<T, INIT, G>(self, init: &INIT, g: &G)
        where
            INIT: Fn() -> T + Sync,
            G: Fn(&mut T, Key, (usize, B::Item)) -> bool + Sync,
        {
            self.base.drive_stateful(init, &|st: &mut T, k, x| g(st, k, (k.0, x)));
        }
    }

    impl<B: IndexedParallelIterator> IndexedParallelIterator for Enumerate<B> {
        fn len(&self) -> usize {
            self.base.len()
        }
    }

    pub struct FlatMapIter<B, F> {
        base: B,
        f: F,
    }

    impl<B, F, SI> ParallelIterator for FlatMapIter<B, F>
    where
        B: ParallelIterator,
        F: Fn(B::Item) -> SI + Sync + Send,
        SI: IntoIterator,
        SI::Item: Send,
    {
        type Item = SI::Item;
        fn drive_stateful<T, INIT, G>(self, init: &INIT, g: &G)
        where
            INIT: Fn() -> T + Sync,
            G: Fn(&mut T, Key, SI::Item) -> bool + Sync,
        {
            let f = &self.f;
            self.base.drive_stateful(init, &|st: &mut T, k, x| {
                let mut go_on = true;
                for (j, y) in f(x).into_iter().enumerate() {
                    if !g(st, (k.0, j), y) {
                        // rayon's consumers are checked for fullness between items
                        go_on = false;
                        break;
                    }
                }
                go_on
            });
        }
    }

    pub struct FilterMap<B, F> {
        base: B,
        f: F,
    }

    impl<B, F, R> ParallelIterator for FilterMap<B, F>
    where
        B: ParallelIterator,
        F: Fn(B::Item) -> Option<R> + Sync + Send,
        R: Send,
    {
        type Item = R;
        fn drive_stateful<T, INIT, G>(self, init: &INIT, g: &G)
        where
            INIT: Fn() -> T + Sync,
            G: Fn(&mut T, Key, R) -> bool + Sync,
        {
            let f = &self.f;
            self.base.drive_stateful(init, &|st: &mut T, k, x| match f(x) {
                Some(y) => g(st, k, y),
                None => true,
            });
        }
    }

    // ---- collecting --------------------------------------------------------

    impl<T: Send> FromParallelIterator<T> for Vec<T> {
        fn from_par_iter<I>(par_iter: I) -> Self
        where
            I: ParallelIterator<Item = T>,
        {
            let slots: Mutex<Vec<(Key, T)>> = Mutex::new(Vec::new());
            par_iter.drive(&|k, x| {
                slots.lock().unwrap().push((k, x));
                true
            });
            // source order, like rayon's collect
            let mut v = slots.into_inner().unwrap();
            v.sort_by_key(|(k, _)| *k);
            v.into_iter().map(|(_, x)| x).collect()
        }
    }

    struct OkAdapter<'a, I, E> {
        inner: I,
        saved: &'a Mutex<Option<E>>,
    }

    impl<I, T, E> ParallelIterator for OkAdapter<'_, I, E>
    where
        I: ParallelIterator<Item = Result<T, E>>,
        T: Send,
        E: Send,
    {
        type Item = T;
        fn drive_stateful<ST, INIT, G>(self, init: &INIT, g: &G)
        where
            INIT: Fn() -> ST + Sync,
            G: Fn(&mut ST, Key, T) -> bool + Sync,
        {
            let saved = self.saved;
            self.inner.drive_stateful(init, &|st: &mut ST, k, r| match r {
                Ok(x) => g(st, k, x),
                Err(e) => {
                    let mut slot = saved.lock().unwrap();
                    if slot.is_none() {
                        *slot = Some(e);
                    }
                    false
                }
            });
        }
    }

    impl<C, T, E> FromParallelIterator<Result<T, E>> for Result<C, E>
    where
        C: FromParallelIterator<T>,
        T: Send,
        E: Send,
    {
        fn from_par_iter<I>(par_iter: I) -> Self
        where
            I: ParallelIterator<Item = Result<T, E>>,
        {
            let saved: Mutex<Option<E>> = Mutex::new(None);
            let collection = C::from_par_iter(OkAdapter { inner: par_iter, saved: &saved });
            match saved.into_inner().unwrap() {
                Some(e) => Err(e),
                None => Ok(collection),
            }
        }
    }

    impl<C, T> FromParallelIterator<Option<T>> for Option<C>
    where
        C: FromParallelIterator<T>,
        T: Send,
    {
        fn from_par_iter<I>(par_iter: I) -> Self
        where
            I: ParallelIterator<Item = Option<T>>,
        {
            let saved: Mutex<Option<()>> = Mutex::new(None);
            let collection =
                C::from_par_iter(OkAdapter { inner: par_iter.map(|o| o.ok_or(())), saved: &saved });
            match saved.into_inner().unwrap() {
                Some(()) => None,
                None => Some(collection),
            }
        }
    }
}
