#!/bin/bash
# tools/run_seeded.sh [tier] [name-filter]
# Applies every kept seeded defect to /repo in turn, runs its property's check, undoes it, and reports
# DETECTED / MISSED. Result table in logs/seeded_results.txt. (Do not run while a sweep uses /repo.)
set -u
ROOT="$(cd "$(dirname "${BASH_SOURCE[0]}")/.." && pwd)"
TIER="${1:-quick}"; FILTER="${2:-}"
OUT="$ROOT/logs/seeded_results.txt"; mkdir -p "$ROOT/logs"; : > "$OUT"
det=0; miss=0
for d in "$ROOT"/seeded/C*; do
  name="$(basename "$d")"; [[ "$name" == *"$FILTER"* ]] || continue
  id="${name%%-*}"
  "$ROOT/tools/try_patch.sh" "$d/patch.diff" "$id" "$TIER" > "$ROOT/logs/seeded-$name.out" 2>&1; rc=$?
  if [ $rc -eq 1 ] && grep -q '^VIOLATION' "$ROOT/logs/seeded-$name.out"; then det=$((det+1)); echo "DETECTED $name $(grep -m1 '^VIOLATION' "$ROOT/logs/seeded-$name.out" | sed 's/.*replay=//')" >> "$OUT"
  else miss=$((miss+1)); echo "MISSED   $name (exit $rc)" >> "$OUT"; fi
  rm -f "$ROOT"/replays/C[0-9][0-9]-*.json
done
echo "SEEDED-RESULT tier=$TIER detected=$det missed=$miss" | tee -a "$OUT"
grep MISSED "$OUT"
exit $((miss>0))
