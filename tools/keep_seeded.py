#!/usr/bin/env python3
"""tools/keep_seeded.py <worktree> <N> <PROPERTY> <slug> <crate> <detected_by> <confirm_log>
Copies a confirmed seeded defect into /verif/seeded/<PROPERTY>-<slug>/ with meta.json."""
import sys, os, json, shutil, re
wt, n, prop, slug, crate, detected, log = sys.argv[1:8]
root = os.path.dirname(os.path.dirname(os.path.abspath(__file__)))
dst = f"{root}/seeded/{prop}-{slug}"
os.makedirs(dst, exist_ok=True)
shutil.copy(f"{wt}/OUT/patch{n}.diff", f"{dst}/patch.diff")
shutil.copy(f"{wt}/OUT/demo{n}.rs", f"{dst}/demo.rs")
meta_txt = open(f"{wt}/OUT/meta{n}.txt").read()
confirm = [l.strip() for l in open(log) if l.startswith(f"RESULT {wt} {n}:")]
meta = {
  "property": prop,
  "origin": "independent sub-agent given only the property text and a scratch worktree (nothing from /verif)",
  "author_notes": meta_txt,
  "demo": {"file": "demo.rs", "place_at": f"packages/{crate}/tests/demo{n}.rs", "run": f"cargo test -p {crate} --test demo{n} --offline"},
  "confirmed_by_me": {"command": f"tools/confirm_seeded.sh {wt} {n} {crate}", "result": confirm},
  "checked_with": f"tools/try_patch.sh seeded/{prop}-{slug}/patch.diff {prop} quick",
  "detected_by": detected,
}
json.dump(meta, open(f"{dst}/meta.json", "w"), indent=1)
print("kept", dst)
