#!/bin/bash
# tools/try_patch_bin.sh <patch.diff> <cargo package> <bin> [args...]  — apply, build+run one binary, undo.
set -u
PATCH="$(realpath "$1")"; PKG="$2"; BIN="$3"; shift 3
ROOT="$(cd "$(dirname "${BASH_SOURCE[0]}")/.." && pwd)"
if [ -n "$(git -C /repo status --porcelain --untracked-files=no)" ]; then echo "refusing: /repo has uncommitted changes"; exit 3; fi
git -C /repo apply "$PATCH" || { echo "patch does not apply"; exit 3; }
(cd "$ROOT/sim" && cargo build --release --offline -p "$PKG" --bin "$BIN" 2>&1 | grep -E '^error' -A6 | head -20)
VERIF_ROOT="$ROOT" "$ROOT/sim/target/release/$BIN" "$@" > "$ROOT/logs/try-$BIN.out" 2>&1; rc=$?
git -C /repo checkout -- .
grep -E '^(VIOLATION|KNOWN-FINDING|HARNESS-ERROR)|^property=' "$ROOT/logs/try-$BIN.out" | head -8
echo "exit=$rc"; git -C "$ROOT" checkout -- evidence 2>/dev/null; exit $rc
