#!/bin/bash
# tools/process_benign.sh <worktree> <PROPERTY> [N...]
# Property-PRESERVING variants produced by independent sub-agents: for each <worktree>/OUT/patchN.diff
#  (1) the repository's whole suite must pass with it, (2) the property's quick check is run against it in the lab
# copy (never /repo). A VIOLATION here is a false-alarm candidate (to be judged by reading the patch). One line per
# variant is appended to logs/process_benign.log.
set -u
ROOT="$(cd "$(dirname "${BASH_SOURCE[0]}")/.." && pwd)"
WT="$1"; PROP="$2"; shift 2
NS="${*:-1 2 3 4}"
LOG="$ROOT/logs/process_benign.log"; mkdir -p "$ROOT/logs"
export CARGO_NET_OFFLINE=true
for N in $NS; do
  [ -f "$WT/OUT/patch$N.diff" ] || { echo "$WT $N: no patch"; continue; }
  ( cd "$WT" && git checkout -q -- . && git apply "OUT/patch$N.diff" ) || { echo "$(basename "$WT") N=$N: patch does not apply" | tee -a "$LOG"; continue; }
  suite=$(cd "$WT" && cargo test --workspace --no-fail-fast --offline 2>&1 | grep -E '^test result' | awk '{p+=$4; f+=$6} END {print p" passed "f" failed"}')
  ( cd "$WT" && git checkout -q -- . )
  det="$("$ROOT/tools/lab.sh" try "$WT/OUT/patch$N.diff" "$PROP" quick 2>&1 | grep -E '^(VIOLATION|HARNESS-ERROR|exit=)' | head -3 | cut -c1-200 | tr '\n' ' ')"
  echo "$(basename "$WT") N=$N prop=$PROP | suite: $suite | check: $det" | tee -a "$LOG"
done
