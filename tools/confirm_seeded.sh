#!/bin/bash
# tools/confirm_seeded.sh <worktree> <N> [crate=push]
# Independently confirms a seeded defect produced in a scratch worktree:
#  (1) with patchN applied the repository's whole test suite passes,
#  (2) the demonstration fails with the patch, (3) and passes without it.
set -u
WT="$1"; N="$2"; CRATE="${3:-push}"
export CARGO_NET_OFFLINE=true
cd "$WT" || exit 3
git checkout -q -- . ; rm -f packages/*/tests/demo$N.rs
DEMO_DST="packages/$CRATE/tests/demo$N.rs"
git apply "OUT/patch$N.diff" || { echo "RESULT $WT $N: patch does not apply"; exit 3; }
suite=$(cargo test --workspace --no-fail-fast --offline 2>&1 | grep -E '^test result' | awk '{p+=$4; f+=$6} END {print p" passed "f" failed"}')
mkdir -p "$(dirname "$DEMO_DST")"; cp "OUT/demo$N.rs" "$DEMO_DST"
with=$(cargo test -p "$CRATE" --test "demo$N" --offline 2>&1 | grep -E '^test result' | head -1)
git checkout -q -- .
without=$(cargo test -p "$CRATE" --test "demo$N" --offline 2>&1 | grep -E '^test result' | head -1)
rm -f "$DEMO_DST"
echo "RESULT $WT $N: suite-with-patch: $suite | demo-with-patch: $with | demo-without-patch: $without"
