#!/usr/bin/env python3
"""Rewrites the seeded-defect table in DESIGN.md (between the SEEDED-TABLE markers) from seeded/*/meta.json."""
import json, glob, os, re
ROOT = os.path.dirname(os.path.dirname(os.path.abspath(__file__)))
rows = []
for d in sorted(glob.glob(os.path.join(ROOT, "seeded", "C*"))):
    m = json.load(open(os.path.join(d, "meta.json")))
    rows.append(f"| `{os.path.basename(d)}` | {m['detected_by']} |")
table = "| seeded change | detected by |\n|---|---|\n" + "\n".join(rows) + "\n"
p = os.path.join(ROOT, "DESIGN.md")
s = open(p).read()
a, b = "<!-- SEEDED-TABLE-BEGIN -->\n", "<!-- SEEDED-TABLE-END -->\n"
if a not in s:
    # first use: replace the hand-written table
    start = s.index("| seeded change | detected by |")
    end = s.index("\n\n", start) + 1
    s = s[:start] + a + table + b + s[end:]
else:
    s = s[: s.index(a) + len(a)] + table + s[s.index(b):]
open(p, "w").write(s)
print("seeded table:", len(rows), "rows")
