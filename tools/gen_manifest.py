#!/usr/bin/env python3
"""Regenerates /verif/MANIFEST.json from the table below (single source of truth)."""
import json, os, sys
ROOT = os.path.dirname(os.path.dirname(os.path.abspath(__file__)))

# id -> (engine, category, design_ref, technique, level text, level note)
CLAIMED = {
 "C04": ("stacksim", "exploration", "DESIGN §5 C04",
   "deterministic simulation: every history of 1..=4 operations enumerated, then seeded operation histories on the real Stack vs a Vec+capacity reference model, with capacity-change / overrunning-iterator / huge-range fault injection, minimised replay",
   "Seeded search over operation histories (<=40 ops, 14 op kinds, capacities 0..6/64/MAX, two element types) with the model compared after every operation; sampled, not exhaustive. Right level: the property quantifies over histories of any length and the defects of interest need a 2-3 step sequence (e.g. lower the maximum, then push).",
   "Trusted: the Vec+capacity model in sim/checks/src/bin/c04.rs; corners where the statement is silent are accepted either way (DESIGN §8)."),
 "C01": ("vmsim", "exploration", "DESIGN §5 C01",
   "deterministic simulation: an enumerated small scope (every program of <= 5 nodes over <= 2 instructions, every int/float instruction on every pair of boundary literals) and seeded Push programs run step by step on the real interpreter and refined against an independent reference interpreter (pushmodel), with capacity / step-budget / pause-rebuild-resume fault injection, real-loop cross-checks, long executions (30k steps) against a model-only run, deep nesting; findings that depend on hidden state are reported with a replayable call history",
   "Refinement of the real VM against an executable model after every instruction step, over seeded programs covering every instruction variant, boundary literals, capacity regimes and step limits; sampled, not exhaustive. Right level: the statement quantifies over all programs, inputs and limits; the defects of interest need specific operand/stack configurations.",
   "Trusted: pushmodel (sim/checks/src/pushmodel.rs, written from the statement and the rustdoc action tables, no shared helpers with the implementation); allowed-outcome sets are widened exactly where the statement is silent (DESIGN §8)."),
 "C02": ("vmsim", "fault_enumeration", "DESIGN §5 C02",
   "fault enumeration + fault injection: every instruction variant performed in every boundary state of a 12^4 grid (empty / one short / exactly enough / one below full / full), plus capacity-shrink and operand-starve faults injected between steps of running programs and skip-equals-Noop comparisons on the real loop",
   "The (instruction x boundary-state) grid is enumerated completely on the real code with the model-free oracle 'Err => carried state == cloned pre-state'; in-flight faults and skip semantics are sampled with seeds. Right level: the quantifier is literally 'every point at which underflow or overflow can strike'.",
   "Trusted: derived PartialEq of PushState as the notion of 'identical state'; stack values inside a grid cell are sampled from boundary pools."),
 "C03": ("vmsim", "exploration", "DESIGN §5 C03",
   "deterministic simulation: the enumerated small scope of C01 plus seeded loop/growth-biased programs under resource exhaustion, bounded-liveness (returns within L steps, watchdog) and safety invariants at every step boundary, limit sweeps against the stepped run",
   "Seeded search over growth-biased programs x capacities x step-limit sweeps; monitored invariants: returns without panic/hang, Err only for overflow exactly where the model says a stack would overflow, sizes <= maxima, state(L) == stepped state(min(L,T)). Sampled.",
   "Trusted: pushmodel for 'would overflow'; nesting depth bounded (stated in evidence assumptions)."),
 "C10": ("rngsim", "exploration", "DESIGN §5 C10",
   "deterministic simulation through the rng seam: tagged parents recombined under seeded and boundary-word (adversarial) random streams; exhaustive small-scope enumeration of the exchange primitives; seeded reachability experiment for every segment",
   "Exact per-run oracles on tagged genes (length, position-wise origin, contiguity, documented errors, no panic) over seeded/adversarial streams; crossover_gene/crossover_segment enumerated for all length pairs <= 5 x all indices/ranges incl. inverted; every segment of every length <= 6 must occur in N seeded runs (absence has probability < 1e-440 and is treated as exact).",
   "Trusted: the tagged-gene observation; empty/inverted ranges outside the genomes may be Ok-no-op or Err (statement silent), never a panic or a changed genome."),
 "C06": ("rngsim", "exploration", "DESIGN §5 C06",
   "deterministic simulation through the rng seam: seeded selector trees (leaf selectors, Weighted, WeightedPair, DynWeighted, erased routes, failing probe member = component-fail fault) on tie-heavy / ragged / empty populations under seeded and boundary-word streams; exact oracle per run",
   "Every run is decided exactly: Ok => pointer-identical member of the population; Err => an error the configuration can legitimately report (computed by a small reference); a panic or process abort => violation. Sampled over selector trees x populations x streams.",
   "Trusted: the allowed-error reference in c06.rs. Which member a weighted combination consults depends on the stream, so an error is accepted iff some positive-weight member can report it."),
 "C11": ("rngsim", "exploration", "DESIGN §5 C11",
   "deterministic simulation through the rng seam: position-tagged genes, a logging probe gene generator with a disjoint alphabet, Plushy parents with Close markers, degenerate and boundary rates, seeded and boundary-word streams; exact oracle per run",
   "Exact structural oracles per mutation (same length / genes stay in place; survivors form an ordered subsequence; at most one insert per parent position; new genes come from the generator's log of this call; degenerate-rate identities). Sampled over genomes x rates x streams.",
   "Trusted: the tagging scheme; Close markers are untagged, so for parents containing them the per-position insert bound is replaced by subsequence + count checks."),
 "C14": ("rngsim", "fault_enumeration", "DESIGN §5 C14",
   "fault enumeration over operator pipelines: 37 composition shapes of logging probe operators, each run with 'probe call k fails' for every k, compared with a composition-AST model interpreter (log, output, rng consumption, error path); plus seeded run-time-built composition trees of depth <= 10 and repeated applications of one operator value",
   "Every shape x every fault position is enumerated; inputs and streams are seeded. The model predicts exactly which probes run, on what input, which word each draws, where the pipeline stops, the error path and the stream position afterwards.",
   "Trusted: the AST interpreter in c14.rs; MapError is read through Display/source()."),
 "C16": ("ambient", "exploration", "DESIGN §5 C16",
   "determinism audit as simulation: a registry of every rng-consuming operation run from forked owned streams, re-run in fresh OS threads and fresh processes (ambient perturbation), in interleaved and concurrent call histories on one operator value, and Push programs with inputs declared in permuted orders",
   "A correct tree can never diverge, so any divergence is a sound violation; coverage is the registry (34 operations) x seeds x perturbations (fresh thread, fresh process, interleaving, 2-4 concurrent callers, declaration-order permutations).",
   "Trusted: Debug/Display text as the notion of 'equal result'; the Miri leg (R4: registry digests under several Miri seeds) is part of the registered command."),
 "C17": ("rngsim", "exploration", "DESIGN §5 C17",
   "deterministic simulation through the rng seam over an enumerated flavour set: concrete value vs all 28 generated pointer flavours + blanket dyn_* method for each of the five erasable traits, from forks of one owned stream; result, error chain, typed draw trace, next word and underlying call count compared",
   "The flavour set (7 pointers x 4 auto-trait combinations x 5 traits) is enumerated completely per scenario; wrapped implementations, arguments and streams are seeded.",
   "Trusted: Display + source() chain as 'the same error'; Debug text / pointer position as 'the same result'."),
 "C07": ("rngsim", "exploration", "DESIGN §5 C07",
   "deterministic simulation through the rng seam: every population of <= 5 over {0,1,2} enumerated; exact invariants per seeded/adversarial run (maximality, k distinct entrants observed through a comparison-logging Ord) plus a seeded many-run statistical decision of the entrant-subset and winner-rank laws against exact probabilities",
   "Exact clauses are decided on every run; the distributional clause is sampling evidence: every k-subset frequency vs 1/C(n,k) and every rank's winning frequency vs C(r-1,k-1)/C(n,k) for all n <= 6 (quick) / 7 (thorough), k <= n.",
   "Trusted: the exact reference law computed in the check; statistical decisions use the Chernoff-KL rule with a total false-alarm budget of 1e-9 per invocation (fixed default seed => outcome is a fixed function of the code); biases below the resolution reported in the evidence are invisible."),
 "C08": ("rngsim", "exploration", "DESIGN §5 C08",
   "deterministic simulation through the rng seam: every small result matrix enumerated, fixed and seeded distribution experiments; exact support clauses per seeded/adversarial run (winner survives some case order, never Pareto-dominated) plus seeded many-run statistical decision of every individual's selection frequency against the exact law obtained by enumerating all case orders",
   "Exact law by enumeration of all c! orders on small tie-heavy matrices (most of them order-sensitive by construction); frequencies decided statistically; support violations exact.",
   "Trusted: the exact reference law computed in the check; statistical decisions use the Chernoff-KL rule with a total false-alarm budget of 1e-9 per invocation (fixed default seed => outcome is a fixed function of the code); biases below the resolution reported in the evidence are invisible."),
 "C12": ("rngsim", "exploration", "DESIGN §5 C12",
   "seeded many-run statistical experiments through the rng seam: observed frequencies of flips, UMAD insertions/deletions (incl. the four child patterns of a one-gene parent), crossover origins, random bits and gene kinds compared with the configured probabilities by the Chernoff-KL rule",
   "Purely distributional property => sampling evidence with an explicit, rigorous error budget; 222 experiments x 3*10^5 (quick) / 5*10^6 (thorough) trials (fewer for genomes of 10^4..10^7 genes, more for instruction sets of 10^5..10^6).",
   "Trusted: the exact reference law computed in the check; statistical decisions use the Chernoff-KL rule with a total false-alarm budget of 1e-9 per invocation (fixed default seed => outcome is a fixed function of the code); biases below the resolution reported in the evidence are invisible."),
 "C13": ("rngsim", "exploration", "DESIGN §5 C13",
   "deterministic simulation through the rng seam (every weight vector over {0,1,2,5} of <= 4 members enumerated; fixed and seeded distribution experiments) with marker member selectors: exact clauses per seeded/adversarial run (exactly one delegate, never a weight-0 member, zero-weight errors, build-time overflow with the right fields) plus seeded statistical decision of each member's use frequency against w_i/sum over tree shapes, with_item_and_weight chains and DynWeighted lists",
   "Exact clauses decided on every run over arbitrary tree shapes whose inner nodes are the real WeightedPair; proportionality is sampling evidence.",
   "Trusted: the exact reference law computed in the check; statistical decisions use the Chernoff-KL rule with a total false-alarm budget of 1e-9 per invocation (fixed default seed => outcome is a fixed function of the code); biases below the resolution reported in the evidence are invisible."),
 "C18": ("rngsim", "exploration", "DESIGN §5 C18",
   "deterministic simulation through the rng seam: logging probe element generators (exact counts and element provenance for Vec / Bitstring / Plushy / nested / individual / population generators), all 16 conversion flavours constructed from empty and non-empty sources under seeded/adversarial streams (membership by pointer identity or value), plus seeded statistical decision of uniformity per flavour and length",
   "Exact clauses per run; uniformity is sampling evidence over 16 flavours x lengths 1..8.",
   "Trusted: the exact reference law computed in the check; statistical decisions use the Chernoff-KL rule with a total false-alarm budget of 1e-9 per invocation (fixed default seed => outcome is a fixed function of the code); biases below the resolution reported in the evidence are invisible."),
 "C09": ("gen-shuttle + gen-miri + serial", "exploration", "DESIGN §5 C09",
   "full deterministic simulation with fault injection: the unchanged generation.rs under (a) a seeded shuttle scheduler (random / PCT) over a rayon stand-in compiled in through a shadow manifest, (b) Miri's deterministic scheduler over the real rayon, (c) serial and real-thread runs; an instrumented child maker injects failures at enumerated positions and records population identity, fingerprints and the random words it is handed; invariants I1-I6 on every step",
   "Seeded search over schedules x fault sets x population sizes x worker/job counts; fault positions are enumerated for n <= 8. One scenario = one schedule = one integer (shuttle) or one (argv, -Zmiri-seed) pair (Miri); both replay exactly. A clean batch is evidence, not proof.",
   "Trusted: the rayon stand-in models rayon's documented behaviour (the Miri leg runs the real one, ~10^4x slower); shuttle is sequentially consistent; the invariants in sim/c09common/common.rs."),
}

NOT_APPLICABLE = {
 "C05": "pure single-call function of the gene list: no random stream, fault point, history or schedule for a simulator to own (DESIGN §6)",
 "C15": "algebraic order/aggregation laws over plain values; nothing nondeterministic or fault-prone to simulate (DESIGN §6)",
 "C19": "compile-time type-state guarantees plus a pure construction function; needs compile-fail snippets, a static technique (DESIGN §6)",
}

PENDING_REASON = "check not built yet in this round (planned, see DESIGN §5); not claimed until its check exists"

ENGINES = [
 {"name": "simcore", "path": "sim/simcore", "serves_properties": sorted(CLAIMED), "kind_free_text": "seeded runner (one integer decides everything), SimRng owned random stream with boundary-word fault mode, minimiser, replay files, evidence writer, KL decision rule"},
 {"name": "vmsim", "path": "sim/checks/src/vmsim.rs", "serves_properties": ["C01", "C02", "C03"], "kind_free_text": "Push VM simulator: harness-stepped and real-loop execution of the real interpreter, resource-fault schedules, pushmodel reference interpreter (sim/checks/src/pushmodel.rs)"},
 {"name": "rngsim", "path": "sim/checks/src/bin", "serves_properties": ["C06", "C07", "C08", "C10", "C11", "C12", "C13", "C14", "C17", "C18"], "kind_free_text": "single calls / short histories of selectors, mutators, recombinators and generators driven by the owned SimRng stream with probe components; exact per-run oracles plus seeded statistical experiments"},
 {"name": "gen-shuttle + gen-miri + serial", "path": "sim/c09shuttle, sim/rayon-shim, sim/ec-core-sim (shadow manifest), miri/c09miri, sim/checks/src/bin/c09.rs, tools/c09_legs.sh", "serves_properties": ["C09"], "kind_free_text": "Generation::par_next/serial_next under controlled schedulers: shuttle over a rayon stand-in, Miri over the real rayon; instrumented child maker with enumerated fault positions"},
 {"name": "ambient", "path": "sim/checks/src/bin/c16.rs", "serves_properties": ["C16"], "kind_free_text": "determinism sweep: forked streams, fresh threads, fresh processes, interleaved/concurrent histories, input-order permutations"},
 {"name": "stacksim", "path": "sim/checks/src/bin/c04.rs", "serves_properties": ["C04"], "kind_free_text": "operation-history simulator for Stack<T> against a Vec+capacity model"},
]

def main():
    all_ids = [json.loads(l)["id"] for l in open(os.path.join(ROOT, "properties.jsonl"))]
    checks = []
    for pid in all_ids:
        if pid in CLAIMED:
            eng, cat, ref, tech, text, note = CLAIMED[pid]
            checks.append({
                "property_id": pid,
                "quick_cmd": f"./check {pid} quick",
                "thorough_cmd": f"./check {pid} thorough",
                "evidence_file": f"/verif/evidence/{pid}.json",
                "replay_cmd_template": f"./check {pid} --replay {{path}}",
                "engine": eng,
                "level_claimed": {"category": cat, "text": text, "design_ref": ref},
                "level_note": note,
                "technique": tech,
            })
    na = []
    for pid in all_ids:
        if pid in CLAIMED: continue
        na.append({"property_id": pid, "reason": NOT_APPLICABLE.get(pid, PENDING_REASON)})
    manifest = {
        "version": 1,
        "setup_cmd": "./tools/setup.sh",
        "hooks": {
            "guard": "unhindered_ec_verif",
            "enable": "no source hooks exist: every seam used is an existing trait/generic parameter or a build-level shadow manifest under /verif/sim (reserved cfg: --cfg unhindered_ec_verif)",
            "baseline_off_cmd": "cd /repo && cargo test --workspace --no-fail-fast --offline",
            "source_commits": [],
            "add_only": True,
        },
        "engines": [e for e in ENGINES if any(p in CLAIMED for p in e["serves_properties"])],
        "checks": checks,
        "not_applicable": na,
        "notes": "Technique family: deterministic simulation with fault injection. All checks rebuild /verif/sim against /repo's working tree (path dependencies). Replay files under /verif/replays; repaired defects' minimised replays under /verif/replays/fixed are re-executed by every run of the owning check. known_findings.json lists recorded and fixed findings.",
    }
    json.dump(manifest, open(os.path.join(ROOT, "MANIFEST.json"), "w"), indent=1)
    print("wrote MANIFEST.json:", len(checks), "checks,", len(na), "not claimed")

if __name__ == "__main__":
    main()
