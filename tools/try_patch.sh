#!/bin/bash
# tools/try_patch.sh <patch.diff> <ID> [quick|thorough]
# Applies a seeded-defect patch to /repo, runs the property's check, and undoes it straight afterwards.
set -u
PATCH="$(realpath "$1")"; ID="$2"; TIER="${3:-quick}"
ROOT="$(cd "$(dirname "${BASH_SOURCE[0]}")/.." && pwd)"
if [ -n "$(git -C /repo status --porcelain --untracked-files=no)" ]; then echo "refusing: /repo has uncommitted changes"; exit 3; fi
git -C /repo apply "$PATCH" || { echo "patch does not apply"; exit 3; }
mkdir -p "$ROOT/logs"; "$ROOT/check" "$ID" "$TIER" > "$ROOT/logs/try-$ID.out" 2>&1; rc=$?
git -C /repo checkout -- .
grep -E '^(VIOLATION|KNOWN-FINDING|HARNESS-ERROR)|^property=' "$ROOT/logs/try-$ID.out" | head -8
echo "exit=$rc"
# evidence/replays written during a mutant run are not evidence of the real tree
git -C "$ROOT" checkout -- evidence 2>/dev/null
exit $rc
