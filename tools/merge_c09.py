#!/usr/bin/env python3
"""Merges the three legs' evidence files into /verif/evidence/C09.json."""
import json, os, sys
ROOT = os.path.dirname(os.path.dirname(os.path.abspath(__file__)))
legs = {}
for leg in ("serial", "shuttle", "miri"):
    p = os.path.join(ROOT, "evidence", f"C09.{leg}.json")
    if os.path.exists(p):
        legs[leg] = json.load(open(p))
if not legs:
    sys.exit("no leg evidence")
first = next(iter(legs.values()))
cov = {"evaluations": sum(l["coverage"]["evaluations"] for l in legs.values()),
       "distinct_nontrivial": sum(l["coverage"]["distinct_nontrivial"] for l in legs.values()),
       "rule": " || ".join(f"[{k}] " + l["coverage"]["rule"] for k, l in legs.items()),
       "samples": [s for l in legs.values() for s in l["coverage"].get("samples", [])[:2]],
       "distinct_interleavings": {k: l["coverage"]["distinct_nontrivial"] for k, l in legs.items() if k != "serial"},
       "runs_per_hour": {k: l["coverage"].get("runs_per_hour") for k, l in legs.items()},
       "simulated_time": "not applicable: nothing in the code reads a clock; simulated steps (child-maker calls) are reported instead",
       "legs": {k: l["coverage"] for k, l in legs.items()},
       "legs_missing": [k for k in ("serial", "shuttle", "miri") if k not in legs]}
faults = {}
for l in legs.values():
    for k, v in l["coverage"].get("faults_fired", {}).items():
        faults[k] = faults.get(k, 0) + v
cov["faults_fired"] = faults
ev = {"property_id": "C09", "tier": first["tier"], "seed": first["seed"], "level": "exploration", "coverage": cov,
      "assumptions": sorted({a for l in legs.values() for a in l.get("assumptions", [])}),
      "wall_s": sum(l["wall_s"] for l in legs.values()), "violations": sum(l.get("violations", 0) for l in legs.values())}
json.dump(ev, open(os.path.join(ROOT, "evidence", "C09.json"), "w"), indent=1)
print("merged C09 evidence from legs:", ", ".join(legs))
