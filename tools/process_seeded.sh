#!/bin/bash
# tools/process_seeded.sh <worktree> <PROPERTY> [N...]
# For each delivered change N in <worktree>/OUT: (1) confirm it independently (suite passes with it, demo fails with
# it and passes without it: tools/confirm_seeded.sh), (2) try the property's quick check against it in the lab copy
# (tools/lab.sh try — never touches /repo). Appends one line per change to logs/process_seeded.log.
set -u
ROOT="$(cd "$(dirname "${BASH_SOURCE[0]}")/.." && pwd)"
WT="$1"; PROP="$2"; shift 2
NS="${*:-1 2 3}"
LOG="$ROOT/logs/process_seeded.log"; mkdir -p "$ROOT/logs"
for N in $NS; do
  [ -f "$WT/OUT/patch$N.diff" ] || { echo "$WT $N: no patch"; continue; }
  CRATE="$(grep -m1 '^DEMO_CRATE:' "$WT/OUT/meta$N.txt" | sed 's/DEMO_CRATE:[[:space:]]*//' | tr -d '`' | awk '{print $1}')"
  CRATE="${CRATE:-push}"
  conf="$("$ROOT/tools/confirm_seeded.sh" "$WT" "$N" "$CRATE" 2>&1 | grep '^RESULT')"
  echo "$conf" >> "$ROOT/logs/confirm-$(basename "$WT").log"
  det="$("$ROOT/tools/lab.sh" try "$WT/OUT/patch$N.diff" "$PROP" quick 2>&1 | grep -E '^(VIOLATION|HARNESS-ERROR|exit=)' | head -3 | tr '\n' ' ')"
  line="$(basename "$WT") N=$N prop=$PROP crate=$CRATE | $conf | check: $det"
  echo "$line" | tee -a "$LOG"
done
