#!/bin/bash
# Build the whole framework offline from files on disk (fresh restore).
set -eu
ROOT="$(cd "$(dirname "${BASH_SOURCE[0]}")/.." && pwd)"
export CARGO_NET_OFFLINE=true
cd "$ROOT/sim"
cargo build --release --offline --bins 2>&1 | tail -3
if [ -x "$ROOT/tools/c09_legs.sh" ]; then "$ROOT/tools/c09_legs.sh" setup; fi
if [ -x "$ROOT/tools/c16_miri.py" ]; then "$ROOT/tools/c16_miri.py" setup; fi
echo "setup ok"
