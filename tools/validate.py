#!/opt/veriftools/pyvenv/bin/python
import json, jsonschema, glob, sys, os
ROOT = os.path.dirname(os.path.dirname(os.path.abspath(__file__)))
m = json.load(open(f"{ROOT}/MANIFEST.json"))
jsonschema.validate(m, json.load(open("/root/.vp/MANIFEST.schema.json")))
es = json.load(open("/root/.vp/EVIDENCE.schema.json"))
ok = True
for c in m["checks"]:
    f = c["evidence_file"]
    if not os.path.exists(f):
        print("MISSING", f); ok = False; continue
    try:
        e = json.load(open(f)); jsonschema.validate(e, es)
        assert e["level"] == c["level_claimed"]["category"], (e["level"], c["level_claimed"]["category"])
        print("ok", f, e["tier"], e["coverage"]["evaluations"], e["coverage"]["distinct_nontrivial"], "viol", e.get("violations"))
    except Exception as ex:
        print("INVALID", f, str(ex)[:300]); ok = False
ids = [json.loads(l)["id"] for l in open(f"{ROOT}/properties.jsonl")]
claimed = {c["property_id"] for c in m["checks"]}; na = {n["property_id"] for n in m.get("not_applicable", [])}
assert claimed | na == set(ids) and not (claimed & na), "manifest does not partition the properties"
print("manifest valid;", len(claimed), "claimed,", len(na), "not claimed")
sys.exit(0 if ok else 1)
