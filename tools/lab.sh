#!/bin/bash
# tools/lab.sh init | sync | try <patch> <ID> [tier] | destroy
# A scratch copy of /repo (git worktree) and of /verif under /tmp/lab, with every /repo path rewritten, so that
# seeded defects can be tried WITHOUT touching /repo while long runs (sweeps, thorough tiers) use /repo itself.
# Final claims are always re-established on /repo itself with tools/run_seeded.sh.
set -u
LAB="${LAB:-/tmp/lab}"
case "${1:-}" in
  init|sync)
    if [ "$1" = init ]; then
      rm -rf "$LAB"; mkdir -p "$LAB"
      git -C /repo worktree add -q --detach "$LAB/repo" HEAD || exit 2
    else
      git -C "$LAB/repo" checkout -q -- . ; git -C "$LAB/repo" checkout -q --detach "$(git -C /repo rev-parse HEAD)"
    fi
    mkdir -p "$LAB/verif"
    rsync -a --delete --exclude target --exclude .git --exclude logs --exclude replays/C\*.json /verif/ "$LAB/verif/"
    grep -rl '/repo' "$LAB/verif/sim" "$LAB/verif/miri" "$LAB/verif/tools" --include=Cargo.toml --include='*.sh' --include='*.py' 2>/dev/null | while read -r f; do
      sed -i "s#/repo#$LAB/repo#g" "$f"
    done
    (cd "$LAB/verif/sim" && CARGO_NET_OFFLINE=true cargo build --release --offline --bins 2>&1 | tail -1)
    echo "lab ready at $LAB";;
  try)
    PATCH="$(realpath "$2")"; ID="$3"; TIER="${4:-quick}"
    "$LAB/verif/tools/try_patch.sh" "$PATCH" "$ID" "$TIER"; rc=$?
    rm -f "$LAB"/verif/replays/C[0-9][0-9]-*.json
    exit $rc;;
  destroy)
    git -C /repo worktree remove --force "$LAB/repo" 2>/dev/null; git -C /repo worktree prune; rm -rf "$LAB"; echo "lab removed";;
  *) echo "usage: lab.sh init|sync|try <patch> <ID> [tier]|destroy"; exit 2;;
esac
