#!/usr/bin/env python3
"""tools/mutate.py list | run [--limit N] [--files substr] [--resume]

Mechanical mutation sweep (complements the hand-made seeded defects): single-token mutants of the source files the
claimed properties are anchored in are applied ONE AT A TIME to the lab copy of the repository (never /repo), the
quick checks of the properties anchored in that file are run, and for the mutants no check reports, the repository's
own test suite is run as well. A survivor that also passes the suite is either an equivalent mutant or a gap in the
checks: it is listed in logs/mutation_survivors.txt for reading.

Mutation operators: relational (< <= > >= == !=), && / ||, + / -, checked_/saturating_ -> wrapping_, min/max,
true/false, small integer literals, removal of .rev(), `..=` <-> `..`.
"""
import json, os, re, subprocess, sys, hashlib, time

ROOT = os.path.dirname(os.path.dirname(os.path.abspath(__file__)))
LAB = os.environ.get("LAB", "/tmp/lab")
CLAIMED = ["C01", "C02", "C03", "C04", "C06", "C07", "C08", "C09", "C10", "C11", "C12", "C13", "C14", "C16", "C17", "C18"]

OPS = [
    (r"(?<![<>=!\-])<=(?!=)", ["<"]),
    (r"(?<![<>=!\-:])<(?![<=])(?=\s)", ["<="]),
    (r"(?<![<>=!\-])>=(?!=)", [">"]),
    (r"(?<=\s)>(?![>=])(?=\s)", [">="]),
    (r"==", ["!="]),
    (r"!=", ["=="]),
    (r"&&", ["||"]),
    (r"\|\|(?=\s)", ["&&"]),
    (r"(?<=\s)\+(?=\s)", ["-"]),
    (r"(?<=\s)-(?=\s)", ["+"]),
    (r"checked_add", ["wrapping_add"]),
    (r"checked_sub", ["wrapping_sub"]),
    (r"checked_mul", ["wrapping_mul"]),
    (r"saturating_sub", ["wrapping_sub"]),
    (r"saturating_add", ["wrapping_add"]),
    (r"\.min\(", [".max("]),
    (r"\.max\(", [".min("]),
    (r"\btrue\b", ["false"]),
    (r"\bfalse\b", ["true"]),
    (r"(?<![\w.])0(?![\w.])", ["1"]),
    (r"(?<![\w.])1(?![\w.])", ["0", "2"]),
    (r"(?<![\w.])2(?![\w.])", ["1", "3"]),
    (r"\.rev\(\)", [""]),
    (r"\.\.=", [".."]),
    (r"Ordering::Less", ["Ordering::Greater"]),
    (r"Ordering::Greater", ["Ordering::Less"]),
    (r"\b\w+\.shuffle\(\w+\);", [""]),
    (r"\b[\w.]+\.reverse\(\);", [""]),
    (r"\.first\(\)", [".last()"]),
    (r"\.last\(\)", [".first()"]),
    (r"\.is_empty\(\)", [".is_empty() == false"]),
    (r"\.is_some\(\)", [".is_none()"]),
    (r"\.is_none\(\)", [".is_some()"]),
    (r"\.is_ok\(\)", [".is_err()"]),
]


def anchors():
    m = {}
    for l in open(os.path.join(ROOT, "properties.jsonl")):
        p = json.loads(l)
        if p["id"] not in CLAIMED:
            continue
        for f in p["anchors"]["files"]:
            if "-macros/" in f:
                continue
            m.setdefault(f, []).append(p["id"])
    return m


def code_lines(path):
    """(line number, text) of non-test, non-comment code lines."""
    out = []
    in_test = False
    depth_at_test = None
    depth = 0
    for i, line in enumerate(open(path).read().split("\n")):
        stripped = line.strip()
        if re.match(r"#\[cfg\(test\)\]", stripped):
            in_test = True
            depth_at_test = depth
        opens, closes = line.count("{"), line.count("}")
        if not in_test and stripped and not stripped.startswith("//") and not stripped.startswith("#[") \
                and "unreachable!" not in line and "debug_assert" not in line and not stripped.startswith("use "):
            out.append((i, line))
        depth += opens - closes
        if in_test and depth_at_test is not None and depth <= depth_at_test and closes > 0 and opens == 0 and depth == depth_at_test:
            # end of the test module
            in_test = False
    return out


def mutants():
    res = []
    for f, props in sorted(anchors().items()):
        path = os.path.join("/repo", f)
        if not os.path.exists(path):
            continue
        for (i, line) in code_lines(path):
            code = line.split("//")[0]
            for pat, reps in OPS:
                for mt in re.finditer(pat, code):
                    # skip things inside string literals / attributes / generics noise
                    before = code[: mt.start()]
                    if before.count('"') % 2 == 1:
                        continue
                    for r in reps:
                        new = code[: mt.start()] + r + code[mt.end():] + line[len(code):]
                        mid = hashlib.sha1(f"{f}:{i}:{mt.start()}:{r}".encode()).hexdigest()[:10]
                        res.append({"id": mid, "file": f, "line": i + 1, "old": line.strip(), "new": new.strip(), "col": mt.start(),
                                    "rep": r, "props": sorted(set(props)), "_newline": new})
    return res


def sh(cmd, cwd=None, env=None, timeout=3600):
    e = dict(os.environ, CARGO_NET_OFFLINE="true", VERIF_SKIP_MIRI="1")
    if env:
        e.update(env)
    p = subprocess.run(cmd, shell=True, cwd=cwd, env=e, capture_output=True, text=True, timeout=timeout)
    return p.returncode, p.stdout + p.stderr


def run(limit, substr, resume):
    ms = [m for m in mutants() if substr in m["file"]]
    # deterministic spread over files: sort by id (a hash), so that a limited run samples all files
    ms.sort(key=lambda m: m["id"])
    log = os.path.join(ROOT, "logs", "mutation_results.jsonl")
    done = set()
    if resume and os.path.exists(log):
        done = {json.loads(l)["id"] for l in open(log)}
    os.makedirs(os.path.dirname(log), exist_ok=True)
    n = 0
    for m in ms:
        if m["id"] in done:
            continue
        if n >= limit:
            break
        n += 1
        path = os.path.join(LAB, "repo", m["file"])
        sh("git checkout -q -- .", cwd=os.path.join(LAB, "repo"))
        lines = open(path).read().split("\n")
        lines[m["line"] - 1] = m["_newline"]
        open(path, "w").write("\n".join(lines))
        rec = {k: v for k, v in m.items() if not k.startswith("_")}
        t0 = time.time()
        # does it compile at all? (build the sim workspace once; the checks then reuse it)
        rc, out = sh("cargo build --release --offline --bins 2>&1 | tail -3", cwd=os.path.join(LAB, "verif", "sim"))
        if "error" in out and "Finished" not in out:
            rec["result"] = "does-not-compile"
        else:
            detected = []
            harness = []
            for pid in m["props"]:
                rc, out = sh(f"./check {pid} quick", cwd=os.path.join(LAB, "verif"))
                if rc == 1 and "VIOLATION" in out:
                    detected.append(pid)
                    break
                if rc not in (0, 1):
                    harness.append(pid)
            if harness and not detected and all("building" in o for o in [out]):
                rec["result"] = "does-not-compile"
            elif detected:
                rec["result"] = "detected"
                rec["by"] = detected
            else:
                rc, out = sh("cargo test --workspace --no-fail-fast --offline 2>&1 | grep -E '^test result|error' | head -40", cwd=os.path.join(LAB, "repo"))
                failed = sum(int(x) for x in re.findall(r"(\d+) failed", out))
                if "error" in out and "test result" not in out:
                    rec["result"] = "suite-does-not-build"
                elif failed > 0:
                    rec["result"] = "killed-by-suite-only"
                else:
                    rec["result"] = "SURVIVED"
        rec["secs"] = round(time.time() - t0, 1)
        sh("git checkout -q -- .", cwd=os.path.join(LAB, "repo"))
        sh("rm -f replays/C[0-9][0-9]-*.json", cwd=os.path.join(LAB, "verif"))
        with open(log, "a") as f:
            f.write(json.dumps(rec) + "\n")
        print(rec["result"], rec["file"], rec["line"], repr(rec["old"][:70]), "->", repr(rec["rep"]), rec.get("by", ""), flush=True)
    # survivors file
    surv = [json.loads(l) for l in open(log)] if os.path.exists(log) else []
    with open(os.path.join(ROOT, "logs", "mutation_survivors.txt"), "w") as f:
        for r in surv:
            if r["result"] in ("SURVIVED",):
                f.write(f"{r['id']} {r['file']}:{r['line']} [{','.join(r['props'])}]\n    - {r['old']}\n    + {r['new']}\n")
    from collections import Counter
    print(Counter(r["result"] for r in surv))


if __name__ == "__main__":
    if len(sys.argv) < 2 or sys.argv[1] == "list":
        ms = mutants()
        from collections import Counter
        c = Counter(m["file"] for m in ms)
        for f, k in sorted(c.items()):
            print(k, f)
        print(len(ms), "mutants")
    else:
        limit = int(sys.argv[sys.argv.index("--limit") + 1]) if "--limit" in sys.argv else 10 ** 9
        substr = sys.argv[sys.argv.index("--files") + 1] if "--files" in sys.argv else ""
        run(limit, substr, "--resume" in sys.argv)
