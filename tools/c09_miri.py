#!/usr/bin/env python3
"""C09, Miri leg (engine E5): real ec-core + real rayon under Miri's deterministic scheduler.

usage: c09_miri.py setup | quick | thorough | replay <file>
One (configuration argv, Miri seed) pair is one exactly repeatable execution: the same pair gives a
byte-identical event log (including the words rand::rng() produced, since Miri simulates OS entropy).
"""
import json, os, subprocess, sys, time, hashlib

ROOT = os.path.dirname(os.path.dirname(os.path.abspath(__file__)))
CRATE = os.path.join(ROOT, "miri", "c09miri")
FLAGS = "-Zmiri-preemption-rate=0.1 -Zmiri-disable-stacked-borrows -Zmiri-permissive-provenance -Zmiri-ignore-leaks"
FLAGS_NOTE = ("the borrow-model flags silence a known Stacked Borrows report inside crossbeam-epoch (a dependency of rayon); "
              "Miri is used here as a deterministic scheduler, not as a UB detector")

def miri(argv, seeds=None, seed=None, timeout=3600):
    env = dict(os.environ)
    env["CARGO_NET_OFFLINE"] = "true"
    if seeds is not None:
        env["MIRIFLAGS"] = f"-Zmiri-many-seeds={seeds[0]}..{seeds[1]} {FLAGS}"
    else:
        env["MIRIFLAGS"] = f"-Zmiri-seed={seed} {FLAGS}"
    p = subprocess.run(["cargo", "+nightly", "miri", "run", "--offline", "-q", "--"] + [str(a) for a in argv],
                       cwd=CRATE, env=env, capture_output=True, text=True, timeout=timeout)
    return p.returncode, p.stdout, p.stderr

def configs(tier, base):
    # (n, threads, draws, steps): fault positions are enumerated, not sampled
    cs = []
    if tier == "quick":
        cs = [(4, 3, 1, "1;"), (3, 2, 2, "0,2;"), (5, 4, 1, ";"), (2, 2, 1, "0,1;;"), (1, 2, 1, "0;"), (0, 2, 1, ";"), (6, 3, 1, "5;"), (7, 4, 1, ";")]
        per = 6
    else:
        for n in range(0, 9):
            plans = [";"] + [f"{k};" for k in range(n)] + ([f"0,{n-1};"] if n >= 2 else []) + ([",".join(map(str, range(n))) + ";"] if n >= 1 else [])
            for i, plan in enumerate(plans):
                threads = 1 + (n + i) % 4
                cs.append((n, threads, 1 + (i % 2), plan))
        cs += [(66, 3, 1, ";"), (65, 4, 1, "64;"), (33, 2, 1, ";")]
        per = 8
    return cs, per

def parse(out):
    digests, overlapped, faults, never, findings = [], 0, 0, 0, []
    for line in out.splitlines():
        if line.startswith("DIGEST "):
            parts = line.split()
            digests.append(parts[1])
            kv = dict(x.split("=") for x in parts[2:])
            overlapped += int(kv.get("overlapped", 0)); faults += int(kv.get("faults_fired", 0)); never += int(kv.get("never_attempted", 0))
        elif line.startswith("FINDING "):
            findings.append(line[len("FINDING "):])
    return digests, overlapped, faults, never, findings

def write_replay(argv, seed, finding, verif_seed):
    key = "miri"
    if "key=" in finding:
        key = finding.split("key=", 1)[1].split(" msg=", 1)[0]
    safe = "".join(c if c.isalnum() or c in "-_" else "_" for c in key)[:60]
    path = os.path.join(ROOT, "replays", f"C09-miri-{safe}-{seed}.miri.json")
    os.makedirs(os.path.dirname(path), exist_ok=True)
    json.dump({"property": "C09", "leg": "miri", "key": key, "message": finding, "verif_seed": verif_seed,
               "argv": list(argv), "miri_seed": seed, "miriflags": FLAGS}, open(path, "w"), indent=1)
    return path

def run_tier(tier):
    t0 = time.time()
    verif_seed = int(os.environ.get("VERIF_SEED", "20260927"))
    base = verif_seed % 100000
    cs, per = configs(tier, base)
    all_digests, total, overlapped, faults, never = set(), 0, 0, 0, 0
    violations, samples = 0, []
    from concurrent.futures import ThreadPoolExecutor
    # warm the build once, then run up to three Miri processes at a time (each runs its seeds in parallel)
    miri((0, 1, 1, ";"), seed=base)
    def job(i_argv):
        i, argv = i_argv
        a, b = base + i * per, base + (i + 1) * per
        return (argv, a, b) + miri(argv, seeds=(a, b))
    with ThreadPoolExecutor(max_workers=3) as ex:
        results = list(ex.map(job, list(enumerate(cs))))
    for argv, a, b, rc, out, err in results:
        digests, ov, fa, ne, findings = parse(out)
        if "Undefined Behavior" in err or (rc != 0 and not findings and len(digests) < per):
            print(f"HARNESS-ERROR: property=C09 Miri aborted for argv={argv} seeds {a}..{b} (rc={rc})")
            print("\n".join(err.splitlines()[-15:]))
            return 2
        total += len(digests); overlapped += ov; faults += fa; never += ne
        all_digests.update((str(argv), d) for d in digests)
        if len(samples) < 3:
            samples.append({"argv": list(argv), "miri_seeds": [a, b], "event_log_digests": digests[:3]})
        if findings:
            # pin the failing seed (seeds run in parallel inside one Miri process)
            culprit = None
            for s in range(a, b):
                rc1, out1, _ = miri(argv, seed=s)
                _, _, _, _, f1 = parse(out1)
                if f1:
                    culprit = (s, f1[0]); break
            if culprit is None:
                print(f"HARNESS-ERROR: property=C09 a Miri finding for argv={argv} did not reproduce with any single seed in {a}..{b}")
                return 2
            path = write_replay(argv, culprit[0], culprit[1], verif_seed)
            print("  " + culprit[1])
            print(f"VIOLATION property=C09 replay={path}")
            violations += 1
    wall = time.time() - t0
    ev = {"property_id": "C09", "tier": tier, "seed": verif_seed, "level": "exploration",
          "coverage": {"leg": "miri", "evaluations": total, "distinct_nontrivial": len(all_digests),
                       "rule": "Miri leg: Generation::par_next on real rayon pools (1-4 threads) executed by Miri, one execution per (configuration, -Zmiri-seed); "
                               "configurations enumerate population sizes and fault positions; non-trivial/distinct = distinct (configuration, event-log digest) pairs",
                       "samples": samples, "runs_per_hour": int(total / max(wall, 1e-9) * 3600),
                       "simulated_time": "not applicable: nothing in the code reads a clock",
                       "faults_fired": {"child-fail": faults, "schedule": total},
                       "probes": {"two-or-more-makers-overlapped-in-time": overlapped, "children-never-attempted-after-an-error": never},
                       "real_components": ["ec-core generation.rs", "rayon 1.10 + rayon-core + crossbeam (real)", "rand::rng() with Miri-simulated OS entropy"],
                       "stub_components": ["instrumented child maker", "Miri's scheduler instead of the OS scheduler"],
                       "miriflags": FLAGS, "miriflags_note": FLAGS_NOTE},
          "assumptions": [FLAGS_NOTE, "Miri emulates weak memory only partially"], "wall_s": wall, "violations": violations}
    os.makedirs(os.path.join(ROOT, "evidence"), exist_ok=True)
    json.dump(ev, open(os.path.join(ROOT, "evidence", "C09.miri.json"), "w"), indent=1)
    print(f"property=C09 leg=miri tier={tier} executions={total} distinct_event_logs={len(all_digests)} violations={violations} wall={wall:.1f}s")
    return 1 if violations else 0

def replay(path):
    r = json.load(open(path))
    rc, out, err = miri(r["argv"], seed=r["miri_seed"])
    _, _, _, _, findings = parse(out)
    if findings:
        for f in findings: print("REPLAY property=C09 leg=miri " + f)
        print(f"VIOLATION property=C09 replay={path}")
        return 1
    if rc != 0:
        print("HARNESS-ERROR: Miri failed during replay"); print("\n".join(err.splitlines()[-10:])); return 2
    print(f"REPLAY property=C09 leg=miri result=holds file={path}")
    return 0

def main():
    cmd = sys.argv[1] if len(sys.argv) > 1 else "quick"
    if cmd == "setup":
        rc, out, err = miri((1, 1, 1, ";"), seed=0)
        print("miri leg setup:", "ok" if rc == 0 else "FAILED"); 
        if rc != 0: print("\n".join(err.splitlines()[-20:]))
        return 0 if rc == 0 else 2
    if cmd == "replay":
        return replay(sys.argv[2])
    return run_tier(cmd)

if __name__ == "__main__":
    sys.exit(main())
