#!/usr/bin/env python3
"""C16, R4: the registry of rng-consuming operations executed under several Miri seeds.
Every Miri seed gives the interpreted program different simulated OS entropy (=> different ThreadRng seed and
HashMap RandomState keys), different addresses and a different virtual clock; the digests of (result, stream state)
for every (operation, data seed, stream seed) item must equal the natively computed ones.

usage: c16_miri.py setup | quick | thorough | replay <file>
"""
import json, os, subprocess, sys, time
from concurrent.futures import ThreadPoolExecutor
ROOT = os.path.dirname(os.path.dirname(os.path.abspath(__file__)))
SIM = os.path.join(ROOT, "sim")
FLAGS = "-Zmiri-disable-stacked-borrows -Zmiri-permissive-provenance -Zmiri-ignore-leaks"

def native(chunk_seed, count):
    p = subprocess.run([os.path.join(SIM, "target", "release", "c16"), "--digest", str(chunk_seed), str(count), "small"],
                       capture_output=True, text=True, env=dict(os.environ, VERIF_ROOT=ROOT))
    return [l for l in p.stdout.splitlines() if l.startswith("D ")]

def under_miri(miri_seed, chunk_seed, count):
    env = dict(os.environ, CARGO_NET_OFFLINE="true", MIRIFLAGS=f"-Zmiri-seed={miri_seed} {FLAGS}")
    p = subprocess.run(["cargo", "+nightly", "miri", "run", "--offline", "-q", "-p", "checks", "--bin", "c16", "--",
                        "--digest", str(chunk_seed), str(count), "small"], cwd=SIM, env=env, capture_output=True, text=True, timeout=3600)
    return p.returncode, [l for l in p.stdout.splitlines() if l.startswith("D ")], p.stderr

def run_tier(tier):
    t0 = time.time()
    verif_seed = int(os.environ.get("VERIF_SEED", "20260927"))
    seeds, count = (4, 60) if tier == "quick" else (16, 400)
    chunk_seed = verif_seed * 7919 + 13
    ref = native(chunk_seed, count)
    if len(ref) != count:
        print("HARNESS-ERROR: property=C16 native digest run incomplete"); return 2
    under_miri(verif_seed % 1000, chunk_seed, 1)  # warm the build
    with ThreadPoolExecutor(max_workers=8) as ex:
        results = list(ex.map(lambda s: (s,) + under_miri(s, chunk_seed, count), [verif_seed % 1000 + k for k in range(seeds)]))
    violations = 0
    for s, rc, lines, err in results:
        if rc != 0 or len(lines) != count:
            print(f"HARNESS-ERROR: property=C16 Miri run (seed {s}) failed rc={rc}"); print("\n".join(err.splitlines()[-12:])); return 2
        bad = [i for i, (a, b) in enumerate(zip(ref, lines)) if a != b]
        if bad:
            path = os.path.join(ROOT, "replays", f"C16-miri-{chunk_seed}-{bad[0]}-{s}.json")
            os.makedirs(os.path.dirname(path), exist_ok=True)
            json.dump({"property": "C16", "leg": "miri", "key": "miri-seed-differs", "chunk_seed": chunk_seed, "count": count,
                       "item": bad[0], "miri_seed": s, "native": ref[bad[0]], "under_miri": lines[bad[0]]}, open(path, "w"), indent=1)
            print(f"  item #{bad[0]} of digest chunk {chunk_seed}: {ref[bad[0]]} natively, {lines[bad[0]]} under Miri seed {s} (different simulated entropy / hash keys / addresses)")
            print(f"VIOLATION property=C16 replay={path}")
            violations += 1
    wall = time.time() - t0
    evp = os.path.join(ROOT, "evidence", "C16.json")
    if os.path.exists(evp):
        ev = json.load(open(evp))
        ev["coverage"]["evaluations"] += seeds * count
        ev["coverage"]["miri_leg_R4"] = {"miri_seeds": seeds, "items_per_seed": count, "items_equal_to_native": seeds * count if not violations else None,
                                          "wall_s": wall, "miriflags": FLAGS,
                                          "what": "registry digests (result + stream state) recomputed under Miri seeds = different simulated entropy, RandomState keys, addresses, clock"}
        ev["coverage"].setdefault("faults_fired", {})["ambient-miri-seed"] = seeds
        ev["wall_s"] += wall
        ev["violations"] = ev.get("violations", 0) + violations
        json.dump(ev, open(evp, "w"), indent=1)
    print(f"property=C16 leg=miri(R4) tier={tier} miri_seeds={seeds} items={seeds*count} violations={violations} wall={wall:.1f}s")
    return 1 if violations else 0

def replay(path):
    r = json.load(open(path))
    ref = native(r["chunk_seed"], r["count"])
    rc, lines, err = under_miri(r["miri_seed"], r["chunk_seed"], r["count"])
    if rc != 0 or len(lines) != len(ref):
        print("HARNESS-ERROR: Miri failed during replay"); return 2
    if ref[r["item"]] != lines[r["item"]]:
        print(f"REPLAY property=C16 leg=miri item {r['item']}: {ref[r['item']]} natively vs {lines[r['item']]} under Miri seed {r['miri_seed']}")
        print(f"VIOLATION property=C16 replay={path}"); return 1
    print(f"REPLAY property=C16 leg=miri result=holds file={path}"); return 0

if __name__ == "__main__":
    cmd = sys.argv[1] if len(sys.argv) > 1 else "quick"
    if cmd == "setup":
        rc, lines, err = under_miri(0, 1, 1); print("C16 miri leg setup:", "ok" if rc == 0 else "FAILED"); sys.exit(0 if rc == 0 else 2)
    if cmd == "replay": sys.exit(replay(sys.argv[2]))
    sys.exit(run_tier(cmd))
