#!/bin/bash
# tools/run_all.sh [tier] [ids...] — runs the registered command of every claimed property, prints a summary table.
set -u
ROOT="$(cd "$(dirname "${BASH_SOURCE[0]}")/.." && pwd)"
TIER="${1:-quick}"; shift 1 2>/dev/null || true
IDS="${*:-C01 C02 C03 C04 C06 C07 C08 C09 C10 C11 C12 C13 C14 C16 C17 C18}"
mkdir -p "$ROOT/logs"; bad=0
for id in $IDS; do
  t0=$(date +%s)
  "$ROOT/check" "$id" "$TIER" > "$ROOT/logs/all-$id-$TIER.out" 2>&1; rc=$?
  t1=$(date +%s)
  echo "$id tier=$TIER exit=$rc wall=$((t1-t0))s $(grep -E '^property=' "$ROOT/logs/all-$id-$TIER.out" | sed 's/evidence=.*//' | tr '\n' ' ')"
  [ $rc -eq 0 ] || { bad=$((bad+1)); grep -E 'VIOLATION|HARNESS|clause=' "$ROOT/logs/all-$id-$TIER.out" | head -5; }
done
echo "ALL-RESULT tier=$TIER failing=$bad"
exit $((bad>0))
