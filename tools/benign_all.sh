#!/bin/bash
# tools/benign_all.sh <dir-with-worktrees> [suffix=b]
# Every property-preserving variant (<dir>/*<suffix>/OUT/patchN.diff) is applied to the LAB copy of the repository
# in turn and EVERY claimed property's quick check is run against it (Miri legs skipped). Any VIOLATION or harness
# error is a false-alarm candidate: listed in logs/benign_all.log for reading.
set -u
ROOT="$(cd "$(dirname "${BASH_SOURCE[0]}")/.." && pwd)"
DIR="${1:-/tmp/wt}"; SUF="${2:-b}"
LAB="${LAB:-/tmp/lab}"
LOG="${BENIGN_LOG:-$ROOT/logs/benign_all.log}"; touch "$LOG"
ALL="C01 C02 C03 C04 C06 C07 C08 C09 C10 C11 C12 C13 C14 C16 C17 C18"
# checks that exercise code of each crate (a patch can only affect checks that run code of a crate it touches)
PUSH="C01 C02 C03 C04 C11 C12 C16 C18"
LINEAR="C09 C10 C11 C12 C16 C17 C18"
CORE="C06 C07 C08 C09 C13 C14 C16 C17 C18 C10 C11"
for patch in "$DIR"/*"$SUF"/OUT/patch*.diff; do
  name="$(basename "$(dirname "$(dirname "$patch")")")/$(basename "$patch")"
  grep -q "^$name:" "$LOG" && continue   # already done in an earlier (interrupted) invocation, or claimed by another lab
  [ -n "${BENIGN_CLAIM:-}" ] && echo "$name:CLAIMED by $LAB" >> "$LOG"
  git -C "$LAB/repo" checkout -q -- . ; git -C "$LAB/repo" apply "$patch" || { echo "$name: does not apply" >> "$LOG"; continue; }
  bad=""
  IDS=""
  grep -q '^+++ b/packages/push/' "$patch" && IDS="$IDS $PUSH"
  grep -q '^+++ b/packages/ec-linear/' "$patch" && IDS="$IDS $LINEAR"
  grep -q '^+++ b/packages/ec-core/' "$patch" && IDS="$IDS $CORE"
  grep -q '^+++ b/packages/.*-macros/' "$patch" && IDS="$ALL"
  IDS="$(echo $IDS | tr ' ' '\n' | sort -u | tr '\n' ' ')"
  if [ -n "${BENIGN_ONLY_OWN:-}" ]; then own="$(basename "$(dirname "$(dirname "$patch")")")"; IDS="C${own:1:2}"; fi
  for id in $IDS; do
    out="$(cd "$LAB/verif" && VERIF_SKIP_MIRI=1 ./check "$id" quick 2>&1)"; rc=$?
    if [ $rc -ne 0 ]; then bad="$bad $id(rc=$rc:$(echo "$out" | grep -E 'key=|HARNESS' | head -2 | cut -c1-160 | tr '\n' ' '))"; fi
  done
  git -C "$LAB/repo" checkout -q -- .
  rm -f "$LAB"/verif/replays/C[0-9][0-9]-*.json
  echo "$name:${bad:- silent ($IDS)}" | tee -a "$LOG"
done
