#!/bin/bash
# The two schedule-deciding legs of C09: shuttle (rayon stand-in) and Miri (real rayon).
# usage: c09_legs.sh setup | quick | thorough | replay <file>
set -u
ROOT="$(cd "$(dirname "${BASH_SOURCE[0]}")/.." && pwd)"
export CARGO_NET_OFFLINE=true VERIF_ROOT="$ROOT"
MODE="${1:-quick}"
build_shuttle() {
  if ! (cd "$ROOT/sim" && cargo build --release --offline -p c09shuttle >"$ROOT/logs/build-c09shuttle.log" 2>&1); then
    echo "HARNESS-ERROR: property=C09 building the shuttle leg against /repo failed (see logs/build-c09shuttle.log)"; grep -E '^(error|  -->)' "$ROOT/logs/build-c09shuttle.log" | head; exit 2
  fi
}
mkdir -p "$ROOT/logs"
case "$MODE" in
  setup) build_shuttle; "$ROOT/tools/c09_miri.py" setup; exit $? ;;
  replay)
    FILE="$2"
    case "$FILE" in
      *.miri.json) exec "$ROOT/tools/c09_miri.py" replay "$FILE" ;;
      *) build_shuttle; exec "$ROOT/sim/target/release/c09shuttle" --replay "$FILE" ;;
    esac ;;
esac
rc=0
build_shuttle
for f in "$ROOT"/replays/fixed/C09-shuttle-*.json; do [ -e "$f" ] || continue; "$ROOT/sim/target/release/c09shuttle" --replay "$f" | grep -E '^VIOLATION' && rc=1; done
"$ROOT/sim/target/release/c09shuttle" "$MODE"; r=$?
if [ $r -eq 1 ]; then rc=1; elif [ $r -ne 0 ]; then exit $r; fi
"$ROOT/tools/c09_miri.py" "$MODE"; r=$?
if [ $r -eq 1 ]; then rc=1; elif [ $r -ne 0 ]; then exit $r; fi
"$ROOT/tools/merge_c09.py" || exit 2
exit $rc
