#!/bin/bash
# The two schedule-deciding legs of C09: shuttle (rayon stand-in) and Miri (real rayon).
# usage: c09_legs.sh setup | quick | thorough | replay <file>
set -u
ROOT="$(cd "$(dirname "${BASH_SOURCE[0]}")/.." && pwd)"
export CARGO_NET_OFFLINE=true VERIF_ROOT="$ROOT"
MODE="${1:-quick}"
SHUTTLE_OK=1
build_shuttle() {
  # The shuttle leg compiles /repo's generation.rs against a stand-in for rayon that covers only part of
  # rayon's API. If the tree under test uses more of it, this leg cannot be built: it is skipped with a
  # note (evidence: legs_missing) and the real-rayon legs (serial/real pools, Miri) decide alone.
  if ! (cd "$ROOT/sim" && cargo build --release --offline -p c09shuttle >"$ROOT/logs/build-c09shuttle.log" 2>&1); then
    SHUTTLE_OK=0
    echo "NOTE: property=C09 shuttle leg skipped: /repo does not build against the rayon stand-in (see logs/build-c09shuttle.log)"
    grep -E '^error' "$ROOT/logs/build-c09shuttle.log" | head -3
    rm -f "$ROOT/evidence/C09.shuttle.json"
  fi
}
mkdir -p "$ROOT/logs"
case "$MODE" in
  setup) build_shuttle; [ $SHUTTLE_OK -eq 1 ] || exit 2; "$ROOT/tools/c09_miri.py" setup; exit $? ;;
  replay)
    FILE="$2"
    case "$FILE" in
      *.miri.json) exec "$ROOT/tools/c09_miri.py" replay "$FILE" ;;
      *) build_shuttle; [ $SHUTTLE_OK -eq 1 ] || exit 2; exec "$ROOT/sim/target/release/c09shuttle" --replay "$FILE" ;;
    esac ;;
esac
rc=0
build_shuttle
if [ $SHUTTLE_OK -eq 1 ]; then
  for f in "$ROOT"/replays/fixed/C09-shuttle-*.json; do [ -e "$f" ] || continue; "$ROOT/sim/target/release/c09shuttle" --replay "$f" | grep -E '^VIOLATION' && rc=1; done
  "$ROOT/sim/target/release/c09shuttle" "$MODE"; r=$?
  if [ $r -eq 1 ]; then rc=1; elif [ $r -ne 0 ]; then exit $r; fi
fi
if [ -z "${VERIF_SKIP_MIRI:-}" ]; then  # (bulk runs of tools/benign_all.sh skip the slow Miri leg; registered commands never set this)
  "$ROOT/tools/c09_miri.py" "$MODE"; r=$?
  if [ $r -eq 1 ]; then rc=1; elif [ $r -ne 0 ]; then exit $r; fi
fi
"$ROOT/tools/merge_c09.py" || exit 2
exit $rc
