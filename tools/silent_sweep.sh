#!/bin/bash
# tools/silent_sweep.sh <first_seed> <count> [tier] [ids...]
# Runs every registered check for many VERIF_SEED values on the unchanged tree; any exit != 0 is reported.
# (False-alarm audit: DESIGN §8.) Writes a summary to logs/silent_sweep.txt.
set -u
ROOT="$(cd "$(dirname "${BASH_SOURCE[0]}")/.." && pwd)"
FIRST="${1:-1}"; COUNT="${2:-50}"; TIER="${3:-quick}"; shift 3 2>/dev/null || true
IDS="${*:-C01 C02 C03 C04 C06 C07 C08 C10 C11 C12 C13 C14 C16 C17 C18 C09}"
mkdir -p "$ROOT/logs"; OUT="$ROOT/logs/silent_sweep.txt"; : > "$OUT"
bad=0
for id in $IDS; do
  for ((s=FIRST; s<FIRST+COUNT; s++)); do
    VERIF_SEED=$s "$ROOT/check" "$id" "$TIER" > "$ROOT/logs/sweep-$id.out" 2>&1; rc=$?
    if [ $rc -ne 0 ]; then bad=$((bad+1)); echo "ALARM id=$id seed=$s rc=$rc" | tee -a "$OUT"; grep -E 'VIOLATION|HARNESS|clause=' "$ROOT/logs/sweep-$id.out" | head -5 | tee -a "$OUT"; fi
  done
  echo "done $id seeds $FIRST..$((FIRST+COUNT-1)) tier=$TIER alarms_so_far=$bad" | tee -a "$OUT"
done
echo "SWEEP-RESULT alarms=$bad" | tee -a "$OUT"
# sweeps are not evidence of the default run: restore the committed evidence files
git -C "$ROOT" checkout -- evidence 2>/dev/null
exit $((bad>0))
