#!/bin/bash
# tools/lab_seeded.sh [tier] [name-filter] — like run_seeded.sh, but in a lab copy (LAB, default /tmp/lab2), so that
# /repo stays untouched while other work goes on. Final claims are re-established on /repo with run_seeded.sh.
set -u
ROOT="$(cd "$(dirname "${BASH_SOURCE[0]}")/.." && pwd)"
export LAB="${LAB:-/tmp/lab2}"
TIER="${1:-quick}"; FILTER="${2:-}"
[ -d "$LAB/repo" ] && "$ROOT/tools/lab.sh" sync >/dev/null 2>&1 || "$ROOT/tools/lab.sh" init >/dev/null 2>&1
OUT="${LAB_SEEDED_OUT:-$ROOT/logs/lab_seeded_results.txt}"; : > "$OUT"
det=0; miss=0
for d in "$ROOT"/seeded/C*; do
  name="$(basename "$d")"; [[ "$name" == *"$FILTER"* ]] || continue
  id="${name%%-*}"
  res="$(VERIF_SKIP_MIRI=1 "$ROOT/tools/lab.sh" try "$d/patch.diff" "$id" "$TIER" 2>&1)"
  if echo "$res" | grep -q '^VIOLATION' && echo "$res" | grep -q '^exit=1'; then det=$((det+1)); echo "DETECTED $name" >> "$OUT"
  else miss=$((miss+1)); echo "MISSED   $name ($(echo "$res" | grep -E '^exit=|HARNESS' | head -2 | tr '\n' ' '))" | tee -a "$OUT"; fi
done
echo "LAB-SEEDED-RESULT tier=$TIER detected=$det missed=$miss" | tee -a "$OUT"
