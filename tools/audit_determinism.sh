#!/bin/bash
# tools/audit_determinism.sh [runs_per_audit] [seed_count]
# Determinism audit (DESIGN §8): for every engine binary, `--audit N` (per-run digests of scenario, observations,
# violations) is executed in separate processes at worker counts 1 and 16 for several VERIF_SEED values and the
# outputs are compared byte for byte. Writes AUDIT.md.
set -u
ROOT="$(cd "$(dirname "${BASH_SOURCE[0]}")/.." && pwd)"
N="${1:-600}"; SEEDS="${2:-8}"
export VERIF_ROOT="$ROOT" CARGO_NET_OFFLINE=true
(cd "$ROOT/sim" && cargo build --release --offline --bins >/dev/null 2>&1) || { echo "build failed"; exit 2; }
OUT="$ROOT/AUDIT.md"
{
echo "# Determinism audit"
echo
echo "Command: \`tools/audit_determinism.sh $N $SEEDS\` — for each binary and each of $SEEDS VERIF_SEED values, \`--audit $N\`"
echo "(digest per run of scenario + counters + events + violations) was executed in two separate processes with 1 and 16"
echo "worker threads; the two outputs must be byte-identical. C16's Op scenarios spawn real threads and processes, C09's serial"
echo "leg runs real rayon pools: their *outcomes* are schedule independent, which is what the digest covers."
echo
echo "| binary | seeds | runs per seed | identical |"
echo "|---|---|---|---|"
} > "$OUT"
# the rare large scenarios (giant blocks, populations / vectors beyond 16 bits, wide experiments, many inputs) sit
# at particular run indices of the quick tier: they are audited too
export VERIF_AUDIT_EXTRA="11,13,17,7,40013,80013,30017,60017,4321,104321,204321,77,40077,80077,120077,160077,19999,39999,59999,79999,4001,12001,20001,1249,3749,32349,349,1049,33249,80,81,82,83,84,85,86,87,1860,1861,1862,1863,2000000,1999999,6001,22001,38001,70001,170001,300007,1300007,134,135,136,137,138,139,140,141,5,13,21,1031,7,71,135"
bad=0
for bin in c01 c02 c03 c04 c06 c07 c08 c10 c11 c12 c13 c14 c16 c17 c18 c09 c09shuttle; do
  ok=0
  for ((s=1; s<=SEEDS; s++)); do
    VERIF_SEED=$s VERIF_THREADS=1 "$ROOT/sim/target/release/$bin" --audit "$N" > /tmp/audit_a.$$ 2>/dev/null
    VERIF_SEED=$s VERIF_THREADS=16 "$ROOT/sim/target/release/$bin" --audit "$N" > /tmp/audit_b.$$ 2>/dev/null
    if cmp -s /tmp/audit_a.$$ /tmp/audit_b.$$ && [ -s /tmp/audit_a.$$ ]; then ok=$((ok+1)); else bad=$((bad+1)); echo "DIFF $bin seed=$s"; diff /tmp/audit_a.$$ /tmp/audit_b.$$ | head -4; fi
  done
  echo "| $bin | $SEEDS | $N | $ok / $SEEDS |" >> "$OUT"
done
rm -f /tmp/audit_a.$$ /tmp/audit_b.$$
echo >> "$OUT"; echo "Mismatches: $bad" >> "$OUT"
cat "$OUT" | tail -22
exit $((bad>0))
